"""Shared drivers of hardening pass 2 for the propagation properties (C01, C02, C03, C05 and the propagation adapter of C20).

Nothing in here is a reference model.  Two blind-spot classes of HARDENING2.md:

  E  argument-form equivalence   every public routine is called once in a *canonical* form (complex128 C-ordered data, python
                                 floats, python tuples, every argument by keyword, every default spelled out) and then in every
                                 other form the current tree accepts for the same mathematical input: array dtype kinds (bool,
                                 integers, float32 / float64, complex64 -- a real-dtype field and its complex copy), containers
                                 (list / ndarray / numpy scalars / 0-d arrays / scalar for an equal pair), numpy and integer
                                 scalars for the physical parameters, positional vs keyword, omitted vs explicit default (after a
                                 call that passed other explicit values), Wavefront method vs function form.  The result of every
                                 form must equal the canonical result to the precision of the narrowest float involved; the
                                 property module may add its own oracle on the form's result.
  F  cross-module histories      `foreign_traffic` exercises the *other* public consumers of the helpers these routines share
                                 (fftrange, forward_ft_unit / fftfreq, make_xy_grid, pad2d / crop_center, the shared mdft / czt
                                 executors) with hostile arguments -- non-zero shifts, float64 ndarray containers, precision 32,
                                 explicit non-default values -- and edits every array they hand back in place (a returned array
                                 belongs to the caller).  The property module then judges its own routines as usual.

How the set of accepted forms was established: `python -m vp.propforms` (PYTHONPATH=/repo:/verif) calls every (routine, argument,
form) generated below on small in-domain cases against /repo @ faa8443 and prints the ones that raise; those are recorded in
REJECTED (out of domain: skipped and counted at run time).  Every other form returned, on that tree, the canonical result to the
tolerance used here (0 differences over 3 seeds).

prysm is imported lazily (this module is imported by property modules inside a worker process).
"""
import numpy as np


# ------------------------------------------------------------------------------------------ value forms
def f32_exact(x):
    return float(np.float32(x)) == float(x)


FIELD_KINDS = ('complex', 'real', 'small-int', 'binary')
LOWP = 'float32-form'          # the form carries float32 numbers: numpy computes with them in float32


def make_field(kind, shape, seed):
    """Field *values* (float64 / complex128); the dtype the routine sees is chosen by the form."""
    r = np.random.default_rng(seed)
    if kind == 'complex':
        return r.standard_normal(shape) + 1j * r.standard_normal(shape)
    if kind == 'real':
        return r.standard_normal(shape)
    if kind == 'small-int':
        return r.integers(0, 4, shape).astype(np.float64)
    if kind == 'binary':
        return (r.random(shape) < 0.6).astype(np.float64)
    raise ValueError(kind)


INT_FORMS = (np.int64, np.int32, np.int16, np.int8, np.uint8, np.uint16)


def field_forms(kind):
    """[(label, dtype, single)] -- array dtypes that hold the same values as the canonical complex128 array."""
    if kind == 'complex':
        return [('complex64', np.complex64, True)]
    real = [('float64', np.float64, False), ('float32', np.float32, True)]
    if kind == 'real':
        return real + [('complex64', np.complex64, True)]
    ints = [(np.dtype(t).name, t, False) for t in INT_FORMS]
    if kind == 'small-int':
        return real + ints
    return real + ints + [('bool', np.bool_, False)]


def scalar_forms(v):
    """Forms of one real number (canonical: python float)."""
    v = float(v)
    out = [('np.float64', lambda: np.float64(v), False), ('0-d float64 array', lambda: np.array(v), False)]
    if f32_exact(v):
        out.append(('np.float32', lambda: np.float32(v), True))
    if v.is_integer():
        out += [('int', lambda: int(v), False), ('np.int64', lambda: np.int64(int(v)), False)]
    return out


def pair_forms(v):
    """Forms of a pair of real numbers (canonical: tuple of python floats)."""
    a, b = float(v[0]), float(v[1])
    out = [('list', lambda: [a, b], False), ('float64 ndarray', lambda: np.array([a, b], dtype=np.float64), False),
           ('np.float64 scalars', lambda: (np.float64(a), np.float64(b)), False)]
    if f32_exact(a) and f32_exact(b):
        out += [('float32 ndarray', lambda: np.array([a, b], dtype=np.float32), True),
                ('np.float32 scalars', lambda: (np.float32(a), np.float32(b)), True)]
    if a.is_integer() and b.is_integer():
        out += [('ints', lambda: (int(a), int(b)), False), ('int64 ndarray', lambda: np.array([int(a), int(b)], dtype=np.int64), False),
                ('np.int64 scalars', lambda: (np.int64(int(a)), np.int64(int(b))), False)]
    if a == b:
        out += [('scalar', lambda: a, False), ('np.float64 scalar', lambda: np.float64(a), False)]
        if a.is_integer():
            out += [('int scalar', lambda: int(a), False)]
    return out


def samples_forms(v):
    """Forms of a pair of sample counts (canonical: tuple of python ints)."""
    M, N = int(v[0]), int(v[1])
    out = [('list', lambda: [M, N], False), ('np.int64 / np.int32 scalars', lambda: (np.int64(M), np.int32(N)), False),
           ('int64 ndarray', lambda: np.array([M, N], dtype=np.int64), False), ('int32 ndarray', lambda: np.array([M, N], dtype=np.int32), False)]
    if M == N:
        out += [('int', lambda: M, False), ('np.int64 scalar', lambda: np.int64(M), False)]
    return out


def fresh(v):
    if isinstance(v, np.ndarray):
        return np.array(v, copy=True)
    if isinstance(v, list):
        return [fresh(x) for x in v]
    return v


# ------------------------------------------------------------------------------------------ routines
class Spec:
    def __init__(self, names, optional, roles):
        self.names = tuple(names)
        self.optional = dict(optional)      # name -> documented default
        self.roles = dict(roles)            # name -> 'field' | 'mask' | 'scalar' | 'pair' | 'samples' | None


_ENG = Spec(('ary', 'Q', 'samples_out', 'shift'), {'shift': (0, 0)}, {'ary': 'field', 'Q': 'pair', 'samples_out': 'samples', 'shift': 'pair'})
_FIX = Spec(('wavefunction', 'input_dx', 'prop_dist', 'wavelength', 'output_dx', 'output_samples', 'shift', 'method'),
            {'shift': (0, 0), 'method': 'mdft'},
            {'wavefunction': 'field', 'input_dx': 'scalar', 'prop_dist': 'scalar', 'wavelength': 'scalar', 'output_dx': 'scalar',
             'output_samples': 'samples', 'shift': 'pair'})
_FFT = Spec(('wavefunction', 'Q'), {}, {'wavefunction': 'field', 'Q': 'scalar'})
SPECS = {
    'dft2': _ENG, 'idft2': _ENG, 'czt2': _ENG, 'iczt2': _ENG,
    'focus': _FFT, 'unfocus': _FFT,
    'focus_fixed_sampling': _FIX, 'unfocus_fixed_sampling': _FIX,
    'angular_spectrum': Spec(('field', 'wvl', 'dx', 'z', 'Q', 'tf'), {'Q': 2, 'tf': None},
                             {'field': 'field', 'wvl': 'scalar', 'dx': 'scalar', 'z': 'scalar', 'Q': 'scalar'}),
    'angular_spectrum_transfer_function': Spec(('samples', 'wvl', 'dx', 'z'), {}, {'samples': 'samples', 'wvl': 'scalar', 'dx': 'scalar', 'z': 'scalar'}),
    'to_fpm_and_back': Spec(('wavefunction', 'dx', 'efl', 'wavelength', 'fpm', 'fpm_dx', 'shift', 'method', 'return_more'),
                            {'shift': (0, 0), 'method': 'mdft', 'return_more': False},
                            {'wavefunction': 'field', 'dx': 'scalar', 'efl': 'scalar', 'wavelength': 'scalar', 'fpm': 'mask', 'fpm_dx': 'scalar',
                             'shift': 'pair'}),
    'Q_for_sampling': Spec(('input_diameter', 'prop_dist', 'wavelength', 'output_dx'), {},
                           {k: 'scalar' for k in ('input_diameter', 'prop_dist', 'wavelength', 'output_dx')}),
    'pupil_sample_to_psf_sample': Spec(('pupil_sample', 'samples', 'wavelength', 'efl'), {},
                                       {'pupil_sample': 'scalar', 'samples': 'count', 'wavelength': 'scalar', 'efl': 'scalar'}),
    'psf_sample_to_pupil_sample': Spec(('psf_sample', 'samples', 'wavelength', 'efl'), {},
                                       {'psf_sample': 'scalar', 'samples': 'count', 'wavelength': 'scalar', 'efl': 'scalar'}),
}
ENGINES = ('dft2', 'idft2', 'czt2', 'iczt2')

# Forms the reference tree (/repo @ faa8443) rejects with an exception: out of domain (see the module docstring for how this
# table was produced).  Keys: (routine, argument, form label); a routine name ending in '@Wavefront' is the method form.
REJECTED = {('angular_spectrum_transfer_function', 'samples', 'np.int64 scalar'): "TypeError: 'numpy.int64' object is not iterable"}
for _r in ('focus_fixed_sampling', 'unfocus_fixed_sampling', 'to_fpm_and_back'):
    for _t in ('', '@Wavefront'):
        # the wrappers index the shift (shift[0], shift[1]): a bare scalar is not a shift for them (the executors broadcast one)
        REJECTED[(_r + _t, 'shift', 'scalar')] = "TypeError: 'float' object is not subscriptable"
        REJECTED[(_r + _t, 'shift', 'int scalar')] = "TypeError: 'int' object is not subscriptable"
        REJECTED[(_r + _t, 'shift', 'np.float64 scalar')] = 'IndexError: invalid index to scalar variable.'


def function(routine):
    """The real callable, looked up at call time (contracts wrap it in place)."""
    from prysm import fttools, propagation
    if routine in ('dft2', 'idft2'):
        return getattr(fttools.mdft, routine)
    if routine in ('czt2', 'iczt2'):
        return getattr(fttools.czt, routine)
    return getattr(propagation, routine)


def _first(r):
    return r[0] if isinstance(r, tuple) else r


def _data(w):
    w = _first(w)
    return getattr(w, 'data', w)


def call_function(routine, vals, style='keywords', omit=(), fn=None):
    """Call the plain function.  style 'keywords': every argument by keyword; 'positional': every argument positional;
    'required-positional': required ones positional, optional ones by keyword.  `omit`: optional arguments left out."""
    spec = SPECS[routine]
    f = function(routine) if fn is None else fn
    names = [n for n in spec.names if n not in omit]
    if style == 'keywords':
        return _first(f(**{n: vals[n] for n in names}))
    if style == 'positional':
        if any(n in omit for n in spec.names[:len(names)]):       # only a trailing run of optional arguments can be left out
            raise ValueError('positional call with a gap')
        return _first(f(*[vals[n] for n in names]))
    req = [n for n in names if n not in spec.optional]
    return _first(f(*[vals[n] for n in req], **{n: vals[n] for n in names if n in spec.optional}))


WF_ROUTINES = ('focus', 'unfocus', 'focus_fixed_sampling', 'unfocus_fixed_sampling', 'angular_spectrum', 'to_fpm_and_back')


def call_wavefront(routine, vals, style='keywords', omit=(), result=_data):
    """The Wavefront method form of `routine` on the same numbers.  style 'keywords' | 'positional'; `omit` as above."""
    from prysm.propagation import Wavefront
    v = vals

    def kw(pairs):
        return {k: x for k, x in pairs if k not in omit_m}
    if routine in ('focus', 'unfocus'):
        w = Wavefront(v['wavefunction'], 0.55, 0.1, space='pupil' if routine == 'focus' else 'psf')
        m = getattr(w, routine)
        omit_m = set(omit)
        if style == 'positional':
            return result(m(100.0, *([] if 'Q' in omit_m else [v['Q']])))
        return result(m(efl=100.0, **kw([('Q', v['Q'])])))
    if routine in ('focus_fixed_sampling', 'unfocus_fixed_sampling'):
        w = Wavefront(v['wavefunction'], v['wavelength'], v['input_dx'], space='pupil' if routine.startswith('focus') else 'psf')
        m = getattr(w, routine)
        omit_m = set(omit)
        opt = [('shift', v['shift']), ('method', v['method'])]
        if style == 'positional':
            tail = [x for k, x in opt if k not in omit_m]
            return result(m(v['prop_dist'], v['output_dx'], v['output_samples'], *tail))
        return result(m(efl=v['prop_dist'], dx=v['output_dx'], samples=v['output_samples'], **kw(opt)))
    if routine == 'angular_spectrum':
        w = Wavefront(v['field'], v['wvl'], v['dx'])
        omit_m = set(omit)
        if style == 'positional':
            tail = [x for k, x in (('Q', v['Q']), ('tf', v['tf'])) if k not in omit_m]
            return result(w.free_space(v['z'], *tail))
        return result(w.free_space(dz=v['z'], **kw([('Q', v['Q']), ('tf', v['tf'])])))
    if routine == 'to_fpm_and_back':
        w = Wavefront(v['wavefunction'], v['wavelength'], v['dx'])
        omit_m = set(omit)
        opt = [('method', v['method']), ('shift', v['shift']), ('return_more', v['return_more'])]
        if style == 'positional':
            tail = [x for k, x in opt if k not in omit_m]
            return result(w.to_fpm_and_back(v['efl'], v['fpm'], v['fpm_dx'], *tail))
        return result(w.to_fpm_and_back(efl=v['efl'], fpm=v['fpm'], fpm_dx=v['fpm_dx'], **kw(opt)))
    raise ValueError(routine)


def hostile_values(routine, vals):
    """Explicit non-default values for every optional argument (run before an 'omitted' variant: a default resolved from state
    a previous call left behind is only exposed by such a history)."""
    h = {k: fresh(x) for k, x in vals.items()}
    if 'shift' in h:
        scale = float(vals.get('output_dx', vals.get('fpm_dx', 1.0)))
        h['shift'] = np.array([1.5 * scale, -0.75 * scale])
    if 'method' in h:
        h['method'] = 'czt'
    if 'return_more' in h:
        h['return_more'] = True
    if routine == 'angular_spectrum':
        h['Q'] = 3
    if routine in ('focus', 'unfocus'):
        h['Q'] = 3
    return h


DTYPE_CLASS = {'f': 'real-float-dtype', 'i': 'integer-dtype', 'u': 'integer-dtype', 'b': 'bool-dtype', 'c': 'complex64'}


class Variant:
    """One alternative form of a call.  `label` is exact (goes into the witness), `klass` is the mechanism label used in
    violation keys (array dtypes are grouped by kind: one defect, one key)."""
    __slots__ = ('arg', 'label', 'call', 'lowp', 'routine', 'klass')

    def __init__(self, routine, arg, label, call, lowp=False, klass=None):
        self.routine, self.arg, self.label, self.call, self.lowp = routine, arg, label, call, lowp
        self.klass = klass or label


def variants(routine, vals, field_kinds=None, wavefront=True, wf_result=_data, fn=None, with_call_forms=True):
    """All alternative forms of one call.  vals: canonical values of *every* argument (python floats / tuples, field values as
    float64 / complex128 arrays; a field is handed over as complex128 in the canonical form).  field_kinds: {argument: kind}."""
    spec = SPECS[routine]
    field_kinds = field_kinds or {}
    out = []

    def canon(over=None):
        v = {}
        for k, x in vals.items():
            if spec.roles.get(k) in ('field', 'mask') and isinstance(x, np.ndarray):
                v[k] = np.array(x, dtype=np.complex128, order='C', copy=True)
            else:
                v[k] = fresh(x)
        if over:
            v.update(over)
        return v

    def add(arg, label, make, lowp, target='function', klass=None):
        r = routine if target == 'function' else routine + '@Wavefront'
        if target == 'function':
            out.append(Variant(r, arg, label, lambda: np.array(call_function(routine, canon({arg: make()}), fn=fn), copy=True), lowp, klass))
        else:
            out.append(Variant(r, arg, label, lambda: np.array(call_wavefront(routine, canon({arg: make()}), result=wf_result), copy=True), lowp, klass))

    targets = ['function'] + (['Wavefront'] if (wavefront and routine in WF_ROUTINES and fn is None) else [])
    for name in spec.names:
        role = spec.roles.get(name)
        x = vals[name]
        if role in ('field', 'mask') and isinstance(x, np.ndarray):
            kind = field_kinds.get(name, 'complex')
            for label, dt, single in field_forms(kind):
                for t in targets:
                    add(name, label, (lambda dt=dt, x=x: np.array(x.real if np.dtype(dt).kind != 'c' else x).astype(dt)), single, t,
                        DTYPE_CLASS[np.dtype(dt).kind])
        elif role == 'scalar':
            for label, make, lowp in scalar_forms(x):
                for t in targets:
                    add(name, label, make, lowp, t)
        elif role == 'count':
            for label, make in (('np.int64', lambda x=x: np.int64(x)), ('float', lambda x=x: float(x))):
                add(name, label, make, False)
        elif role == 'pair':
            for label, make, lowp in pair_forms(x if hasattr(x, '__len__') else (x, x)):
                for t in targets:
                    add(name, label, make, lowp, t)
        elif role == 'samples':
            for label, make, lowp in samples_forms(x if hasattr(x, '__len__') else (x, x)):
                for t in targets:
                    add(name, label, make, lowp, t)
    if not with_call_forms:
        return out
    # call forms: positional, Wavefront method, omitted defaults (after a call with other explicit values)
    out.append(Variant(routine, 'call', 'positional', lambda: np.array(call_function(routine, canon(), 'positional', fn=fn), copy=True)))
    if spec.optional:
        out.append(Variant(routine, 'call', 'required-positional', lambda: np.array(call_function(routine, canon(), 'required-positional', fn=fn), copy=True)))
    wf = wavefront and routine in WF_ROUTINES and fn is None
    if wf:
        out.append(Variant(routine + '@Wavefront', 'call', 'method', lambda: np.array(call_wavefront(routine, canon(), result=wf_result), copy=True)))
        out.append(Variant(routine + '@Wavefront', 'call', 'method-positional',
                           lambda: np.array(call_wavefront(routine, canon(), 'positional', result=wf_result), copy=True)))
    # an optional argument is left out when the canonical value is its documented default
    wf_defaults = {'focus': {'Q': 2}, 'unfocus': {'Q': 2}, 'angular_spectrum': {'Q': 1, 'tf': None}}.get(routine, spec.optional)

    def is_default(x, d):
        if d is None or x is None:
            return x is None and d is None
        if isinstance(d, (tuple, list)):
            try:
                return len(x) == len(d) and all(float(a) == float(b) for a, b in zip(x, d))
            except Exception:
                return False
        return type(d) is type(x) and x == d if isinstance(d, (str, bool)) else (not isinstance(x, (str, bool, np.ndarray)) and x == d)

    def omitted(omit, target):
        def run():
            try:        # the hostile call is traffic, not a judged call
                h = hostile_values(routine, canon())
                (call_function(routine, h, fn=fn) if target == 'function' else call_wavefront(routine, h, result=wf_result))
            except Exception:
                pass
            if target == 'function':
                return np.array(call_function(routine, canon(), omit=omit, fn=fn), copy=True)
            return np.array(call_wavefront(routine, canon(), omit=omit, result=wf_result), copy=True)
        return run
    can_omit = [n for n, d in spec.optional.items() if is_default(vals[n], d)]
    for n in can_omit:
        out.append(Variant(routine, n, 'omitted(default)', omitted((n,), 'function')))
    if len(can_omit) > 1:
        out.append(Variant(routine, '+'.join(can_omit), 'omitted(default)', omitted(tuple(can_omit), 'function')))
    if wf:
        can_omit_m = [n for n, d in wf_defaults.items() if n in vals and is_default(vals[n], d)]
        for n in can_omit_m:
            out.append(Variant(routine + '@Wavefront', n, 'omitted(default)', omitted((n,), 'Wavefront')))
        if len(can_omit_m) > 1:
            out.append(Variant(routine + '@Wavefront', '+'.join(can_omit_m), 'omitted(default)', omitted(tuple(can_omit_m), 'Wavefront')))
    return out


def canonical(routine, vals, fn=None):
    spec = SPECS[routine]
    v = {}
    for k, x in vals.items():
        if spec.roles.get(k) in ('field', 'mask') and isinstance(x, np.ndarray):
            v[k] = np.array(x, dtype=np.complex128, order='C', copy=True)
        else:
            v[k] = fresh(x)
    return np.array(call_function(routine, v, fn=fn), copy=True)


def output_bound(routine, vals):
    """A bound on the magnitude of every output sample from the canonical inputs alone (0.0: none known).  The error of a form
    that carries float32 numbers is a fraction of this bound, not of the result -- which may vanish (an output grid that
    samples the zeros of the pattern)."""
    import math
    try:
        if routine in ENGINES:
            a = np.abs(np.asarray(vals['ary']))
            Q = vals['Q'] if hasattr(vals['Q'], '__len__') else (vals['Q'], vals['Q'])
            return float(a.sum()) / math.sqrt(a.shape[0] * float(Q[0]) * a.shape[1] * float(Q[1]))
        if routine in ('focus', 'unfocus'):
            a = np.abs(np.asarray(vals['wavefunction']))
            Q = float(vals['Q'])
            return float(a.sum()) / math.sqrt(math.ceil(a.shape[0] * Q) * math.ceil(a.shape[1] * Q))
        if routine in ('focus_fixed_sampling', 'unfocus_fixed_sampling'):
            a = np.abs(np.asarray(vals['wavefunction']))
            q = [float(vals['wavelength']) * float(vals['prop_dist']) / (n * float(vals['input_dx']) * float(vals['output_dx'])) for n in a.shape]
            return float(a.sum()) / math.sqrt(a.shape[0] * q[0] * a.shape[1] * q[1])
        if routine == 'angular_spectrum':
            return float(np.sqrt(np.sum(np.abs(np.asarray(vals['field'])) ** 2)))
        if routine == 'angular_spectrum_transfer_function':
            return 1.0
        if routine == 'to_fpm_and_back':
            return float(np.sqrt(np.sum(np.abs(np.asarray(vals['wavefunction'])) ** 2))) * float(np.max(np.abs(np.asarray(vals['fpm']))))
    except Exception:
        pass
    return 0.0


def rel_diff(got, ref, floor=0.0):
    """max|got - ref| / max(max|ref|, floor)."""
    got, ref = np.asarray(got), np.asarray(ref)
    if got.shape != ref.shape:
        return float('inf')
    if not got.size:
        return 0.0
    if not np.isfinite(got).all():
        return float('inf')
    sc = max(float(np.max(np.abs(ref))), float(floor))
    d = float(np.max(np.abs(got - ref)))
    return d / sc if sc > 0 else (0.0 if d == 0 else float('inf'))


TOL_EXACT, TOL_SINGLE = 1e-12, 1e-3


def judge_forms(ctx, prefix, routine, vals, desc, single=False, field_kinds=None, monitor='form.equivalence', wavefront=True,
                wf_result=_data, fn=None, oracle=None, only=None, label=None, probe=None, with_call_forms=True, ref=None, scale_floor=None):
    """Class E for one call: canonical result, then every accepted form; `got == canonical` to 1e-12 (float32-carrying forms,
    single-precision data or configuration: 1e-3) of max(max|canonical|, bound on the output magnitude from the inputs).  oracle(variant, got, ref): the property's own
    judgement of a form's result.  Returns the canonical result (None when prysm raised: reported by the guard)."""
    name = label or routine
    box = [ref]
    if ref is None:
        with ctx.guard(f'{prefix}/{name}/form:canonical', desc, what=f'{name} in the canonical argument form'):
            box[0] = canonical(routine, vals, fn=fn)
    if box[0] is None:
        return None
    ref = box[0]
    floor = output_bound(routine, vals) if (fn is None and scale_floor is None) else float(scale_floor or 0.0)
    for v in variants(routine, vals, field_kinds, wavefront, wf_result, fn, with_call_forms):
        if only is not None and not only(v):
            continue
        vname = name + ('@Wavefront' if v.routine.endswith('@Wavefront') else '')
        if probe is not None:
            try:
                got = v.call()
                d = rel_diff(got, ref, floor)
                if d > (TOL_SINGLE if (single or v.lowp) else TOL_EXACT):
                    probe.setdefault('differs', {}).setdefault((v.routine, v.arg, v.label), d)
            except Exception as e:  # noqa
                probe.setdefault('raises', {}).setdefault((v.routine, v.arg, v.label), type(e).__name__ + ': ' + str(e)[:80])
            continue
        if (v.routine, v.arg, v.label) in REJECTED or (v.routine, v.arg, '*') in REJECTED:
            ctx.skip(f'form out of domain (the reference tree rejects it): {v.routine} {v.arg}={v.label}')
            continue
        key = f'{prefix}/{vname}/form:{v.arg}={v.klass}'
        d2 = dict(desc, form=f'{v.arg}={v.label}', form_of=vname)
        got = [None]
        with ctx.guard(key, d2, what=f'{vname} with {v.arg} as {v.label}'):
            got[0] = v.call()
        if got[0] is None:
            continue
        ctx.observe(monitor)
        tol = TOL_SINGLE if (single or v.lowp) else TOL_EXACT
        d = rel_diff(got[0], ref, floor)
        if not d <= tol:
            ctx.violation(key + '/result-differs-from-canonical-form',
                          f'{vname}: the result for {v.arg} given as {v.label} differs from the result for the same numbers in the canonical form '
                          '(complex128 data, python floats / tuples, keywords, explicit defaults)', d2, rel_diff=d, tol=tol)
        elif oracle is not None:
            oracle(v, got[0], ref, d2)
    return ref


# ------------------------------------------------------------------------------------------ class F: foreign traffic
def foreign_traffic(ctx, rng, lengths, dxs=(1.0,), note='foreign.traffic', heavy=True, prefix=None, desc=None):
    """Exercise the other public consumers of fftrange / forward_ft_unit / fftfreq / make_xy_grid / pad2d / crop_center and
    the shared executors on the axis lengths `lengths` and spacings `dxs` the caller is about to use, with hostile arguments,
    editing every returned array in place (it belongs to the caller).  Exceptions of foreign routines are counted, never
    judged here; monitors attached by the property module stay active (their routines are called in-domain)."""
    from prysm import fttools, coordinates, propagation as P
    from prysm.conf import config
    from .util import precision
    lengths = [int(n) for n in dict.fromkeys(lengths)]
    dxs = [float(d) for d in dict.fromkeys(dxs)]
    done = 0
    configured = config.precision

    def attempt(f):
        nonlocal done
        try:
            f()
            done += 1
        except Exception as e:  # noqa -- a foreign routine failing is some other property's business
            ctx.event(f'foreign-traffic-raised:{type(e).__name__}')

    def spoil(a):
        if isinstance(a, np.ndarray) and a.flags.writeable and a.size:
            if a.dtype.kind in 'fc':
                a += 0.37
                a *= -3.0
            elif a.dtype.kind in 'iu':
                a += 1
    import contextlib
    # the last pass runs under the ambient configuration WITHOUT the restoring context manager: a routine that leaves
    # config.precision changed is then still in effect when the caller's own routines are judged
    for bits in (64, 32, None):
        with (precision(bits) if bits is not None else contextlib.nullcontext()):
            if bits is None:
                bits = 32 if config.precision is np.float32 else 64
            for n in lengths:
                m = lengths[(lengths.index(n) + 1) % len(lengths)]
                for dt in (None, config.precision, np.float32, np.float64, np.complex128, np.int64):
                    attempt(lambda: spoil(fttools.fftrange(n, dtype=dt)))
                for dx in dxs:
                    attempt(lambda: [spoil(v) for v in coordinates.make_xy_grid(n, dx=dx)])
                    attempt(lambda: [spoil(v) for v in coordinates.make_xy_grid((n, n), dx=dx)])
                    attempt(lambda: [spoil(v) for v in coordinates.make_xy_grid((n, n), dx=dx, grid=False)])
                    attempt(lambda: [spoil(v) for v in coordinates.make_xy_grid((n, m), dx=dx, grid=False)])
                    attempt(lambda: [spoil(v) for v in coordinates.make_xy_grid((m, n), diameter=dx * n)])
                    attempt(lambda: spoil(fttools.forward_ft_unit(dx, n)))
                    attempt(lambda: spoil(fttools.forward_ft_unit(dx, n, shift=False)))
                    attempt(lambda: spoil(fttools.forward_ft_unit(dx, n, False)))
                    attempt(lambda: spoil(fttools.fftfreq(n, dx)))
                    attempt(lambda: spoil(fttools.fftfreq(n)))
                    # RichData axes (Wavefront.intensity / phase): the coordinate grids are built lazily from shape and dx
                    def rich(shape):
                        w = P.Wavefront(np.ones(shape, dtype=complex), 0.5, dx)
                        i = w.intensity
                        spoil(i.x)
                        spoil(i.y)
                        spoil(w.phase.x)
                    attempt(lambda: rich((n, m)))
                    attempt(lambda: rich((n, n)))
                    attempt(lambda: spoil(P.angular_spectrum_transfer_function((n, m), 0.5, dx, 3.0)))
                    attempt(lambda: spoil(P.angular_spectrum_transfer_function(n, 0.5, dx, -3.0)))
                a = np.arange(n * m, dtype=config.precision).reshape(n, m) + 1
                attempt(lambda: spoil(fttools.pad2d(a, Q=2)))
                attempt(lambda: spoil(fttools.pad2d(a, Q=1.5, value=1)))
                attempt(lambda: spoil(fttools.pad2d(a, out_shape=(n + 3, m + 2))))
                attempt(lambda: spoil(np.array(fttools.crop_center(fttools.pad2d(a, out_shape=(n + 3, m + 2)), (n, m)))))
                # shifted / precision-switched traffic on the shared executors at the same sizes (ndarray containers, backprops)
                c = (rng.standard_normal((n, m)) + 1j * rng.standard_normal((n, m))).astype(np.complex64 if bits == 32 else np.complex128)
                sh = np.array([1.5, -0.75])
                attempt(lambda: fttools.mdft.dft2(c, 1.5, (m, n), (1.5, -0.75)))
                attempt(lambda: fttools.mdft.idft2(c, (2.0, 1.25), (n, m), (-2.0, 0.25)))
                attempt(lambda: fttools.mdft.dft2_backprop(c, 1.5, (m, n), (0.5, 0.5)))
                attempt(lambda: fttools.mdft.idft2_backprop(c, 1.5, (m, n), (0.5, 0.5)))
                attempt(lambda: fttools.czt.czt2(c, np.array([1.5, 2.0]), [m, n], sh))
                attempt(lambda: fttools.czt.iczt2(c, 1.25, n, [0.5, 1.0]))
                attempt(lambda: P.focus_fixed_sampling(c, 0.1, 100.0, 0.5, 2.0, (m, n), shift=np.array([3.0, -1.5]), method='mdft'))
                attempt(lambda: P.unfocus_fixed_sampling(c, 2.0, 100.0, 0.5, 0.1, n, shift=np.array([0.15, 0.05]), method='czt'))
                attempt(lambda: P.to_fpm_and_back(c, 0.1, 100.0, 0.5, np.ones((m, m)), 2.0, shift=np.array([2.0, 2.0]), method='mdft'))
                attempt(lambda: P.Wavefront(c, 0.5, 0.1).focus(100.0, Q=3))
                attempt(lambda: P.angular_spectrum(c, 0.5, 0.1, 7.0, Q=3))
                if heavy:
                    attempt(lambda: spoil(fttools.fourier_resample(np.abs(c).astype(config.precision), 1.5)))
                    attempt(lambda: spoil(fttools.fourier_resample(np.abs(c).astype(config.precision), (2, 1.25))))
                    # data of the other precision, and the trivial zoom (early-return paths)
                    attempt(lambda: fttools.fourier_resample(np.abs(c).astype(np.float32 if bits == 64 else np.float64), 1))
                    attempt(lambda: spoil(fttools.fourier_resample(np.abs(c).astype(np.float32 if bits == 64 else np.float64), 2)))
    if heavy:
        from prysm import convolution, interferogram, psf
        n = max(lengths[0], 4)
        img = np.abs(rng.standard_normal((n, n)))
        with precision(64):
            for dx in dxs[:2]:
                attempt(lambda: spoil(convolution.apply_transfer_functions(img, dx, [lambda fx, fy: np.exp(-fx * fx - fy * fy)])))
                attempt(lambda: spoil(convolution.apply_transfer_functions(img, dx, [lambda fr: np.exp(-fr * fr)], shift=True)))
                attempt(lambda: [spoil(r) for r in interferogram.psd(img, dx)])
                attempt(lambda: [spoil(r) for r in interferogram.render_synthetic_surface(n * dx, n, rms=1.0, a=1.0, b=0.1, c=2.0)])
                attempt(lambda: psf.fwhm(img, dx))
    ctx.observe(note)
    ctx.event('foreign-traffic-calls', done)
    if config.precision is not configured:
        # a routine of another module left the process-wide configuration changed: every routine of the property would now run
        # in a precision the user did not configure.  Reported once under its own key, then repaired so that the judged calls
        # below are not a second report of the same defect.
        if prefix is not None:
            ctx.violation(f'{prefix}/foreign-history/config.precision-left-changed-by-another-routine',
                          'after calls of other public routines (fftrange / make_xy_grid / forward_ft_unit / pad2d / fourier_resample / PSD / convolution / '
                          'propagation traffic) prysm.conf.config.precision is no longer what the user configured: the routines of this property now '
                          'silently run in the other precision', desc, configured=str(configured), now=str(config.precision))
        config.precision = 32 if configured is np.float32 else 64
    return done


# ------------------------------------------------------------------------------------------ hardening pass 3: shared data (classes G / H / I)
# Nothing below is a reference model either: magnitudes, consistent changes of units, exactly-special argument values computed with
# the library's own expressions (so that floating-point equality is hit on purpose) and awkward sizes, shared by C01, C02, C03,
# C05 and the adapter workload of C20.

# class G: magnitudes a linear routine must carry through unchanged (f(s x) = s f(x)); powers of two are exact in floating point
SCALES = (1e-12, 1e-9, 2.0 ** -40, 1e-6, 1e-3, 1e3, 2.0 ** 30, 1e9, 1e12)


def scale_class(s):
    s = abs(float(s))
    return 'tiny' if s < 1 else ('huge' if s > 1 else 'unit')


# class G: consistent changes of units of a fixed-sampling call.  (alpha, beta, gamma, delta) multiply (input_dx, prop_dist,
# wavelength, output_dx [and the shift]); Q = lambda z / (n dx_in dx_out) is unchanged when beta * gamma == alpha * delta.
UNIT_SYSTEMS = (
    ('metres-everywhere', 1e-3, 1e-3, 1e-6, 1e-6),
    ('microns-everywhere', 1e3, 1e3, 1.0, 1.0),
    ('focal-plane-in-nm', 1.0, 1.0, 1e3, 1e3),
    ('pupil-in-metres', 1e-3, 1.0, 1.0, 1e3),
    ('pupil-x1024(exact)', 1024.0, 1.0, 1.0, 2.0 ** -10),
    ('efl-in-metres', 1.0, 1e-3, 1.0, 1e-3),
    ('pupil-in-nm', 1e6, 1.0, 1.0, 1e-6),
    ('pupil-in-Gm', 1e-12, 1.0, 1.0, 1e12),
    ('output-plane-x1e-12', 1e12, 1.0, 1.0, 1e-12),
    ('wavelength-and-efl', 1.0, 1e-9, 1e9, 1.0),
)
# free space: (alpha, gamma, zeta) multiply (dx, wvl, z); the transfer function depends on wvl z / dx^2 only
FREE_SPACE_UNITS = (
    ('dx-x1000', 1e3, 1.0, 1e6), ('dx-x2(exact)', 2.0, 1.0, 4.0), ('dx-in-metres', 1e-3, 1.0, 1e-6), ('wavelength-in-nm', 1.0, 1e3, 1e-3),
    ('wavelength-x2^20(exact)', 1.0, 2.0 ** 20, 2.0 ** -20), ('dx-in-nm', 1e6, 1.0, 1e12), ('dx-in-km', 1e-6, 1.0, 1e-12),
)


def lib_spacing(dx, n, wvl, efl):
    """The spacing of the other plane for an n-point FFT, with the library's own expression and operation order
    (prysm.propagation.pupil_sample_to_psf_sample / psf_sample_to_pupil_sample): floating-point equality with what the library
    computes is the point (class H: 'the requested grid is exactly the FFT grid')."""
    return (efl * wvl) / (dx * n)


def lib_Q(n, input_dx, prop_dist, wavelength, output_dx):
    """Q_for_sampling(n * input_dx, ...) with the library's operation order."""
    return ((wavelength * prop_dist) / (n * input_dx)) / output_dx


def exact_Q_geometry(rng, n, q, tries=40):
    """(wvl, efl, dx, odx) such that the library's own arithmetic gives Q == q EXACTLY for an axis of n samples and the output
    spacing the library reports for a (q n)-point FFT; None when no draw hits equality (q not a power of two: rounding may differ)."""
    for _ in range(tries):
        wvl = [0.5, 0.55, 0.6328, 1.0, 1.55, float(rng.uniform(0.3, 12.0))][int(rng.integers(6))]
        efl = [100.0, 50.0, 250.0, 1234.5, float(rng.uniform(10.0, 5000.0))][int(rng.integers(5))]
        dx = [0.1, 0.05, 1.0, 0.0123, float(rng.uniform(1e-3, 1.0))][int(rng.integers(5))]
        odx = lib_spacing(dx, n * q, wvl, efl)
        if lib_Q(n, dx, efl, wvl, odx) == q:
            return wvl, efl, dx, odx
    return None


# class H: shift patterns in output samples -- exactly one zero component (int 0 and float 0.0), both, none
SHIFT_PATTERNS = (
    ('x-only', (3, 0)), ('x-only', (-2.5, 0.0)), ('y-only', (0, -2)), ('y-only', (0.0, 1.75)), ('both', (1.0, -2.0)), ('both', (0.5, 0.5)),
    ('both', (-1.25, 2.0)), ('none', (0, 0)), ('none', (0.0, 0.0)),
)

# class I: band-complete pairs (n, M) on one axis with Q = M / n within 1e-3 of an integer but not an integer (needs n k >= 1000), prime
# and power-of-two lengths; FFT-unfriendly lengths
NEAR_INTEGER_PAIRS = ((640, 1281), (1024, 1025), (509, 1019), (521, 1041), (340, 1021), (512, 1025), (1000, 1001), (700, 1399))
AWKWARD_SIZES = (65, 67, 74, 101, 127, 129, 257)
LARGE_SIZES = (509, 521, 640, 1021, 1024)


def thin(n, k):
    """A cheap array shape that realises an axis of n samples: 1 x n, n x 1, 2 x n, n x 3 (k picks one)."""
    return [(1, n), (n, 1), (2, n), (n, 3)][k % 4]


# ------------------------------------------------------------------------------------------ probe (python -m vp.propforms)
def draw_values(routine, rng, kind='complex'):
    """One small in-domain canonical case of `routine` (numbers exactly representable in float32 where a float32 form exists)."""
    m, n = (int(v) for v in rng.integers(2, 8, 2))
    M, N = (int(v) for v in rng.integers(2, 9, 2))
    if rng.random() < 0.5:
        N = M
    seed = int(rng.integers(2**31 - 1))
    a = make_field(kind, (m, n), seed)
    QS = [(1.5, 2.25), (2.0, 1.0), (1.0, 1.0), (1.25, 1.25), (0.75, 3.0), (2.0, 2.0), (1.3, 2.2), (3.0, 3.0)]
    SH = [(0.0, 0.0), (1.0, -2.0), (0.5, -1.25), (0.0, 0.25), (-2.75, 0.0), (2.0, 2.0), (1.5, 1.5), (0.3, -0.7)]
    if routine in ENGINES:
        return {'ary': a, 'Q': QS[int(rng.integers(len(QS)))], 'samples_out': (M, N), 'shift': SH[int(rng.integers(len(SH)))]}
    if routine in ('focus', 'unfocus'):
        return {'wavefunction': a, 'Q': float([1, 2, 3, 1.5, 2.5, 1.25][int(rng.integers(6))])}
    wvl = [0.5, 0.625, 1.0, 2.0][int(rng.integers(4))]
    efl = [64.0, 100.0, 250.0][int(rng.integers(3))]
    if routine in ('focus_fixed_sampling', 'unfocus_fixed_sampling'):
        dxi = [0.125, 0.25, 1.0][int(rng.integers(3))]
        Qt = [1.0, 2.0, 1.5, 3.25, 0.75][int(rng.integers(5))]
        dxo = float(np.float32(wvl * efl / (m * dxi) / Qt))
        s = SH[int(rng.integers(len(SH)))]
        return {'wavefunction': a, 'input_dx': dxi, 'prop_dist': efl, 'wavelength': wvl, 'output_dx': dxo, 'output_samples': (M, N),
                'shift': (float(np.float32(s[0] * dxo)), float(np.float32(s[1] * dxo))), 'method': ('mdft', 'czt')[int(rng.integers(2))]}
    if routine == 'angular_spectrum':
        return {'field': a, 'wvl': wvl, 'dx': [0.125, 0.25, 1.0][int(rng.integers(3))], 'z': [3.0, -1.5, 0.25, 20.0][int(rng.integers(4))],
                'Q': [2, 1, 3, 1.5][int(rng.integers(4))], 'tf': None}
    if routine == 'angular_spectrum_transfer_function':
        return {'samples': (M, N), 'wvl': wvl, 'dx': [0.125, 0.25, 1.0][int(rng.integers(3))], 'z': [3.0, -1.5, 0.25, 20.0][int(rng.integers(4))]}
    if routine == 'to_fpm_and_back':
        dx = [0.125, 0.25, 1.0][int(rng.integers(3))]
        fdx = float(np.float32(wvl * efl / (m * dx) / [1.0, 2.0, 1.5][int(rng.integers(3))]))
        s = SH[int(rng.integers(len(SH)))]
        return {'wavefunction': a, 'dx': dx, 'efl': efl, 'wavelength': wvl, 'fpm': make_field(('real', 'binary', 'complex')[int(rng.integers(3))], (M, N), seed + 1),
                'fpm_dx': fdx, 'shift': (float(np.float32(s[0] * fdx)), float(np.float32(s[1] * fdx))), 'method': 'mdft', 'return_more': False}
    if routine == 'Q_for_sampling':
        return {'input_diameter': 12.5, 'prop_dist': efl, 'wavelength': wvl, 'output_dx': 2.5}
    if routine in ('pupil_sample_to_psf_sample', 'psf_sample_to_pupil_sample'):
        return {SPECS[routine].names[0]: 0.125, 'samples': int(rng.integers(1, 512)), 'wavelength': wvl, 'efl': efl}
    raise ValueError(routine)


def _probe():
    from .core import Ctx
    ctx = Ctx('PROBE', 'quick', 0)
    probe = {}
    for seed in (0, 1, 2):
        rng = np.random.default_rng(seed)
        for routine in SPECS:
            kinds = FIELD_KINDS if any(r == 'field' for r in SPECS[routine].roles.values()) else ('complex',)
            for kind in kinds:
                for rep in range(6):
                    vals = draw_values(routine, rng, kind)
                    fk = {k: kind for k, r in SPECS[routine].roles.items() if r == 'field'}
                    if routine == 'to_fpm_and_back':
                        fk['fpm'] = 'real' if not np.iscomplexobj(vals['fpm']) else 'complex'
                        if not np.iscomplexobj(vals['fpm']) and set(np.unique(vals['fpm'])) <= {0.0, 1.0}:
                            fk['fpm'] = 'binary'
                    judge_forms(ctx, 'PROBE', routine, vals, {'class': 'probe'}, field_kinds=fk, probe=probe)
    print('raises:')
    for k, v in sorted(probe.get('raises', {}).items()):
        print('   ', repr(k) + ':', repr(v) + ',')
    print('differs:')
    for k, v in sorted(probe.get('differs', {}).items()):
        print('   ', k, v)
    print('violations of the canonical form:', sorted(ctx.violations))


if __name__ == '__main__':
    _probe()
