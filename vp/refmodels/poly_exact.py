"""Exact-rational textbook definitions of the polynomial families, plus quadrature helpers.  No prysm import.

Every value routine below evaluates the family's closed-form *sum* (never a three-term recurrence) in
``fractions.Fraction`` at a rational point with rational parameters and returns a ``Fraction``; callers round
once with ``float()``.  A Python/NumPy float is a dyadic rational, so ``Q(x)`` is exact for any float input.

    jacobi      P_n^(a,b)(x) = sum_s C(n+a, n-s) C(n+b, s) ((x-1)/2)^s ((x+1)/2)^(n-s)        (Szego 4.3.2)
    legendre    P_n = P_n^(0,0)
    cheby1      T_n(x) = n/2 sum_k (-1)^k (n-k-1)!/(k!(n-2k)!) (2x)^(n-2k),  T_0 = 1
    cheby2      U_n(x) = sum_k (-1)^k C(n-k,k) (2x)^(n-2k)
    cheby3      V_n = U_n - U_(n-1) = cos((n+1/2)t)/cos(t/2)      (Mason-Handscomb numbering: weight sqrt((1+x)/(1-x)))
    cheby4      W_n = U_n + U_(n-1) = sin((n+1/2)t)/sin(t/2)      (weight sqrt((1-x)/(1+x)))
    hermite_He  He_n(x) = n! sum_m (-1)^m x^(n-2m) / (m!(n-2m)! 2^m)
    hermite_H   H_n(x)  = n! sum_m (-1)^m (2x)^(n-2m) / (m!(n-2m)!)
    laguerre    L_n^a(x) = sum_k (-1)^k C(n+a, n-k) x^k / k!
    dickson1    D_n(x,a) = sum_p n/(n-p) C(n-p,p) (-a)^p x^(n-2p),  D_0 = 2      (Waring)
    dickson2    E_n(x,a) = sum_p C(n-p,p) (-a)^p x^(n-2p)
    zernike_R   R_n^m(r) = sum_k (-1)^k (n-k)! / (k! ((n+m)/2-k)! ((n-m)/2-k)!) r^(n-2k)
    qcon        u^4 P_n^(0,4)(2u^2-1)
    qbfs_closed Forbes' published closed forms for n <= 5 (Opt. Express 15, 5218 (2007), eq. (2.7))
    q_radial    Q_n^m by exact Gram-Schmidt from the *definition*: {u^m q_n(u^2) cos(m t)} (m>0) or
                {u^2(1-u^2) q_n(u^2)} (m=0) have orthonormal gradients under
                <f> = (1/pi^2) int_0^2pi int_0^1 f / sqrt(1-u^2) du dt, q_n of exact degree n in u^2, q_n(0) > 0.
                All inner products are rational (moments (2/pi) int_0^1 u^2k/sqrt(1-u^2) du = C(2k,k)/4^k); the only
                irrational step is the final division by sqrt(norm^2), done once in float.

Quadrature helpers (float): Gauss-Jacobi / Hermite / Laguerre rules from scipy/numpy (independent of prysm), textbook
norms h_n, Gauss-Chebyshev half-range rule, Gauss-Legendre on the unit disk, spectral differentiation.
"""
import math
from fractions import Fraction
from functools import lru_cache

import numpy as np

Q = Fraction

__all__ = ['Q', 'GQ', 'to_number', 'jacobi', 'legendre', 'cheby1', 'cheby2', 'cheby3', 'cheby4', 'hermite_He', 'hermite_H', 'laguerre',
           'dickson1', 'dickson2', 'zernike_R', 'zernike_norm2', 'qcon', 'qbfs_closed', 'q_radial', 'q_value',
           'monomial_xy', 'hopkins_radial']


class GQ:
    """Gaussian rational a + i b with a, b Fractions: the exact value of a complex float.  Supports exactly the arithmetic the closed-form
    sums below use (+, -, *, / by a rational, integer powers), so every definition evaluates unchanged at a complex point: a polynomial
    with rational coefficients has one analytic continuation, and this is it, exactly."""
    __slots__ = ('re', 'im')

    def __init__(self, re, im=0):
        self.re, self.im = Fraction(re), Fraction(im)

    @staticmethod
    def _co(o):
        if isinstance(o, GQ):
            return o
        if isinstance(o, (int, Fraction)):
            return GQ(o, 0)
        return None

    def __add__(self, o):
        o = GQ._co(o)
        return NotImplemented if o is None else GQ(self.re + o.re, self.im + o.im)
    __radd__ = __add__

    def __sub__(self, o):
        o = GQ._co(o)
        return NotImplemented if o is None else GQ(self.re - o.re, self.im - o.im)

    def __rsub__(self, o):
        o = GQ._co(o)
        return NotImplemented if o is None else GQ(o.re - self.re, o.im - self.im)

    def __neg__(self):
        return GQ(-self.re, -self.im)

    def __mul__(self, o):
        o = GQ._co(o)
        return NotImplemented if o is None else GQ(self.re * o.re - self.im * o.im, self.re * o.im + self.im * o.re)
    __rmul__ = __mul__

    def __truediv__(self, o):
        if isinstance(o, (int, Fraction)):
            return GQ(self.re / o, self.im / o)
        return NotImplemented

    def __pow__(self, k):
        if not isinstance(k, int) or k < 0:
            return NotImplemented
        out, b = GQ(1), self
        while k:
            if k & 1:
                out = out * b
            b = b * b
            k >>= 1
        return out

    def __eq__(self, o):
        # a GQ never equals a Fraction / int, even with a zero imaginary part: the memo tables of this module (lru_cache, _POW) are keyed by
        # the evaluation point, and a rational key must not be served the complex-typed entry of the same value (or vice versa)
        return isinstance(o, GQ) and self.re == o.re and self.im == o.im

    def __hash__(self):
        return hash(('GQ', self.re, self.im))

    def same_value(self, o):
        o = GQ._co(o)
        return o is not None and self.re == o.re and self.im == o.im

    def __bool__(self):
        return bool(self.re) or bool(self.im)

    def __complex__(self):
        return complex(_to_float(self.re), _to_float(self.im))

    def __abs__(self):
        return abs(complex(self))

    @property
    def denominator(self):
        return max(self.re.denominator, self.im.denominator)

    def __repr__(self):
        return f'GQ({self.re}, {self.im})'


def _to_float(q):
    """float(q) for a Fraction, +-inf when the value is beyond the double range (float() raises OverflowError there)."""
    try:
        return float(q)
    except OverflowError:
        return math.inf if q > 0 else -math.inf


def to_number(q):
    """Round an exact value once: float for a Fraction (+-inf beyond the double range), complex for a Gaussian rational."""
    return complex(q) if isinstance(q, GQ) else _to_float(q)


def rat(x):
    """Exact value of an int / float / numpy scalar / Fraction / 'p/q' string (a Fraction) or of a complex number (a Gaussian rational GQ)."""
    if isinstance(x, (Fraction, GQ)):
        return x
    if isinstance(x, (int, str)):
        return Fraction(x)
    if isinstance(x, (np.integer,)):
        return Fraction(int(x))
    if isinstance(x, (complex, np.complexfloating)):
        return GQ(Fraction(float(x.real)), Fraction(float(x.imag)))
    return Fraction(float(x))      # exact: floats are dyadic rationals (float32 -> float is exact too); numpy bool_ -> 0 / 1


# ------------------------------------------------------------------------------------------ helpers
@lru_cache(maxsize=20000)
def _gbinom_row(z, n):
    """[C(z,0), ..., C(z,n)] for rational z (generalised binomial z(z-1)...(z-k+1)/k!)."""
    row = [Q(1)]
    for k in range(1, n + 1):
        row.append(row[-1] * (z - (k - 1)) / k)
    return row


_POW = {}


def _powers(x, n):
    """[x^0 .. x^n] (cached per point, grown on demand)."""
    p = _POW.get(x)
    if p is None:
        if len(_POW) > 4000:
            _POW.clear()
        p = _POW[x] = [Q(1)]
    while len(p) <= n:
        p.append(p[-1] * x)
    return p


# ------------------------------------------------------------------------------------------ Jacobi family
@lru_cache(maxsize=200000)
def jacobi(n, a, b, x):
    a, b, x = rat(a), rat(b), rat(x)
    A = _gbinom_row(n + a, n)
    B = _gbinom_row(n + b, n)
    up = _powers((x - 1) / 2, n)
    vp = _powers((x + 1) / 2, n)
    s = Q(0)
    for k in range(n + 1):
        s += A[n - k] * B[k] * up[k] * vp[n - k]
    return s


def jacobi_2f1(n, a, b, x):
    """Second textbook form (DLMF 18.5.7), used only to self-test `jacobi`."""
    a, b, x = rat(a), rat(b), rat(x)
    u = (x - 1) / 2
    s = Q(0)
    for l in range(n + 1):
        t = Q(1)
        for i in range(l):
            t *= (n + a + b + 1 + i)
        for i in range(n - l):
            t *= (a + l + 1 + i)
        s += t / (math.factorial(l) * math.factorial(n - l)) * u ** l
    return s


def legendre(n, x):
    return jacobi(n, Q(0), Q(0), rat(x))


@lru_cache(maxsize=200000)
def cheby1(n, x):
    x = rat(x)
    if n == 0:
        return Q(1)
    p = _powers(2 * x, n)
    s = Q(0)
    for k in range(n // 2 + 1):
        s += (-1) ** k * Q(math.factorial(n - k - 1), math.factorial(k) * math.factorial(n - 2 * k)) * p[n - 2 * k]
    return s * n / 2


@lru_cache(maxsize=200000)
def cheby2(n, x):
    x = rat(x)
    if n < 0:
        return Q(0)
    p = _powers(2 * x, n)
    s = Q(0)
    for k in range(n // 2 + 1):
        s += (-1) ** k * math.comb(n - k, k) * p[n - 2 * k]
    return s


def cheby3(n, x):
    return cheby2(n, rat(x)) - cheby2(n - 1, rat(x))


def cheby4(n, x):
    return cheby2(n, rat(x)) + cheby2(n - 1, rat(x))


# ------------------------------------------------------------------------------------------ Hermite / Laguerre / Dickson
@lru_cache(maxsize=200000)
def hermite_He(n, x):
    x = rat(x)
    p = _powers(x, n)
    s = Q(0)
    for m in range(n // 2 + 1):
        s += (-1) ** m * p[n - 2 * m] / (math.factorial(m) * math.factorial(n - 2 * m) * 2 ** m)
    return s * math.factorial(n)


@lru_cache(maxsize=200000)
def hermite_H(n, x):
    x = rat(x)
    p = _powers(2 * x, n)
    s = Q(0)
    for m in range(n // 2 + 1):
        s += (-1) ** m * p[n - 2 * m] / (math.factorial(m) * math.factorial(n - 2 * m))
    return s * math.factorial(n)


@lru_cache(maxsize=200000)
def laguerre(n, a, x):
    a, x = rat(a), rat(x)
    A = _gbinom_row(n + a, n)
    p = _powers(x, n)
    s = Q(0)
    for k in range(n + 1):
        s += (-1) ** k * A[n - k] * p[k] / math.factorial(k)
    return s


@lru_cache(maxsize=200000)
def dickson1(n, a, x):
    a, x = rat(a), rat(x)
    if n == 0:
        return Q(2)
    p = _powers(x, n)
    ap = _powers(-a, n // 2)
    s = Q(0)
    for k in range(n // 2 + 1):
        s += Q(n, n - k) * math.comb(n - k, k) * ap[k] * p[n - 2 * k]
    return s


@lru_cache(maxsize=200000)
def dickson2(n, a, x):
    a, x = rat(a), rat(x)
    p = _powers(x, n)
    ap = _powers(-a, n // 2)
    s = Q(0)
    for k in range(n // 2 + 1):
        s += math.comb(n - k, k) * ap[k] * p[n - 2 * k]
    return s


# ------------------------------------------------------------------------------------------ Zernike, XY, Hopkins
@lru_cache(maxsize=200000)
def zernike_R(n, m, r):
    """Radial Zernike polynomial R_n^|m|(r) (factorial sum); requires n >= |m|, n - |m| even."""
    m = abs(m)
    if m > n or (n - m) % 2:
        raise ValueError('need |m| <= n and n-|m| even')
    r = rat(r)
    p = _powers(r, n)
    s = Q(0)
    for k in range((n - m) // 2 + 1):
        s += (-1) ** k * Q(math.factorial(n - k),
                           math.factorial(k) * math.factorial((n + m) // 2 - k) * math.factorial((n - m) // 2 - k)) * p[n - 2 * k]
    return s


def zernike_norm2(n, m):
    """Square of the orthonormalisation constant: 2(n+1)/(1+delta_m0)."""
    return Q(2 * (n + 1), 2 if m == 0 else 1)


def monomial_xy(m, n, x, y):
    return rat(x) ** m * rat(y) ** n


def hopkins_radial(b, c, rho, H):
    """rho^b H^c; the full Hopkins term multiplies by cos(a t) (a >= 0) or sin(|a| t) (a < 0)."""
    return rat(rho) ** b * rat(H) ** c


# ------------------------------------------------------------------------------------------ Forbes Q polynomials
def qcon(n, u):
    u = rat(u)
    return u ** 4 * jacobi(n, Q(0), Q(4), 2 * u * u - 1)


# Q_n(x), x = u^2, as (rational polynomial coefficients ascending in x, rational c) with Q_n = sqrt(c) * poly
_QBFS_CLOSED = {
    0: ([1], Q(1)),
    1: ([13, -16], Q(1, 19)),
    2: ([29, -100, 76], Q(2, 95)),
    3: ([207, -1260, 2308, -1280], Q(2, 2545)),
    4: ([7737, -74448, 236192, -299008, 130304], Q(1, 9 * 131831)),
    5: ([66657, -906816, 4330400, -9186304, 8873216, -3182592], Q(1, 9 * 6632213)),
}


def _polyval(c, x):
    s = Q(0)
    for ck in reversed(c):
        s = s * x + ck
    return s


def qbfs_closed(n, u):
    """(rational part, rational c): Qbfs_n(u) = u^2 (1-u^2) Q_n(u^2) = rational part * sqrt(c), n <= 5."""
    u = rat(u)
    x = u * u
    c, k = _QBFS_CLOSED[n]
    return x * (1 - x) * _polyval([Q(v) for v in c], x), k


def _moment(k2):
    """(2/pi) int_0^1 u^(2k) / sqrt(1-u^2) du = C(2k,k) / 4^k, argument is the power 2k."""
    k = k2 // 2
    return Q(math.comb(2 * k, k), 4 ** k)


@lru_cache(maxsize=None)
def _q_b(m, i, j):
    """B[i][j] = <grad F_i . grad F_j> of the raw basis, rational.

    m = 0: F_i = u^2 (1-u^2) u^(2i);   m > 0: F_i = u^m u^(2i) cos(m t)."""
    if i > j:
        return _q_b(m, j, i)
    if m == 0:
        # F_i = u^(2i+2) - u^(2i+4);  F_i' = (2i+2) u^(2i+1) - (2i+4) u^(2i+3);  <.> = (2/pi) int_0^1 F_i' F_j' / sqrt(1-u^2) du
        s = Q(0)
        for (p, c) in ((2 * i + 1, 2 * i + 2), (2 * i + 3, -(2 * i + 4))):
            for (q, d) in ((2 * j + 1, 2 * j + 2), (2 * j + 3, -(2 * j + 4))):
                s += c * d * _moment(p + q)
        return s
    # <.> = (1/pi) int_0^1 [F_i' F_j' + m^2 F_i F_j / u^2] / sqrt(1-u^2) du = 1/2 * (2/pi) int_0^1 ...
    return Q(1, 2) * ((m + 2 * i) * (m + 2 * j) + m * m) * _moment(2 * m - 2 + 2 * (i + j))


_QBASIS = {}


def _q_basis(m, N):
    """Exact Gram-Schmidt (incremental in n): list of (coeffs ascending in x=u^2, norm^2) for n = 0..N, with the
    sign fixed by q_n(0) > 0."""
    out = _QBASIS.setdefault(m, [])
    for n in range(len(out), N + 1):
        v = [Q(0)] * (n + 1)
        v[n] = Q(1)
        row = [_q_b(m, n, j) for j in range(n + 1)]
        for (w, nw) in out:
            pr = sum((w[j] * row[j] for j in range(len(w)) if w[j]), Q(0)) / nw     # <x^n, w> / <w, w>
            if pr:
                for j in range(len(w)):
                    if w[j]:
                        v[j] -= pr * w[j]
        nv = sum((v[j] * row[j] for j in range(n + 1) if v[j]), Q(0))              # <v, v> = <x^n, v> as v is orthogonal to lower degrees
        if v[0] < 0:
            v = [-c for c in v]
        out.append((v, nv))
    return out


def q_radial(n, m, u):
    """(rational part, rational norm^2): the radial factor of Q_n^m at u is rational part / sqrt(norm^2).

    m = 0: full Qbfs_n(u) = u^2(1-u^2) q_n(u^2);  m != 0: u^|m| q_n^|m|(u^2) (multiply by cos(m t) / sin(|m| t))."""
    m = abs(m)
    u = rat(u)
    v, nv = _q_basis(m, n)[n]
    x = u * u
    val = _polyval(v, x)
    pre = x * (1 - x) if m == 0 else u ** m
    return pre * val, nv


def q_value(n, m, u, t=0.0):
    """Float value of Q_n^m(u, t) from the exact definition."""
    rp, nv = q_radial(n, m, u)
    val = float(rp) / math.sqrt(nv)
    if m > 0:
        val *= math.cos(m * float(t))
    elif m < 0:
        val *= math.sin(-m * float(t))
    return val


# ------------------------------------------------------------------------------------------ norms (float)
def jacobi_h(n, a, b):
    """int_-1^1 (1-x)^a (1+x)^b P_n^(a,b)(x)^2 dx  (DLMF 18.3.1)."""
    a, b = float(a), float(b)
    if n == 0:
        return 2.0 ** (a + b + 1) * math.exp(math.lgamma(a + 1) + math.lgamma(b + 1) - math.lgamma(a + b + 2))
    lg = math.lgamma(n + a + 1) + math.lgamma(n + b + 1) - math.lgamma(n + a + b + 1) - math.lgamma(n + 1)
    return 2.0 ** (a + b + 1) / (2 * n + a + b + 1) * math.exp(lg)


def cheby_h(kind, n):
    """Textbook norms of T, U, V, W under their own weights."""
    if kind == 1:
        return math.pi if n == 0 else math.pi / 2
    if kind == 2:
        return math.pi / 2
    return math.pi


def log_hermite_h(kind, n):
    """log of int He_n^2 exp(-x^2/2) = sqrt(2 pi) n!  ('He')  /  int H_n^2 exp(-x^2) = sqrt(pi) 2^n n!  ('H')."""
    if kind == 'He':
        return 0.5 * math.log(2 * math.pi) + math.lgamma(n + 1)
    return 0.5 * math.log(math.pi) + n * math.log(2.0) + math.lgamma(n + 1)


def log_laguerre_h(n, a):
    """log of int_0^inf x^a exp(-x) L_n^a(x)^2 dx = Gamma(n+a+1)/n!."""
    return math.lgamma(n + float(a) + 1) - math.lgamma(n + 1)


# ------------------------------------------------------------------------------------------ quadrature rules (float)
def gauss_jacobi(N, a, b):
    from scipy.special import roots_jacobi
    x, w = roots_jacobi(N, float(a), float(b))
    return x, w


def gauss_hermite(kind, N):
    if kind == 'He':
        return np.polynomial.hermite_e.hermegauss(N)
    return np.polynomial.hermite.hermgauss(N)


def gauss_laguerre(N, a):
    from scipy.special import roots_genlaguerre
    return roots_genlaguerre(N, float(a))


def disk_rule(nr, nt):
    """Nodes (r, t) and weights W with sum W f = (1/pi) int_0^2pi int_0^1 f r dr dt; exact for polynomials of degree
    <= 2 nr - 2 in r (after the factor r) and trigonometric degree < nt."""
    xg, wg = np.polynomial.legendre.leggauss(nr)
    r = (xg + 1) / 2
    wr = wg / 2 * r
    t = np.arange(nt) * (2 * np.pi / nt)
    R, T = np.meshgrid(r, t)
    W = np.outer(np.full(nt, 2 * np.pi / nt), wr) / np.pi
    return R, T, W


def half_chebyshev_rule(N):
    """Nodes u in (0,1) and weights w with sum w f(u) = int_0^1 f(u)/sqrt(1-u^2) du for even polynomials f of
    degree <= 2N-1 (N even: Gauss-Chebyshev on (-1,1), positive half)."""
    if N % 2:
        N += 1
    k = np.arange(1, N + 1)
    uc = np.cos((2 * k - 1) * np.pi / (2 * N))
    u = uc[uc > 0]
    return u, np.full(u.shape, np.pi / N)


def cheb_derivative(f, deg, where):
    """d/du of a polynomial f of degree <= deg (callable on arrays, along the last axis of `where`-independent
    samples): interpolate at deg+1 Chebyshev points of [-1,1], differentiate the series, evaluate at `where` (1-D).

    f(nodes) may return shape (deg+1,) or (deg+1, K); the result has shape (len(where),) or (len(where), K)."""
    from numpy.polynomial import chebyshev as C
    xs = C.chebpts1(deg + 1)
    ys = np.asarray(f(xs))
    co = C.chebfit(xs, ys, deg)
    return C.chebval(where, C.chebder(co), tensor=True).T if ys.ndim == 2 else C.chebval(where, C.chebder(co))


# ------------------------------------------------------------------------------------------ self test
def selftest():
    """Internal consistency of the definitions (two textbook forms / trig forms / closed forms agree)."""
    pts = [Q(-1), Q(-7, 10), Q(0), Q(1, 3), Q(9, 10), Q(1)]
    for n in range(0, 9):
        for (a, b) in [(Q(-1, 2), Q(1, 2)), (Q(3, 10), Q(6, 5)), (Q(0), Q(4)), (Q(-1, 2), Q(-1, 2)), (Q(-3, 10), Q(-7, 10))]:
            for x in pts:
                assert jacobi(n, a, b, x) == jacobi_2f1(n, a, b, x), (n, a, b, x)
    for n in range(0, 12):
        for x in [Q(-7, 10), Q(1, 3), Q(9, 10)]:
            t = math.acos(float(x))
            assert abs(float(cheby1(n, x)) - math.cos(n * t)) < 1e-12
            assert abs(float(cheby2(n, x)) - math.sin((n + 1) * t) / math.sin(t)) < 1e-11
            assert abs(float(cheby3(n, x)) - math.cos((n + .5) * t) / math.cos(t / 2)) < 1e-11
            assert abs(float(cheby4(n, x)) - math.sin((n + .5) * t) / math.sin(t / 2)) < 1e-11
            # Jacobi relations: T_n = P^(-1/2,-1/2)/P(1), V_n = P^(-1/2,1/2)/P(1), W_n = (2n+1) P^(1/2,-1/2)/P(1)
            h = Q(1, 2)
            assert cheby1(n, x) == jacobi(n, -h, -h, x) / jacobi(n, -h, -h, Q(1))
            assert cheby2(n, x) == (n + 1) * jacobi(n, h, h, x) / jacobi(n, h, h, Q(1))
            assert cheby3(n, x) == jacobi(n, -h, h, x) / jacobi(n, -h, h, Q(1))
            assert cheby4(n, x) == (2 * n + 1) * jacobi(n, h, -h, x) / jacobi(n, h, -h, Q(1))
    # Gram-Schmidt reproduces Forbes' closed forms exactly (value^2 is rational)
    for n in range(6):
        for u in [Q(0), Q(1, 4), Q(3, 5), Q(9, 10), Q(1)]:
            rp, c = qbfs_closed(n, u)
            gp, nv = q_radial(n, 0, u)
            assert rp * rp * c == gp * gp / nv, (n, u)
            assert (rp >= 0) == (gp >= 0)
    # recurrences (independent identities) for Hermite / Laguerre / Dickson
    for n in range(1, 10):
        for x in [Q(-3, 2), Q(1, 3), Q(5, 2)]:
            assert hermite_He(n + 1, x) == x * hermite_He(n, x) - n * hermite_He(n - 1, x)
            assert hermite_H(n + 1, x) == 2 * x * hermite_H(n, x) - 2 * n * hermite_H(n - 1, x)
            a = Q(1, 2)
            assert (n + 1) * laguerre(n + 1, a, x) == (2 * n + 1 + a - x) * laguerre(n, a, x) - (n + a) * laguerre(n - 1, a, x)
            al = Q(7, 10)
            assert dickson1(n + 1, al, x) == x * dickson1(n, al, x) - al * dickson1(n - 1, al, x)
            assert dickson2(n + 1, al, x) == x * dickson2(n, al, x) - al * dickson2(n - 1, al, x)
    # Gaussian-rational points: the definitions evaluate to the polynomial's analytic continuation (checked against the recurrences, which hold
    # identically in x, and against conjugation symmetry of real-coefficient polynomials)
    for z in [GQ(Q(1, 4), Q(1, 2)), GQ(Q(-3, 8), Q(-1, 8)), GQ(Q(3, 4), 0)]:
        zc = GQ(z.re, -z.im)
        for n in range(1, 9):
            a = Q(1, 2)
            def same(p, q):
                return GQ._co(p).same_value(q)
            assert same((n + 1) * laguerre(n + 1, a, z), (2 * n + 1 + a - z) * laguerre(n, a, z) - (n + a) * laguerre(n - 1, a, z))
            assert same(hermite_He(n + 1, z), z * hermite_He(n, z) - n * hermite_He(n - 1, z))
            assert same(hermite_H(n + 1, z), 2 * z * hermite_H(n, z) - 2 * n * hermite_H(n - 1, z))
            assert same(cheby1(n + 1, z), 2 * z * cheby1(n, z) - cheby1(n - 1, z))
            assert same(cheby2(n + 1, z), 2 * z * cheby2(n, z) - cheby2(n - 1, z))
            assert same(dickson1(n + 1, Q(7, 10), z), z * dickson1(n, Q(7, 10), z) - Q(7, 10) * dickson1(n - 1, Q(7, 10), z))
            assert same(jacobi(n, Q(3, 10), Q(6, 5), z), jacobi_2f1(n, Q(3, 10), Q(6, 5), z))
            pz, pc = jacobi(n, Q(-1, 4), Q(-3, 4), z), jacobi(n, Q(-1, 4), Q(-3, 4), zc)
            assert GQ._co(pz).re == GQ._co(pc).re and GQ._co(pz).im == -GQ._co(pc).im
            assert same(qcon(n, z), z ** 4 * jacobi(n, Q(0), Q(4), 2 * z * z - 1))
        if not z.im:
            for n in range(0, 6):
                assert GQ._co(jacobi(n, Q(1, 2), Q(-1, 2), z)).same_value(jacobi(n, Q(1, 2), Q(-1, 2), z.re)) and GQ._co(cheby3(n, z)).same_value(cheby3(n, z.re))
                assert isinstance(jacobi(n, Q(1, 2), Q(-1, 2), z.re), Fraction) and isinstance(cheby3(n, z.re), Fraction)      # rational keys are never served complex entries
    # Zernike radial = Jacobi form
    for n in range(0, 9):
        for m in range(n % 2, n + 1, 2):
            for r in [Q(0), Q(1, 3), Q(4, 5), Q(1)]:
                assert zernike_R(n, m, r) == r ** m * jacobi((n - m) // 2, Q(0), Q(m), 2 * r * r - 1)
    return True


if __name__ == '__main__':
    print('selftest', selftest())
