"""Textbook models of FFT-based image formation (no prysm import, no FFT: explicit sums / DFT matrices).

Convention (C04): the origin of an axis of length n is sample n//2.
"""
import numpy as np


def circular_convolution(a, h):
    """out[i] = sum_j a[j] h[(i - j + c) mod n], c = n//2 per axis (origin-centred circular convolution), explicit sum."""
    a = np.asarray(a)
    h = np.asarray(h)
    n0, n1 = a.shape
    c0, c1 = n0 // 2, n1 // 2
    a = a.astype(np.float64)
    h = h.astype(np.float64)
    out = np.zeros((n0, n1), dtype=np.float64)
    for j0 in range(n0):
        for j1 in range(n1):
            v = a[j0, j1]
            if v != 0:
                out += v * np.roll(h, (j0 - c0, j1 - c1), axis=(0, 1))
    return out


def dft_matrix(n, centred):
    """F[k, j] = exp(-2 pi i (k-c)(j-c)/n) with c = n//2 when centred (origin at n//2 in both domains) else c = 0."""
    c = n // 2 if centred else 0
    k = np.arange(n) - c
    return np.exp(-2j * np.pi * np.outer(k, k) / n)


def dft2(a, centred):
    n0, n1 = a.shape
    return dft_matrix(n0, centred) @ a @ dft_matrix(n1, centred).T


def idft2(A, centred):
    n0, n1 = A.shape
    return (np.conj(dft_matrix(n0, centred)) @ A @ np.conj(dft_matrix(n1, centred)).T) / (n0 * n1)


def frequency_axis(n, dx, centred):
    """Frequencies of the DFT bins: (k - n//2)/(n dx) when centred, else bin k <-> k/(n dx) for k < ceil(n/2) and
    (k-n)/(n dx) above (zero frequency at index 0)."""
    k = np.arange(n) - n // 2
    f = k / (n * float(dx))
    if not centred:
        f = np.roll(f, -(n // 2))
    return f


def filter_image(obj, tf, centred):
    """IDFT(DFT(obj) * tf) with both transforms in the stated convention; complex result."""
    return idft2(dft2(obj, centred) * tf, centred)
