"""Independent thin-film reference: textbook Fresnel coefficients and the Airy / Rouard interface recursion.

No prysm import.  The multilayer result is obtained *without* characteristic (Abeles) matrices: the stack is
folded from the exit side, one interface at a time, with the two-beam (Airy) summation

    r_{j..} = (r_j + r_{j+1..} e^{2 i b_j}) / (1 + r_j r_{j+1..} e^{2 i b_j})
    t_{j..} =  t_j t_{j+1..} e^{i b_j}      / (1 + r_j r_{j+1..} e^{2 i b_j}),     b_j = 2 pi n_j d_j cos(theta_j) / lambda

so it shares neither code nor formulation with prysm.thinfilm.

Conventions (time dependence e^{-i w t}; an absorbing medium has n = n' + i k, k >= 0):

* s:  r = (n_a c_a - n_b c_b) / (n_a c_a + n_b c_b),   t = 2 n_a c_a / (n_a c_a + n_b c_b)
* p:  r = (n_a c_b - n_b c_a) / (n_a c_b + n_b c_a),   t = 2 n_a c_a / (n_a c_b + n_b c_a)
  (the sign convention of Peatross & Ware, "Physics of Light and Optics" (BYU), eq. 3.20-3.23, the book
  prysm.thinfilm cites: r_p = -0.2 for 1.0 -> 1.5 at normal incidence)
* `cos_in(n0, th0, n)` = sqrt(1 - (n0 sin th0 / n)^2), principal branch (Im >= 0 for absorbing n).
* a stack is `[(n_1, d_1), ..., (n_L, d_L)]`; the **last entry is the exit medium** (its thickness only adds the
  propagation phase e^{i b_L} to t and nothing to r), the incident medium is `n0`.
* power transmittance into a lossless exit medium:  T = Re(n_L c_L) / (n0 c_0) |t|^2  for both polarisations.
"""
import cmath
import math

__all__ = ['cos_in', 'interface', 'stack_rt', 'RT', 'brewster', 'critical']


def cos_in(n0, th0, n):
    s = n0 * math.sin(th0) / n
    c = cmath.sqrt(1 - s * s)
    if c.imag < 0:
        c = -c
    return c


def interface(pol, na, ca, nb, cb):
    """(r, t) of the single interface a -> b; ca, cb are the cosines of the propagation angles."""
    if pol == 's':
        den = na * ca + nb * cb
        return (na * ca - nb * cb) / den, 2 * na * ca / den
    if pol == 'p':
        den = na * cb + nb * ca
        return (na * cb - nb * ca) / den, 2 * na * ca / den
    raise ValueError(pol)


def stack_rt(stack, wavelength, pol, th0, n0=1.0, include_exit_phase=True):
    """(r, t) of the stack; th0 in radians."""
    ns = [complex(n0)] + [complex(n) for n, _ in stack]
    ds = [0.0] + [float(d.real) if isinstance(d, complex) else float(d) for _, d in stack]
    cs = [cos_in(n0, th0, n) for n in ns]
    L = len(stack)
    # last interface: (L-1) -> L
    r, t = interface(pol, ns[L - 1], cs[L - 1], ns[L], cs[L])
    if include_exit_phase:
        t = t * cmath.exp(1j * 2 * math.pi * ns[L] * ds[L] * cs[L] / wavelength)
    for j in range(L - 1, 0, -1):          # fold layer j (between interface j-1|j and everything behind it)
        rj, tj = interface(pol, ns[j - 1], cs[j - 1], ns[j], cs[j])
        b = 2 * math.pi * ns[j] * ds[j] * cs[j] / wavelength
        e1 = cmath.exp(1j * b)
        e2 = e1 * e1
        den = 1 + rj * r * e2
        r, t = (rj + r * e2) / den, tj * t * e1 / den
    return r, t


def RT(r, t, n0, th0, n_exit):
    """Power reflectance and transmittance (lossless incident and exit media)."""
    c0 = math.cos(th0)
    ce = cos_in(n0, th0, n_exit)
    return abs(r) ** 2, (complex(n_exit) * ce).real / (n0 * c0) * abs(t) ** 2


def brewster(n0, n1):
    return math.atan(n1 / n0)


def critical(n0, n1):
    """Angle of incidence (radians, in the medium n0) above which light going n0 -> n1 is totally reflected;
    None when n1 >= n0."""
    if n1 >= n0:
        return None
    return math.asin(n1 / n0)
