"""Analytic point-in-shape membership, boundary bands, areas and perimeters.  No prysm import.

Every membership function returns `(inside, band)`:
    inside : bool array, the closed analytic shape evaluated at the sample positions
    band   : bool array, samples whose distance to the analytic boundary is <= eps (where `<=` vs `<`, floating point
             rounding of a rotated coordinate, or a joggled triangulation may legitimately decide either way)
A raster mask "respects the geometry" when it equals `inside` on every sample that is not in `band`.

Angle conventions are explicit arguments (`sense`), because the property statement does not fix a rotation sense:
    polygon   : first vertex at `sense*rotation` degrees measured from +y towards +x (clockwise for sense=+1)
    rectangle : the shape is turned by `sense*angle` degrees counter-clockwise
    ellipse   : major axis at `sense*angle` degrees counter-clockwise from +x
    spider    : vane k along the direction `sense*rotation - 360*k/vanes` ... see `spider`
"""
import math

import numpy as np


# ------------------------------------------------------------------------------------------------ membership
def circle(x, y, radius, center=(0.0, 0.0), eps=0.0):
    g = np.hypot(x - center[0], y - center[1]) - radius
    return g <= 0, np.abs(g) <= eps


def circle_r(r, radius, eps=0.0):
    g = r - radius
    return g <= 0, np.abs(g) <= eps


def annulus_r(r, rin, rout, eps=0.0):
    inside = (r >= rin) & (r <= rout)
    band = (np.abs(r - rin) <= eps) | (np.abs(r - rout) <= eps)
    return inside, band


def regular_polygon(x, y, sides, radius, center=(0.0, 0.0), rotation=0.0, sense=+1, eps=0.0):
    """Regular polygon with circumradius `radius`; one vertex at angle sense*rotation [deg] from +y towards +x."""
    xx = x - center[0]
    yy = y - center[1]
    rho = np.hypot(xx, yy)
    psi = np.arctan2(xx, yy) - sense * math.radians(rotation)       # angle from +y towards +x, vertex frame
    sector = 2 * math.pi / sides
    a = np.mod(psi, sector) - sector / 2                              # angle from the nearest edge normal
    g = rho * np.cos(a) - radius * math.cos(math.pi / sides)         # signed distance to the nearest edge line
    # the angle `a` jumps at a vertex direction; both branches give the same g there (edge lines meet), so g is
    # continuous and |g| is (a lower bound of) the distance to the boundary outside / the distance inside
    return g <= 0, np.abs(g) <= eps


def rectangle(x, y, half_width, half_height, angle=0.0, sense=+1, eps=0.0):
    """Rectangle |x'|<=half_width, |y'|<=half_height, turned by sense*angle [deg] counter-clockwise about the origin."""
    th = sense * math.radians(angle)
    c, s = math.cos(th), math.sin(th)
    xp = x * c + y * s        # coordinates in the frame of the turned rectangle
    yp = -x * s + y * c
    g = np.maximum(np.abs(xp) - half_width, np.abs(yp) - half_height)
    return g <= 0, np.abs(g) <= eps


def ellipse(x, y, a, b, angle=0.0, sense=+1, eps=0.0):
    """Ellipse with semi-axes a (major) >= b (minor), major axis at sense*angle [deg] counter-clockwise from +x."""
    th = sense * math.radians(angle)
    c, s = math.cos(th), math.sin(th)
    xp = x * c + y * s
    yp = -x * s + y * c
    q = np.sqrt((xp / a) ** 2 + (yp / b) ** 2)
    # a point with q = 1+t lies between t*b*(b/a) and t*a from the curve; use the conservative (wide) band
    band = np.abs(q - 1) * b * (b / a) <= eps
    return q <= 1, band


def spider(x, y, vanes, width, rotation_rad=0.0, center=(0.0, 0.0), sense=+1, eps=0.0):
    """Union of `vanes` half-strips of full width `width` leaving `center`.

    Vane k runs along the direction  sense*rotation_rad - 2*pi*k/vanes  (counter-clockwise from +x); because the set
    {2*pi*k/vanes} is symmetric, only the sign of `rotation` distinguishes the two senses.
    Returns (in_vane, band); a spider *mask* is the complement of in_vane.
    """
    xx = x - center[0]
    yy = y - center[1]
    hw = width / 2
    inv = np.zeros(np.broadcast(xx, yy).shape, dtype=bool)
    band = np.zeros(inv.shape, dtype=bool)
    for k in range(vanes):
        phi = sense * rotation_rad - 2 * math.pi * k / vanes
        c, s = math.cos(phi), math.sin(phi)
        along = xx * c + yy * s
        perp = -xx * s + yy * c
        inv |= (along > 0) & (np.abs(perp) < hw)
        band |= ((np.abs(np.abs(perp) - hw) <= eps) & (along >= -eps)) | ((np.abs(along) <= eps) & (np.abs(perp) <= hw + eps))
    return inv, band


# ------------------------------------------------------------------------------------------------ areas / perimeters
def circle_area(radius):
    return math.pi * radius ** 2


def circle_perimeter(radius):
    return 2 * math.pi * radius


def annulus_area(rin, rout):
    return math.pi * (rout ** 2 - rin ** 2)


def polygon_area(sides, radius):
    return 0.5 * sides * radius ** 2 * math.sin(2 * math.pi / sides)


def polygon_perimeter(sides, radius):
    return 2 * sides * radius * math.sin(math.pi / sides)


def hexagon_area_flat_to_flat(d):
    return math.sqrt(3) / 2 * d ** 2


def hexagon_perimeter_flat_to_flat(d):
    return 6 * d / math.sqrt(3)


def rectangle_area(half_width, half_height):
    return 4 * half_width * half_height


def rectangle_perimeter(half_width, half_height):
    return 4 * (half_width + half_height)


def ellipse_area(a, b):
    return math.pi * a * b


def ellipse_perimeter(a, b):
    h = ((a - b) / (a + b)) ** 2
    return math.pi * (a + b) * (1 + 3 * h / (10 + math.sqrt(4 - 3 * h)))      # Ramanujan II, rel. error < 1e-4 for a/b<10


def _half_strip_in_disc(R, h):
    """Area of {0 < y < h, x > 0, x^2+y^2 <= R^2} (h <= R)."""
    h = min(h, R)
    return 0.5 * (h * math.sqrt(max(R * R - h * h, 0.0)) + R * R * math.asin(h / R))


def keystone_area(r_in, r_out, n_segments, azimuthal_gap=0.0):
    """Annular sector of opening 2*pi/n between r_in and r_out, minus a half-strip of width gap/2 along each radial side."""
    sector = 0.5 * (r_out ** 2 - r_in ** 2) * (2 * math.pi / n_segments)
    h = azimuthal_gap / 2
    strip = (_half_strip_in_disc(r_out, h) - _half_strip_in_disc(r_in, h)) if h > 0 else 0.0
    return sector - 2 * strip


def keystone_perimeter(r_in, r_out, n_segments):
    return 2 * (r_out - r_in) + (r_out + r_in) * (2 * math.pi / n_segments)


# ------------------------------------------------------------------------------------------------ hexagonal lattice
def hex_lattice_basis(pitch, flat_top):
    """Two basis vectors of the lattice of segment centres with nearest-neighbour distance `pitch`.

    flat_top=True : hexagons with vertices on the x axis (flats up/down): neighbours at 30+60k degrees
    flat_top=False: hexagons with vertices on the y axis (flats left/right): neighbours at 60k degrees
    """
    if flat_top:
        e1 = (pitch * math.cos(math.pi / 6), pitch * math.sin(math.pi / 6))
        e2 = (0.0, pitch)
    else:
        e1 = (pitch, 0.0)
        e2 = (pitch * 0.5, pitch * math.sqrt(3) / 2)
    return e1, e2


def hex_lattice_coords(cx, cy, pitch, flat_top):
    """Solve c = a*e1 + b*e2 for real (a, b)."""
    (a1, a2), (b1, b2) = hex_lattice_basis(pitch, flat_top)
    det = a1 * b2 - a2 * b1
    a = (cx * b2 - cy * b1) / det
    b = (a1 * cy - a2 * cx) / det
    return a, b


def hex_norm(a, b):
    """Ring index of lattice point a*e1+b*e2 for e1,e2 at 60 degrees: max(|a|,|b|,|a+b|)."""
    return max(abs(a), abs(b), abs(a + b))


def hex_count(rings):
    return 1 + 3 * rings * (rings + 1)


def hex_ring_of_id(k):
    """Ring that segment number k belongs to (0 = centre, ring i holds ids 3i(i-1)+1 .. 3i(i+1))."""
    i = 0
    while 3 * i * (i + 1) < k:
        i += 1
    return i
