"""Physical-units Fraunhofer (focal-plane) diffraction sums, written from the definition.  No prysm import.

Units as in the library's documentation: pupil coordinates and focal length in millimetres, focal-plane
coordinates and wavelength in microns.  mm * um / (um * mm) is dimensionless, so no conversion factor appears
anywhere -- and neither does any padding factor "Q", array-size ratio or DFT bookkeeping: the model only knows
*where* each sample physically is.

    pupil sample (p, q) of an (Na, Ma) array with spacing dx sits at  y_p = (p - Na//2) dx,  x_q = (q - Ma//2) dx
    (origin convention: sample n//2 is the origin, C04)

    focus:    E(X, Y) = sum_{p,q} a[p,q] exp(-2 pi i (x_q X + y_p Y) / (lambda f))
    unfocus:  b(x, y) = sum_{k,l} F[k,l] exp(+2 pi i (x X_l + y Y_k) / (lambda f))

Both are evaluated on arbitrary separable sets of query points (vectors X, Y or x, y), un-normalised; callers
compare scale-free.  Phases are reduced modulo one turn in long double before the multiplication by 2 pi.
"""
import numpy as np

__all__ = ['axis_coords', 'focal_field', 'pupil_field', 'psf_spacing', 'pupil_spacing', 'q_for_sampling',
           'tilt_displacement', 'fit_scale', 'scale_free_error']


def axis_coords(n, dx):
    """Physical positions of the samples of an axis of length n and spacing dx (origin at index n//2)."""
    return (np.arange(int(n)) - int(n) // 2) * np.longdouble(dx)


def _kernel(out_pos, in_pos, lam_f, sign):
    o = np.asarray(out_pos, dtype=np.longdouble)
    i = np.asarray(in_pos, dtype=np.longdouble)
    turns = np.outer(o, i) / np.longdouble(lam_f)
    turns = turns - np.rint(turns)
    ph = (2 * np.pi) * turns.astype(np.float64)
    return np.cos(ph) + (1j * sign) * np.sin(ph)


def focal_field(a, dx, wavelength, efl, X, Y):
    """Focal-plane field of pupil samples ``a`` (spacing dx mm) at the points (X[l], Y[k]) (microns).

    Returns an array of shape (len(Y), len(X)) -- rows are y, columns are x, like the input."""
    a = np.asarray(a)
    Na, Ma = a.shape
    y = axis_coords(Na, dx)
    x = axis_coords(Ma, dx)
    lam_f = np.longdouble(wavelength) * np.longdouble(efl)
    Ky = _kernel(Y, y, lam_f, -1)        # (len Y, Na)
    Kx = _kernel(X, x, lam_f, -1).T      # (Ma, len X)
    return Ky @ a.astype(np.complex128) @ Kx


def pupil_field(F, dX, wavelength, efl, x, y):
    """Pupil-plane field of focal samples ``F`` (spacing dX microns) at the points (x[q], y[p]) (millimetres)."""
    F = np.asarray(F)
    Nf, Mf = F.shape
    Y = axis_coords(Nf, dX)
    X = axis_coords(Mf, dX)
    lam_f = np.longdouble(wavelength) * np.longdouble(efl)
    Ky = _kernel(y, Y, lam_f, +1)
    Kx = _kernel(x, X, lam_f, +1).T
    return Ky @ F.astype(np.complex128) @ Kx


def psf_spacing(pupil_dx, samples, wavelength, efl):
    """Focal-plane sample spacing (um) of an N-point FFT of a pupil sampled at pupil_dx (mm): lambda f / (N dx)."""
    return (float(wavelength) * float(efl)) / (float(samples) * float(pupil_dx))


def pupil_spacing(psf_dx, samples, wavelength, efl):
    """Inverse relation (the same expression with the roles swapped)."""
    return (float(wavelength) * float(efl)) / (float(samples) * float(psf_dx))


def q_for_sampling(input_diameter, prop_dist, wavelength, output_dx):
    """(lambda z / D) / dx_out: number of output samples per diffraction resolution element."""
    return (float(wavelength) * float(prop_dist) / float(input_diameter)) / float(output_dx)


def tilt_displacement(waves, width, wavelength, efl):
    """Focal-spot displacement (um) of k waves of tilt across a physical width D (mm): k lambda f / D."""
    return float(waves) * float(wavelength) * float(efl) / float(width)


def fit_scale(got, ref, modulus=False):
    """Least-squares scalar c minimising || got - c ref ||_2 (complex c; real c >= 0 on moduli)."""
    got = np.asarray(got)
    ref = np.asarray(ref)
    if modulus:
        got = np.abs(got)
        ref = np.abs(ref)
    den = np.vdot(ref, ref).real
    if not np.isfinite(den) or den == 0:
        return 0.0
    c = np.vdot(ref, got) / den
    return float(c.real) if modulus else complex(c)


def scale_free_error(got, ref, modulus=False):
    """(err, scale, c): err = || got - c ref ||_inf with the fitted c, scale = |c| ||ref||_inf.

    A non-finite ``got`` gives err = inf; an all-zero ``got`` against a non-zero reference gives err = scale = 0
    and c = 0, which the caller must treat as a failure (nothing was computed)."""
    got = np.asarray(got)
    ref = np.asarray(ref)
    if not np.all(np.isfinite(got)):
        return float('inf'), float(np.max(np.abs(ref))), 0.0
    if modulus:
        got = np.abs(got)
        ref = np.abs(ref)
    c = fit_scale(got, ref, modulus=False) if not modulus else fit_scale(got, ref, modulus=True)
    err = float(np.max(np.abs(got - c * ref)))
    scale = float(abs(c) * np.max(np.abs(ref)))
    return err, scale, c
