"""Numerical differentiation and inner-product helpers.  No prysm import.

Conventions

* complex inner product ``<a, b> = sum(conj(a) * b)`` (``numpy.vdot``);
* a backprop routine fed the upstream gradient ``gbar`` of a scalar cost must return ``xbar`` with
  ``dc = Re<xbar, d>`` for the cost ``c(x) = Re<gbar, f(x)>`` and every direction ``d`` (for a complex-linear
  forward ``A`` this is ``xbar = A^H gbar``, i.e. ``<gbar, A x> = <xbar, x>`` as complex numbers);
* directional derivatives are measured by central differences at h, h/2, h/4 followed by two Richardson
  steps (O(h^2) -> O(h^4) -> O(h^6)); the difference between the two O(h^4) extrapolants is returned as
  the conditioning estimate so that a caller can drop (and count) non-smooth or round-off dominated points.
"""
import math

import numpy as np

__all__ = ['inner', 'norm', 'richardson_directional', 'richardson_elementwise', 'complex_step_elementwise',
           'DTYPES', 'cast', 'f32_exact', 'relayout', 'LAYOUTS', 'hutchinson_norm']

DTYPES = {'c64': np.complex64, 'c128': np.complex128, 'f32': np.float32, 'f64': np.float64}
LAYOUTS = ('C', 'F', 'strided', 'reversed')


def _wide(a):
    """The array in double precision (float64 / complex128): the laws are always evaluated in double."""
    a = np.asarray(a)
    if a.dtype.kind == 'c':
        return a.astype(np.complex128, copy=False)
    return a.astype(np.float64, copy=False)


def inner(a, b):
    """<a, b> = sum conj(a) b over all samples (accumulated in double precision whatever the input dtypes)."""
    return np.vdot(_wide(a).ravel(), _wide(b).ravel())


def norm(a):
    a = _wide(a)
    return float(np.sqrt(np.sum(np.abs(a) ** 2)))


def cast(a, dt):
    """A copy of `a` in the dtype labelled dt ('f32', 'f64', 'c64', 'c128'; None = unchanged copy).

    A complex array asked to become a real label keeps its kind (f32 -> c64, f64 -> c128) and vice versa: the label
    fixes the *width*, the kind is the array's own."""
    a = np.asarray(a)
    if dt is None:
        return np.array(a, copy=True)
    wide = dt in ('f64', 'c128')
    if a.dtype.kind == 'c':
        return a.astype(np.complex128 if wide else np.complex64)
    if a.dtype.kind == 'b':
        return np.array(a, copy=True)
    return a.astype(np.float64 if wide else np.float32)


def f32_exact(a):
    """The nearest array (same kind, double precision) whose values are exactly representable in single precision,
    so that narrowing it later loses nothing and every configuration of one case sees the same numbers."""
    a = np.asarray(a)
    if a.dtype.kind == 'c':
        return a.astype(np.complex64).astype(np.complex128)
    return a.astype(np.float32).astype(np.float64)


def relayout(a, layout):
    """An array with the values (and dtype) of `a` in another memory layout; always a fresh buffer.

    'C' row-major contiguous, 'F' column-major contiguous, 'strided' every second element of a larger buffer whose
    other elements hold a large junk value, 'reversed' negative strides along every axis."""
    a = np.asarray(a)
    if a.ndim == 0 or layout == 'C':
        return np.array(a, order='C', copy=True)
    if layout == 'F':
        return np.array(a, order='F', copy=True)
    if layout == 'strided':
        big = np.full(tuple(2 * s + 1 for s in a.shape), 7.0e3, dtype=a.dtype)
        sl = tuple(slice(1, 2 * s + 1, 2) for s in a.shape)
        big[sl] = a
        return big[sl]
    if layout == 'reversed':
        sl = tuple(slice(None, None, -1) for _ in a.shape)
        buf = np.array(a[sl], order='C', copy=True)
        return buf[sl]
    raise ValueError(layout)


def hutchinson_norm(directional, shape, rng, k=4):
    """Estimate |grad| of a scalar function from k directional derivatives along random +-1 directions:
    E <grad, d>^2 = |grad|^2 for Rademacher d.  `directional(d)` returns the derivative along d."""
    acc = 0.0
    for _ in range(k):
        d = rng.integers(0, 2, shape) * 2.0 - 1.0
        acc += float(directional(d)) ** 2
    return math.sqrt(acc / k)


def _central(c, h):
    return (c(h) - c(-h)) / (2 * h)


def richardson_directional(cost_along, h):
    """Derivative at t=0 of the scalar function t -> cost_along(t).

    Returns (value, settle) where value is the O(h^6) extrapolant and settle = |R(h/2) - R(h)| is the
    disagreement between the two O(h^4) extrapolants (an upper estimate of the error of the coarser one).
    """
    d1 = _central(cost_along, h)
    d2 = _central(cost_along, h / 2)
    d3 = _central(cost_along, h / 4)
    r1 = (4 * d2 - d1) / 3
    r2 = (4 * d3 - d2) / 3
    t = (16 * r2 - r1) / 15
    return t, abs(r2 - r1)


def richardson_elementwise(f, x, h):
    """Elementwise derivative of an elementwise function f at the real array x (same extrapolation).

    Returns (value array, settle array)."""
    def cd(s):
        return (f(x + s) - f(x - s)) / (2 * s)
    d1, d2, d3 = cd(h), cd(h / 2), cd(h / 4)
    r1 = (4 * d2 - d1) / 3
    r2 = (4 * d3 - d2) / 3
    return (16 * r2 - r1) / 15, np.abs(r2 - r1)


def complex_step_elementwise(f, x, h=1e-30):
    """Im f(x + i h) / h for an elementwise real-analytic f (no subtractive cancellation)."""
    return np.imag(f(np.asarray(x, dtype=float) + 1j * h)) / h
