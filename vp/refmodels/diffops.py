"""Numerical differentiation and inner-product helpers.  No prysm import.

Conventions

* complex inner product ``<a, b> = sum(conj(a) * b)`` (``numpy.vdot``);
* a backprop routine fed the upstream gradient ``gbar`` of a scalar cost must return ``xbar`` with
  ``dc = Re<xbar, d>`` for the cost ``c(x) = Re<gbar, f(x)>`` and every direction ``d`` (for a complex-linear
  forward ``A`` this is ``xbar = A^H gbar``, i.e. ``<gbar, A x> = <xbar, x>`` as complex numbers);
* directional derivatives are measured by central differences at h, h/2, h/4 followed by two Richardson
  steps (O(h^2) -> O(h^4) -> O(h^6)); the difference between the two O(h^4) extrapolants is returned as
  the conditioning estimate so that a caller can drop (and count) non-smooth or round-off dominated points.
"""
import numpy as np

__all__ = ['inner', 'norm', 'richardson_directional', 'richardson_elementwise', 'complex_step_elementwise']


def inner(a, b):
    """<a, b> = sum conj(a) b over all samples."""
    return np.vdot(np.asarray(a).ravel(), np.asarray(b).ravel())


def norm(a):
    a = np.asarray(a)
    return float(np.sqrt(np.sum(np.abs(a) ** 2)))


def _central(c, h):
    return (c(h) - c(-h)) / (2 * h)


def richardson_directional(cost_along, h):
    """Derivative at t=0 of the scalar function t -> cost_along(t).

    Returns (value, settle) where value is the O(h^6) extrapolant and settle = |R(h/2) - R(h)| is the
    disagreement between the two O(h^4) extrapolants (an upper estimate of the error of the coarser one).
    """
    d1 = _central(cost_along, h)
    d2 = _central(cost_along, h / 2)
    d3 = _central(cost_along, h / 4)
    r1 = (4 * d2 - d1) / 3
    r2 = (4 * d3 - d2) / 3
    t = (16 * r2 - r1) / 15
    return t, abs(r2 - r1)


def richardson_elementwise(f, x, h):
    """Elementwise derivative of an elementwise function f at the real array x (same extrapolation).

    Returns (value array, settle array)."""
    def cd(s):
        return (f(x + s) - f(x - s)) / (2 * s)
    d1, d2, d3 = cd(h), cd(h / 2), cd(h / 4)
    r1 = (4 * d2 - d1) / 3
    r2 = (4 * d3 - d2) / 3
    return (16 * r2 - r1) / 15, np.abs(r2 - r1)


def complex_step_elementwise(f, x, h=1e-30):
    """Im f(x + i h) / h for an elementwise real-analytic f (no subtractive cancellation)."""
    return np.imag(f(np.asarray(x, dtype=float) + 1j * h)) / h
