"""Independent numerical differentiators for the derivative-oracle of C09 (no prysm import).

Every differentiator works on *samples of a value routine* supplied by the caller; none of them knows any
polynomial family.  Three tools, each with an a-posteriori error estimate so that a caller can exclude (and count)
ill-conditioned cases instead of comparing loosely:

* ``Cheb(lo, hi, K)``      Chebyshev interpolation at K first-kind nodes on [lo, hi]; exact for polynomials of degree
                            < K; geometric convergence for analytic functions.  ``.der(vals, xq, k)`` differentiates the
                            interpolant k times and evaluates it at xq (element-wise over trailing axes).
* ``Fourier(N)``           trigonometric interpolation at N equispaced angles on [0, 2 pi); exact for trigonometric
                            polynomials of degree < N/2.  ``.der(vals, tq, k)``.
* ``complex_step(f, x)``   Im f(x + ih)/h, h = 1e-20: first derivative of an analytic f with no subtractive cancellation.
* ``local_der(f, x0, h, K)`` derivative at x0 of the degree K-1 Chebyshev interpolant of f on [x0-h, x0+h] (a spectral
                            stencil): for smooth functions that cannot take a complex argument.

``der_with_error`` runs an interpolation at two resolutions and returns (derivative, |difference|) — the difference is
the oracle's own uncertainty.
"""
import numpy as np
from numpy.polynomial import chebyshev as _C


class Cheb:
    """Chebyshev interpolation on [lo, hi] with K first-kind nodes."""

    def __init__(self, lo, hi, K):
        self.lo = float(lo)
        self.hi = float(hi)
        self.K = int(K)
        k = np.arange(self.K)
        self.s = np.cos(np.pi * (2 * k + 1) / (2 * self.K))          # nodes on [-1, 1]
        self.nodes = self.to_x(self.s)
        # analysis matrix: c_j = (2 - d_j0)/K * sum_i f_i T_j(s_i), T_j(s_i) = cos(j (2i+1) pi / 2K)
        j = np.arange(self.K)[:, None]
        T = np.cos(j * np.pi * (2 * k[None, :] + 1) / (2 * self.K))
        w = np.full((self.K, 1), 2.0 / self.K)
        w[0, 0] = 1.0 / self.K
        self.A = w * T

    def to_x(self, s):
        return 0.5 * (self.hi - self.lo) * (np.asarray(s) + 1.0) + self.lo

    def to_s(self, x):
        return (np.asarray(x, dtype=float) - self.lo) * (2.0 / (self.hi - self.lo)) - 1.0

    def coefs(self, vals):
        """vals: shape (K, ...) samples at self.nodes -> Chebyshev coefficients (K, ...)."""
        vals = np.asarray(vals, dtype=float)
        return np.tensordot(self.A, vals, axes=(1, 0))

    def der(self, vals, xq, k=1):
        """k-th derivative of the interpolant of vals (K, *S) at xq (shape broadcastable to S), element-wise."""
        c = self.coefs(vals)
        if k > 0:
            if k >= self.K:
                return np.zeros(np.broadcast(np.zeros(c.shape[1:]), xq).shape)
            c = _C.chebder(c, m=k, scl=2.0 / (self.hi - self.lo), axis=0)
        sq = self.to_s(xq)
        shape = np.broadcast(np.zeros(c.shape[1:]), sq).shape
        sq = np.broadcast_to(sq, shape)
        if c.ndim - 1 < len(shape):      # samples common to all query points: pad trailing axes
            c = c.reshape((c.shape[0],) + (1,) * (len(shape) - (c.ndim - 1)) + c.shape[1:])
        c = np.broadcast_to(c, (c.shape[0],) + shape)
        # Clenshaw evaluation, element-wise over trailing axes
        b1 = np.zeros(shape)
        b2 = np.zeros(shape)
        for j in range(c.shape[0] - 1, 0, -1):
            b1, b2 = c[j] + 2.0 * sq * b1 - b2, b1
        return c[0] + sq * b1 - b2

    def val(self, vals, xq):
        return self.der(vals, xq, 0)


class Fourier:
    """Trigonometric interpolation at N equispaced angles on [0, 2 pi)."""

    def __init__(self, N):
        self.N = int(N)
        self.nodes = 2.0 * np.pi * np.arange(self.N) / self.N

    def der(self, vals, tq, k=1):
        """k-th derivative in theta of the trigonometric interpolant of vals (N, *S) at tq (broadcastable to S)."""
        vals = np.asarray(vals, dtype=float)
        N = self.N
        c = np.fft.fft(vals, axis=0) / N
        freqs = np.fft.fftfreq(N, 1.0 / N)              # integer wavenumbers
        shape = np.broadcast(np.zeros(vals.shape[1:]), tq).shape
        tq = np.broadcast_to(np.asarray(tq, dtype=float), shape)
        out = np.zeros(shape, dtype=complex)
        for i, f in enumerate(freqs):
            if N % 2 == 0 and i == N // 2:
                # Nyquist term: real cosine, not differentiable consistently; callers choose N > 2*degree so it is ~0
                if k == 0:
                    out = out + c[i] * np.cos(f * tq)
                continue
            out = out + c[i] * (1j * f) ** k * np.exp(1j * f * tq)
        return out.real


def complex_step(f, x, h=1e-20):
    """First derivative of an analytic function by the complex-step formula; f must accept a complex ndarray."""
    x = np.asarray(x, dtype=float)
    return np.imag(f(x + 1j * h)) / h


def cheb_der_with_error(sample, lo, hi, xq, k=1, K=16, extra=6):
    """Spectral derivative at two resolutions.

    sample(nodes) -> values of shape (len(nodes), *S) where xq has shape broadcastable to S.
    Returns (d, err) with d from the finer interpolation and err = |d_fine - d_coarse| (the oracle's uncertainty).
    """
    a = Cheb(lo, hi, K)
    b = Cheb(lo, hi, K + extra)
    da = a.der(sample(a.nodes), xq, k)
    db = b.der(sample(b.nodes), xq, k)
    return db, np.abs(db - da)


def fourier_der_with_error(sample, tq, k=1, N=16, extra=8):
    a = Fourier(N)
    b = Fourier(N + extra)
    da = a.der(sample(a.nodes), tq, k)
    db = b.der(sample(b.nodes), tq, k)
    return db, np.abs(db - da)


def local_der(f, x0, h, K=12):
    """d/dx at x0 (array) of the Chebyshev interpolant of f on [x0-h, x0+h] (per element); f is called once with an
    array of shape (K, *x0.shape)."""
    x0 = np.asarray(x0, dtype=float)
    ref = Cheb(-1.0, 1.0, K)
    X = x0[None, ...] + h * ref.s.reshape((K,) + (1,) * x0.ndim)
    vals = f(X)
    d = ref.der(vals, np.zeros(x0.shape), 1)
    return d / h


def local_der_with_error(f, x0, h, K=10, extra=4):
    da = local_der(f, x0, h, K)
    db = local_der(f, x0, h, K + extra)
    return db, np.abs(db - da)
