"""Integer-only reference models of the single-index conventions.  No prysm import, no floating point.

All arithmetic is Python `int` (arbitrary precision) and `math.isqrt`, so the maps are exact for any index.

Conventions
-----------
Zernike orders are (n, m) with n >= |m| and n - |m| even; m > 0 is the cosine term, m < 0 the sine term.

* Noll (j >= 1):  radial order non-decreasing in j; inside a radial order |m| non-decreasing; for m != 0 an
  even j is the cosine term (m > 0), an odd j the sine term (m < 0).
  (Noll, JOSA 66, 207 (1976), table I: 1:(0,0) 2:(1,1) 3:(1,-1) 4:(2,0) 5:(2,-2) 6:(2,2) 7:(3,-1) 8:(3,1) ...)
* ANSI / OSA (j >= 0):  j = (n (n + 2) + m) / 2.
* Fringe / University of Arizona (j >= 1):  j = (1 + (n+|m|)/2)^2 - 2|m| + [m < 0]; groups of equal n + |m| = 2g
  occupy j = g^2 + 1 .. (g + 1)^2.
* XY monomials x^a y^b (j >= 1, j = 1 is the constant term):  total degree d = a + b non-decreasing in j, inside
  a degree the power of x descends: 1, x, y, x^2, xy, y^2, x^3, ...

Each forward map `*_to_*` has an independently written inverse; `selftest(J)` proves (by enumeration) that they
are mutual inverses and that the forward maps enumerate the complete triangle, which is what entitles the
monitors to use them as an oracle.
"""
from math import isqrt

__all__ = ['valid_nm', 'valid_xy', 'tri_row', 'noll_to_nm', 'nm_to_noll', 'ansi_to_nm', 'nm_to_ansi', 'fringe_to_nm',
           'nm_to_fringe', 'xy_j_to_ab', 'xy_ab_to_j', 'orders_of_radial_order', 'orders_of_fringe_group', 'orders_of_xy_degree',
           'noll_block', 'ansi_block', 'fringe_block', 'xy_block', 'selftest']


def valid_nm(n, m):
    return n >= 0 and abs(m) <= n and (n - abs(m)) % 2 == 0


def valid_xy(a, b):
    return a >= 0 and b >= 0


def tri_row(k):
    """Largest r with r (r + 1) / 2 <= k, for k >= 0, and the remainder k - r (r + 1) / 2  (0 <= rem <= r)."""
    if k < 0:
        raise ValueError('k must be >= 0')
    r = (isqrt(8 * k + 1) - 1) // 2
    return r, k - r * (r + 1) // 2


# ------------------------------------------------------------------------------------------------ Noll
def noll_to_nm(j):
    if j < 1:
        raise ValueError('Noll indices start at 1')
    n, p = tri_row(j - 1)        # p = position inside radial order n, 0..n
    if n % 2 == 0:
        am = 2 * ((p + 1) // 2)  # 0, 2, 2, 4, 4, ...
    else:
        am = 2 * (p // 2) + 1    # 1, 1, 3, 3, ...
    if am == 0:
        return n, 0
    return n, (am if j % 2 == 0 else -am)


def nm_to_noll(n, m):
    if not valid_nm(n, m):
        raise ValueError('not a Zernike order')
    base = n * (n + 1) // 2      # number of terms of lower radial order
    am = abs(m)
    if am == 0:
        return base + 1
    # the two positions that carry |m| inside the order (written down from the rule, not from the forward map)
    # n even: |m| = 2a sits at p = 2a-1, 2a ; n odd: |m| = 2a+1 sits at p = 2a, 2a+1 ; in both cases p = |m|-1, |m|
    first = am - 1
    for p in (first, first + 1):
        j = base + p + 1
        if (j % 2 == 0) == (m > 0):
            return j
    raise AssertionError('unreachable')


def noll_block(n):
    """(first j, last j) of radial order n."""
    return n * (n + 1) // 2 + 1, (n + 1) * (n + 2) // 2


# ------------------------------------------------------------------------------------------------ ANSI
def ansi_to_nm(j):
    if j < 0:
        raise ValueError('ANSI indices start at 0')
    n, p = tri_row(j)
    return n, 2 * p - n


def nm_to_ansi(n, m):
    if not valid_nm(n, m):
        raise ValueError('not a Zernike order')
    return (n * (n + 2) + m) // 2


def ansi_block(n):
    return n * (n + 1) // 2, (n + 1) * (n + 2) // 2 - 1


# ------------------------------------------------------------------------------------------------ Fringe
def nm_to_fringe(n, m):
    if not valid_nm(n, m):
        raise ValueError('not a Zernike order')
    g = (n + abs(m)) // 2
    return (g + 1) ** 2 - 2 * abs(m) + (1 if m < 0 else 0)


def fringe_to_nm(j):
    if j < 1:
        raise ValueError('Fringe indices start at 1')
    g = isqrt(j - 1)                 # group: g^2 + 1 <= j <= (g+1)^2
    r = (g + 1) ** 2 - j             # 0 .. 2g
    if r % 2 == 0:
        am, neg = r // 2, False
    else:
        am, neg = (r + 1) // 2, True
    return 2 * g - am, (-am if neg else am)


def fringe_block(g):
    return g * g + 1, (g + 1) ** 2


# ------------------------------------------------------------------------------------------------ XY
def xy_j_to_ab(j):
    """j -> (power of x, power of y)."""
    if j < 1:
        raise ValueError('XY indices start at 1')
    d, p = tri_row(j - 1)
    return d - p, p


def xy_ab_to_j(a, b):
    if not valid_xy(a, b):
        raise ValueError('negative exponent')
    d = a + b
    return d * (d + 1) // 2 + b + 1


def xy_block(d):
    return d * (d + 1) // 2 + 1, (d + 1) * (d + 2) // 2


# ------------------------------------------------------------------------------------------------ target sets
def orders_of_radial_order(n):
    """The complete set of valid (n, m) of radial order n (n + 1 elements)."""
    return {(n, m) for m in range(-n, n + 1, 2)}


def orders_of_fringe_group(g):
    """The complete set of valid (n, m) with n + |m| = 2 g  (2 g + 1 elements)."""
    out = {(2 * g, 0)}
    for am in range(1, g + 1):
        out.add((2 * g - am, am))
        out.add((2 * g - am, -am))
    return out


def orders_of_xy_degree(d):
    return {(d - b, b) for b in range(d + 1)}


def selftest(N=60):
    """Enumerative proof (for orders < N) that the reference maps are bijections onto the complete triangle and
    that forward and inverse maps, which are written independently, undo each other.  Raises AssertionError."""
    # published first terms
    assert [noll_to_nm(j) for j in range(1, 12)] == [(0, 0), (1, 1), (1, -1), (2, 0), (2, -2), (2, 2), (3, -1), (3, 1),
                                                      (3, -3), (3, 3), (4, 0)]
    assert [ansi_to_nm(j) for j in range(0, 10)] == [(0, 0), (1, -1), (1, 1), (2, -2), (2, 0), (2, 2), (3, -3), (3, -1),
                                                     (3, 1), (3, 3)]
    assert [fringe_to_nm(j) for j in range(1, 17)] == [(0, 0), (1, 1), (1, -1), (2, 0), (2, 2), (2, -2), (3, 1), (3, -1),
                                                       (4, 0), (3, 3), (3, -3), (4, 2), (4, -2), (5, 1), (5, -1), (6, 0)]
    assert [xy_j_to_ab(j) for j in range(1, 11)] == [(0, 0), (1, 0), (0, 1), (2, 0), (1, 1), (0, 2), (3, 0), (2, 1),
                                                     (1, 2), (0, 3)]
    for fwd, inv, block, target, first in (
            (noll_to_nm, nm_to_noll, noll_block, orders_of_radial_order, 1),
            (ansi_to_nm, nm_to_ansi, ansi_block, orders_of_radial_order, 0),
            (fringe_to_nm, nm_to_fringe, fringe_block, orders_of_fringe_group, 1),
            (xy_j_to_ab, xy_ab_to_j, xy_block, orders_of_xy_degree, 1)):
        nxt = first
        for b in range(N):
            lo, hi = block(b)
            assert lo == nxt and hi >= lo
            nxt = hi + 1
            img = [fwd(j) for j in range(lo, hi + 1)]
            assert set(img) == target(b) and len(set(img)) == len(img)
            for j, im in zip(range(lo, hi + 1), img):
                assert inv(*im) == j
    return True


if __name__ == '__main__':
    selftest(200)
    print('index_int selftest ok')
