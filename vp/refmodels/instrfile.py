"""Independent readers for the two instrument file formats of C14 (no prysm import).

Zygo MetroPro binary .dat (header format 1, 834 bytes, big-endian): only the fields the round trip needs are
decoded, at the byte offsets of the MetroPro reference guide:

    0   u32  magic 0x881B036F        6   u32  header size
    52  u16  ac_width   54 u16 ac_height   56 u16 ac_n_buckets
    68  u16  cn_width   70 u16 cn_height   72 u32 cn_n_bytes
    164 f32  intf_scale_factor       168 f32 wavelength_in [m]     176 f32 obliquity_factor
    184 f32  camera_res [m/px]       218 i16 phase_res (0: 4096, 1: 32768, 2: 131072)

phase block: big-endian int32, row-major, first row = top of the map; values >= 2147483640 are invalid; height
[m] = raw * scale * obliquity * wavelength / R.  prysm's arrays have row 0 at the *bottom* (both its writer and
its reader flip vertically), so array[i, j] = file sample (H-1-i)*W + j.

Code V grid INT (text): title record, then a header record `GRD <nx> <ny> <SUR|WFR|FIL> WVL <um> [NNB] SSZ <s>
NDA <sentinel>`, then nx*ny integers in free format, x (columns) varying fastest; value [wvl] = int / SSZ.
"""
import struct

import numpy as np

ZYGO_MAGIC = 0x881B036F
ZYGO_INVALID = 2147483640
ZYGO_R = {0: 4096, 1: 32768, 2: 131072}


def zygo_header(buf):
    """Decode the fields needed for a phase map from the first 834 bytes."""
    if len(buf) < 834:
        raise ValueError('short header')
    u16 = lambda o: struct.unpack_from('>H', buf, o)[0]   # noqa
    u32 = lambda o: struct.unpack_from('>I', buf, o)[0]   # noqa
    f32 = lambda o: struct.unpack_from('>f', buf, o)[0]   # noqa
    h = {
        'magic': u32(0), 'header_size': u32(6),
        'ac_width': u16(52), 'ac_height': u16(54), 'ac_n_buckets': u16(56),
        'cn_width': u16(68), 'cn_height': u16(70), 'cn_n_bytes': u32(72),
        'scale': f32(164), 'wavelength_m': f32(168), 'obliquity': f32(176), 'camera_res_m': f32(184),
        'phase_res': struct.unpack_from('>h', buf, 218)[0],
    }
    return h


def zygo_layout(buf):
    """(header dict, byte offset of the phase block, number of phase samples)."""
    h = zygo_header(buf)
    nb = h['ac_n_buckets'] or 1
    off = h['header_size'] + 2 * h['ac_width'] * h['ac_height'] * nb
    return h, off, h['cn_width'] * h['cn_height']


def zygo_read(buf):
    """Decode a complete file into (phase_nm [row 0 = bottom], dx_mm, wavelength_um, raw_int32 in file order)."""
    h, off, n = zygo_layout(buf)
    if len(buf) < off + 4 * n:
        raise ValueError('truncated')
    raw = np.array(struct.unpack_from(f'>{n}i', buf, off), dtype=np.int64)
    val = raw.astype(float) * (float(h['scale']) * float(h['obliquity']) * float(h['wavelength_m']) / ZYGO_R[h['phase_res']]) * 1e9
    val[raw >= ZYGO_INVALID] = np.nan
    img = val.reshape(h['cn_height'], h['cn_width'])[::-1]
    return img, float(h['camera_res_m']) * 1e3, float(h['wavelength_m']) * 1e6, raw


def zygo_missing(buf_full, cut):
    """Boolean map (array frame, row 0 = bottom) of the samples whose 4 bytes are not all inside buf_full[:cut]."""
    h, off, n = zygo_layout(buf_full)
    H, W = h['cn_height'], h['cn_width']
    npresent = max(0, (cut - off) // 4) if cut > off else 0
    npresent = min(npresent, n)
    miss = np.zeros(n, dtype=bool)
    miss[npresent:] = True
    return miss.reshape(H, W)[::-1]


# ------------------------------------------------------------------------------------------------ Code V
def codev_split(text):
    """(title, header record, data string offset) of a grid INT text without '!' comment records."""
    pos = 0
    while text.startswith('!', pos):
        e = text.find('\n', pos)
        if e < 0:
            raise ValueError('unterminated comment')
        pos = e + 1
    e = text.find('\n', pos)
    if e < 0:
        raise ValueError('no title terminator')
    title = text[pos:e]
    pos = e + 1
    e = text.find('\n', pos)
    if e < 0:
        raise ValueError('no header terminator')
    return title, text[pos:e], e + 1


def codev_header(hdr):
    tok = hdr.split()
    out = {'nnb': False}
    i = 0
    while i < len(tok):
        t = tok[i].upper()
        if t == 'GRD':
            out['nx'], out['ny'] = int(tok[i + 1]), int(tok[i + 2])
            i += 3
        elif t in ('SUR', 'WFR', 'FIL'):
            out['typ'] = t
            i += 1
        elif t == 'WVL':
            out['wvl'] = float(tok[i + 1])
            i += 2
        elif t == 'SSZ':
            out['ssz'] = float(tok[i + 1])
            i += 2
        elif t == 'NDA':
            out['nda'] = int(tok[i + 1])
            i += 2
        elif t == 'NNB':
            out['nnb'] = True
            i += 1
        else:
            raise ValueError(f'unknown header token {tok[i]}')
    return out


def codev_tokens(text, start):
    """[(begin, end, string)] of the whitespace-separated tokens of text[start:], offsets into text."""
    out = []
    i, n = start, len(text)
    while i < n:
        while i < n and text[i].isspace():
            i += 1
        if i >= n:
            break
        j = i
        while j < n and not text[j].isspace():
            j += 1
        out.append((i, j, text[i:j]))
        i = j
    return out


def codev_read(text):
    """Decode a complete grid INT into (map_nm [row 0 = bottom], header dict, ints in file order)."""
    title, hdr, start = codev_split(text)
    h = codev_header(hdr)
    toks = codev_tokens(text, start)
    ints = np.array([int(t[2]) for t in toks], dtype=np.int64)
    if ints.size != h['nx'] * h['ny']:
        raise ValueError('sample count does not match GRD')
    val = ints.astype(float) * (1000.0 * h['wvl'] / h['ssz'])
    val[ints == h['nda']] = np.nan
    return val.reshape(h['ny'], h['nx'])[::-1], h, ints


def codev_missing(text_full, cut, shape):
    """Boolean map (array frame, row 0 = bottom, shape = shape of the written map) of the samples whose token is
    not completely inside text_full[:cut]; second value: where the cut fell."""
    title, hdr, start = codev_split(text_full)
    toks = codev_tokens(text_full, start)
    n = len(toks)
    if cut < start:
        miss = np.ones(n, dtype=bool)
        where = 'header'
    else:
        present = sum(1 for (b, e, s) in toks if e <= cut)
        miss = np.zeros(n, dtype=bool)
        miss[present:] = True
        inside = [k for k, (b, e, s) in enumerate(toks) if b < cut < e]
        if inside:
            where = 'inside-last-token' if inside[0] == n - 1 else 'inside-token'
        else:
            where = 'between-tokens'
    H, W = shape
    return miss.reshape(H, W)[::-1], where
