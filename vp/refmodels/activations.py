"""Closed forms of the four scalar activation nodes and their derivatives, written so that no intermediate overflows.

No prysm import.  z = a (x - x0) is the pre-activation; the node computes  g(z) + y0  and its derivative with respect to x is
a g'(z).  Every expression below only ever exponentiates -|z| (or -2|z|), so it is finite for every finite z.

    Tanh      g = tanh z                      g' = sech^2 z  = 4 e^{-2|z|} / (1 + e^{-2|z|})^2
    Arctan    g = arctan z                    g' = 1 / (1 + z^2)
    Softplus  g = log(1 + e^z) = max(z, 0) + log1p(e^{-|z|})        g' = sigma(z)
    Sigmoid   g = sigma(z) = 1 / (1 + e^{-z})                       g' = sigma(z) sigma(-z) = e^{-|z|} / (1 + e^{-|z|})^2
"""
import numpy as np

__all__ = ['value', 'derivative', 'NAMES']

NAMES = ('Tanh', 'Arctan', 'Softplus', 'Sigmoid')


def _sigma(z):
    e = np.exp(-np.abs(z))
    return np.where(z >= 0, 1.0 / (1.0 + e), e / (1.0 + e))


def value(name, a, x0, y0, x):
    z = float(a) * (np.asarray(x, dtype=np.float64) - float(x0))
    if name == 'Tanh':
        g = np.tanh(z)
    elif name == 'Arctan':
        g = np.arctan(z)
    elif name == 'Softplus':
        g = np.maximum(z, 0.0) + np.log1p(np.exp(-np.abs(z)))
    elif name == 'Sigmoid':
        g = _sigma(z)
    else:
        raise ValueError(name)
    return g + float(y0)


def derivative(name, a, x0, x):
    """d/dx of value(): a g'(a (x - x0)); independent of y0."""
    a = float(a)
    z = a * (np.asarray(x, dtype=np.float64) - float(x0))
    if name == 'Tanh':
        e = np.exp(-2.0 * np.abs(z))
        gp = 4.0 * e / (1.0 + e) ** 2
    elif name == 'Arctan':
        gp = 1.0 / (1.0 + z * z)
    elif name == 'Softplus':
        gp = _sigma(z)
    elif name == 'Sigmoid':
        e = np.exp(-np.abs(z))
        gp = e / (1.0 + e) ** 2
    else:
        raise ValueError(name)
    return a * gp
