"""Ray-optics reference model written from the textbook definitions.  No prysm import.

Contents
--------
* rotation algebra: elementary rotations, composition, explicit (component-wise) application of a 3x3 matrix
  to a batch of vectors, frame transforms ``X_local = R (X - V)`` and back with ``R^T``, orthonormality measures;
* the vector laws of reflection and refraction about a *unit* normal, and the scalar clauses that the property
  names separately (|S'| = 1, n sin i = n' sin i', coplanarity, side of the surface);
* surface normals from a *sag callable*: complex step (sag must accept complex x) or central differences with
  Richardson extrapolation (any real sag callable, e.g. one that goes through hypot/arctan2);
* textbook conic sag (optionally the section of the parent centred on (dx,dy)), valid for complex arguments;
* a bracketing root finder for ray / sag-surface intersection (scan for a sign change, then bisection) that
  never uses a derivative, so it does not share a failure mode with a Newton iteration.

Conventions: vectors are rows of (N,3) arrays; a ray is (P, S), S a direction; the local surface equation is
z = sag(x, y) and the (upward) normal is (-dz/dx, -dz/dy, 1)/norm.
"""
import numpy as np

__all__ = ['rot_x', 'rot_y', 'rot_z', 'rotation_from_angles', 'frame_with_axis', 'apply', 'to_local', 'to_global',
           'orthonormality', 'dot', 'cross', 'norm', 'unit', 'reflect_law', 'refract_law', 'sin_between',
           'snell_residual', 'coplanarity', 'conic_sag', 'gradient_complex_step', 'gradient_richardson',
           'normal_from_gradient', 'ray_surface_roots', 'point_line_distance']


# ------------------------------------------------------------------------------------------ rotations
def rot_x(a):
    c, s = np.cos(a), np.sin(a)
    return np.array([[1.0, 0.0, 0.0], [0.0, c, -s], [0.0, s, c]])


def rot_y(a):
    c, s = np.cos(a), np.sin(a)
    return np.array([[c, 0.0, s], [0.0, 1.0, 0.0], [-s, 0.0, c]])


def rot_z(a):
    c, s = np.cos(a), np.sin(a)
    return np.array([[c, -s, 0.0], [s, c, 0.0], [0.0, 0.0, 1.0]])


def matmul3(A, B):
    """3x3 product written out (no BLAS, no einsum)."""
    C = np.zeros((3, 3))
    for i in range(3):
        for j in range(3):
            C[i, j] = A[i, 0] * B[0, j] + A[i, 1] * B[1, j] + A[i, 2] * B[2, j]
    return C


def rotation_from_angles(az, ay, ax, degrees=True):
    """A proper rotation Rx(ax) Ry(ay) Rz(az) (one of the usual Euler orders; used to *generate* rotations)."""
    if degrees:
        az, ay, ax = np.radians(az), np.radians(ay), np.radians(ax)
    return matmul3(rot_x(ax), matmul3(rot_y(ay), rot_z(az)))


def frame_with_axis(axis, spin=0.0):
    """Rotation R whose third row is `axis` (unit): X_local = R X maps `axis` onto +z.  `spin` rotates about it."""
    a = np.asarray(axis, dtype=float)
    a = a / np.sqrt(a[0] * a[0] + a[1] * a[1] + a[2] * a[2])
    # pick the coordinate axis least aligned with a
    k = int(np.argmin(np.abs(a)))
    t = np.zeros(3)
    t[k] = 1.0
    e1 = t - (t[0] * a[0] + t[1] * a[1] + t[2] * a[2]) * a
    e1 = e1 / np.sqrt(e1[0] ** 2 + e1[1] ** 2 + e1[2] ** 2)
    e2 = np.array([a[1] * e1[2] - a[2] * e1[1], a[2] * e1[0] - a[0] * e1[2], a[0] * e1[1] - a[1] * e1[0]])
    R = np.stack([e1, e2, a])
    return matmul3(rot_z(spin), R)


def apply(R, V):
    """R applied to every row of V (N,3) or to a single vector (3,), written out component-wise."""
    V = np.asarray(V)
    x, y, z = V[..., 0], V[..., 1], V[..., 2]
    return np.stack([R[0, 0] * x + R[0, 1] * y + R[0, 2] * z,
                     R[1, 0] * x + R[1, 1] * y + R[1, 2] * z,
                     R[2, 0] * x + R[2, 1] * y + R[2, 2] * z], axis=-1)


def to_local(P, S, origin, R=None):
    """Global -> local frame of a surface with vertex `origin` and rotation R: X_l = R (X - origin), S_l = R S."""
    Pl = np.asarray(P, dtype=float) - np.asarray(origin, dtype=float)
    Sl = np.asarray(S, dtype=float)
    if R is None:
        return Pl, Sl
    return apply(R, Pl), apply(R, Sl)


def to_global(Pl, Sl, origin, R=None):
    """Inverse of to_local: X = R^T X_l + origin, S = R^T S_l."""
    Pl = np.asarray(Pl, dtype=float)
    Sl = np.asarray(Sl, dtype=float)
    if R is None:
        return Pl + np.asarray(origin, dtype=float), Sl
    Rt = np.asarray(R).T
    return apply(Rt, Pl) + np.asarray(origin, dtype=float), apply(Rt, Sl)


def det3(R):
    return (R[0, 0] * (R[1, 1] * R[2, 2] - R[1, 2] * R[2, 1])
            - R[0, 1] * (R[1, 0] * R[2, 2] - R[1, 2] * R[2, 0])
            + R[0, 2] * (R[1, 0] * R[2, 1] - R[1, 1] * R[2, 0]))


def orthonormality(R):
    """(max |R R^T - I|, det R)."""
    R = np.asarray(R, dtype=float)
    G = matmul3(R, R.T)
    return float(np.max(np.abs(G - np.eye(3)))), float(det3(R))


# ------------------------------------------------------------------------------------------ vector helpers
def dot(a, b):
    return a[..., 0] * b[..., 0] + a[..., 1] * b[..., 1] + a[..., 2] * b[..., 2]


def cross(a, b):
    return np.stack([a[..., 1] * b[..., 2] - a[..., 2] * b[..., 1],
                     a[..., 2] * b[..., 0] - a[..., 0] * b[..., 2],
                     a[..., 0] * b[..., 1] - a[..., 1] * b[..., 0]], axis=-1)


def norm(a):
    return np.sqrt(dot(a, a))


def unit(a):
    return a / norm(a)[..., None]


def point_line_distance(X, P, S):
    """Distance of point(s) X from the line through P with direction S (S need not be unit)."""
    return norm(cross(X - P, S)) / norm(S)


# ------------------------------------------------------------------------------------------ laws
def reflect_law(S, n):
    """Mirror image of S about the plane normal to the unit vector n:  S' = S - 2 (S.n) n."""
    return S - 2.0 * dot(S, n)[..., None] * n


def refract_law(n1, n2, S, n):
    """Vector form of Snell's law for unit S and unit normal n (either orientation).

    S' = mu S + (sqrt(1 - mu^2 (1 - cos^2 i)) * sign(cos i) - mu cos i) n,   mu = n1/n2, cos i = S.n
    Returns (S', tir) where tir marks total internal reflection (S' is NaN there).
    """
    mu = n1 / n2
    ci = dot(S, n)
    rad = 1.0 - mu * mu * (1.0 - ci * ci)
    tir = rad < 0
    with np.errstate(invalid='ignore'):
        ct = np.sqrt(np.where(tir, np.nan, rad)) * np.where(ci >= 0, 1.0, -1.0)
    return mu * S + (ct - mu * ci)[..., None] * n, tir


def sin_between(S, n):
    """sin of the angle between S and n, from the cross product (well conditioned near normal incidence)."""
    return norm(cross(S, n)) / (norm(S) * norm(n))


def snell_residual(n1, n2, S, Sp, n):
    """n1 sin i - n2 sin i' with the angles measured from the normal line."""
    return n1 * sin_between(S, n) - n2 * sin_between(Sp, n)


def coplanarity(S, Sp, n):
    """|S' . (S x n)| / (|S'| |S| |n|): zero when S' lies in the plane of incidence."""
    return np.abs(dot(Sp, cross(S, n))) / (norm(Sp) * norm(S) * norm(n))


# ------------------------------------------------------------------------------------------ surfaces
def conic_sag(c, k, x, y, dx=0.0, dy=0.0):
    """z = c s / (1 + sqrt(1 - (1+k) c^2 s)),  s = (x+dx)^2 + (y+dy)^2.  Works for complex x or y."""
    X = x + dx
    Y = y + dy
    s = X * X + Y * Y
    return c * s / (1.0 + np.sqrt(1.0 - (1.0 + k) * c * c * s))


def gradient_complex_step(sag, x, y, h=1e-30):
    """(dz/dx, dz/dy) by the complex-step derivative; `sag(x, y)` must be analytic and accept complex input."""
    x = np.asarray(x, dtype=float)
    y = np.asarray(y, dtype=float)
    zx = np.imag(sag(x + 1j * h, y + 0j)) / h
    zy = np.imag(sag(x + 0j, y + 1j * h)) / h
    return zx, zy


def gradient_richardson(sag, x, y, h, levels=3):
    """(dz/dx, dz/dy) by central differences at steps h, h/2, h/4.. with Richardson extrapolation.

    Returns (zx, zy, err) where err is the difference between the last two extrapolation orders (an error
    estimate of the *less* accurate of the two), so callers can exclude points where the sag is not smooth."""
    x = np.asarray(x, dtype=float)
    y = np.asarray(y, dtype=float)

    def table(fn):
        T = []
        for i in range(levels):
            hi = h / (2 ** i)
            T.append([fn(hi)])
        for i in range(1, levels):
            for j in range(1, i + 1):
                T[i].append(T[i][j - 1] + (T[i][j - 1] - T[i - 1][j - 1]) / (4 ** j - 1))
        best = T[-1][-1]
        prev = T[-1][-2] if levels > 1 else T[-1][-1]
        return best, np.abs(best - prev)

    zx, ex = table(lambda hh: (sag(x + hh, y) - sag(x - hh, y)) / (2 * hh))
    zy, ey = table(lambda hh: (sag(x, y + hh) - sag(x, y - hh)) / (2 * hh))
    return zx, zy, np.maximum(ex, ey)


def normal_from_gradient(zx, zy):
    """Unit normal of z = sag(x,y) on the +z side."""
    g = np.stack([-zx, -zy, np.ones_like(zx)], axis=-1)
    return unit(g)


# ------------------------------------------------------------------------------------------ intersection
def ray_surface_roots(sag, P, S, s_lo, s_hi, nscan=96, iters=80):
    """For every ray P + s S find a root of f(s) = z(s) - sag(x(s), y(s)) in [s_lo, s_hi] by bracketing.

    The interval is scanned at `nscan` points; the first pair of adjacent *finite* samples with a sign change is
    bisected `iters` times (or an exact zero sample is taken).  Returns (s, found); s is NaN where no bracket
    exists (tangential or missing intersections are *not* found: callers treat those rays as out of domain).
    `s_lo`, `s_hi` are scalars or (N,) arrays."""
    P = np.asarray(P, dtype=float)
    S = np.asarray(S, dtype=float)
    N = P.shape[0]
    s_lo = np.broadcast_to(np.asarray(s_lo, dtype=float), (N,))
    s_hi = np.broadcast_to(np.asarray(s_hi, dtype=float), (N,))

    def f(s):
        X = P + s[:, None] * S
        with np.errstate(all='ignore'):
            return X[:, 2] - sag(X[:, 0], X[:, 1])

    a = np.full(N, np.nan)
    b = np.full(N, np.nan)
    fa = np.full(N, np.nan)
    done = np.zeros(N, dtype=bool)
    prev_s = None
    prev_f = None
    for i in range(nscan):
        s = s_lo + (s_hi - s_lo) * (i / (nscan - 1))
        fs = f(s)
        if prev_f is not None:
            ok = np.isfinite(prev_f) & np.isfinite(fs) & ~done
            br = ok & ((prev_f <= 0) & (fs >= 0) | (prev_f >= 0) & (fs <= 0))
            a[br] = prev_s[br]
            b[br] = s[br]
            fa[br] = prev_f[br]
            done |= br
        prev_s, prev_f = s, fs
    found = done.copy()
    idx = np.nonzero(found)[0]
    if idx.size:
        aa, bb, ffa = a[idx], b[idx], fa[idx]
        Pi, Si = P[idx], S[idx]

        def fi(s):
            X = Pi + s[:, None] * Si
            with np.errstate(all='ignore'):
                return X[:, 2] - sag(X[:, 0], X[:, 1])

        for _ in range(iters):
            m = 0.5 * (aa + bb)
            fm = fi(m)
            left = (fm == 0) | ((fm > 0) != (ffa > 0))   # root in [a, m]
            # where fa == 0 exactly the root is a itself: keep shrinking towards a
            left |= (ffa == 0)
            bb = np.where(left, m, bb)
            keep = ~left
            aa = np.where(keep, m, aa)
            ffa = np.where(keep, fm, ffa)
        a[idx] = 0.5 * (aa + bb)
    return a, found
