"""Textbook two-dimensional DFT, written from the definition.  No prysm import.

Conventions (measured against prysm.fttools.mdft during design recon, 2 000 cases, 1e-15):

* the origin of an axis of length L is the sample of index ``L // 2`` (input and output);
* ``Q`` is a scalar or ``(Q0, Q1)``: ``Q0`` belongs to axis 0 (rows), ``Q1`` to axis 1 (columns);
* ``out`` is a scalar or ``(Nb, Mb)`` = (rows, columns) of the result;
* ``shift = (sx, sy)`` is in *output samples*; ``shift[0]`` acts on axis 1 (x, columns) and
  ``shift[1]`` on axis 0 (y, rows); it is applied as ``coordinate - shift``;
* forward kernel ``exp(-2 pi i ...)``, inverse ``exp(+2 pi i ...)``;
* unitary-style normalisation ``1 / sqrt(Na*Q0 * Ma*Q1)``.

    ref[k, l] = 1/sqrt(Na Q0 Ma Q1) * sum_{p,q} a[p,q]
                * exp(-+2 pi i (k - Nb//2 - sy)(p - Na//2) / (Na Q0))
                * exp(-+2 pi i (l - Mb//2 - sx)(q - Ma//2) / (Ma Q1))

The phases are evaluated in ``longdouble`` (the products v*y are reduced before the
multiplication by 2 pi) and the sums in complex128, so the model is good to a few eps of
float64 for the sizes used here (<= ~100).
"""
import numpy as np

__all__ = ['ref_dft', 'ref_dft_axes', 'pair', 'origin_pad', 'origin_crop']


def pair(v):
    """Scalar -> (v, v); length-2 iterable -> tuple of its two entries."""
    if hasattr(v, '__len__'):
        v = tuple(v)
        if len(v) != 2:
            raise ValueError('expected a scalar or a pair')
        return v
    return (v, v)


def _kernel(out_coord, in_coord, period, sign):
    """exp(sign * 2 pi i * outer(out_coord, in_coord) / period) with long-double phase."""
    o = np.asarray(out_coord, dtype=np.longdouble)
    i = np.asarray(in_coord, dtype=np.longdouble)
    ph = np.outer(o, i) / np.longdouble(period)
    # remove whole turns before multiplying by 2 pi: keeps the phase accurate for large products
    ph = ph - np.rint(ph)
    ph = (2 * np.pi) * ph.astype(np.float64)
    return np.cos(ph) + (1j * sign) * np.sin(ph)


def ref_dft_axes(a, Q, out, shift=(0, 0), fwd=True):
    """Return (Ey, Ex, norm) such that ref = Ey @ a @ Ex * norm."""
    a = np.asarray(a)
    if a.ndim != 2:
        raise ValueError('ref_dft is defined for 2-D input')
    Na, Ma = a.shape
    Q0, Q1 = (float(q) for q in pair(Q))
    Nb, Mb = (int(n) for n in pair(out))
    sx, sy = (float(s) for s in pair(shift))
    y = np.arange(Na) - Na // 2
    x = np.arange(Ma) - Ma // 2
    v = np.arange(Nb) - Nb // 2 - np.longdouble(sy)
    u = np.arange(Mb) - Mb // 2 - np.longdouble(sx)
    s = -1 if fwd else 1
    Ey = _kernel(v, y, Na * np.longdouble(Q0), s)          # (Nb, Na)
    Ex = _kernel(u, x, Ma * np.longdouble(Q1), s).T        # (Ma, Mb)
    norm = 1.0 / np.sqrt(Na * Q0 * Ma * Q1)
    return Ey, Ex, norm


def ref_dft(a, Q, out, shift=(0, 0), fwd=True):
    """Textbook 2-D DFT of ``a`` (see module docstring for the conventions).

    Parameters
    ----------
    a : 2-D array (real or complex)
    Q : float or (Q0, Q1) -- oversampling per axis (axis 0, axis 1); must be > 0
    out : int or (Nb, Mb) -- output rows, columns
    shift : (sx, sy) in output samples; sx acts on axis 1, sy on axis 0
    fwd : True -> exp(-i...), False -> exp(+i...)

    Returns
    -------
    complex128 array of shape (Nb, Mb)
    """
    a = np.asarray(a)
    Ey, Ex, norm = ref_dft_axes(a, Q, out, shift, fwd)
    return (Ey @ a.astype(np.complex128) @ Ex) * norm


def origin_pad(a, out_shape, value=0):
    """Embed ``a`` in an array of ``out_shape`` so that origin (index n//2) maps to origin.

    Independent five-line placement (does not use prysm.fttools.pad2d).
    """
    a = np.asarray(a)
    N, M = (int(n) for n in pair(out_shape))
    n, m = a.shape
    if N < n or M < m:
        raise ValueError('origin_pad cannot shrink')
    out = np.full((N, M), value, dtype=a.dtype)
    r0 = N // 2 - n // 2
    c0 = M // 2 - m // 2
    out[r0:r0 + n, c0:c0 + m] = a
    return out


def origin_crop(a, out_shape):
    """Central crop so that origin (index n//2) maps to origin (inverse of origin_pad)."""
    a = np.asarray(a)
    N, M = a.shape
    n, m = (int(v) for v in pair(out_shape))
    if n > N or m > M:
        raise ValueError('origin_crop cannot grow')
    r0 = N // 2 - n // 2
    c0 = M // 2 - m // 2
    return a[r0:r0 + n, c0:c0 + m]
