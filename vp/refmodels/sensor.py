"""Independent reference models for C16 (no prysm import): noise-free exposure, block binning, tiling, Bayer sites."""
import itertools

import numpy as np


def expose_ref(img, t, dark, bias, fwc, gain, bits, prnu=None, dcnu=None, delta=1e-12):
    """Noise-free exposure of `img` [e-/s].

    Returns (lo, hi, v, x): integer DN bounds (lo <= DN <= hi, they differ only where the real-valued ADC input is
    within `delta` relative of an integer), the unclipped real DN value v = min(x, fwc)/gain and the electrons x.
    """
    img = np.asarray(img, dtype=float)
    d = float(dark) * float(t)
    if dcnu is not None:
        d = d * np.asarray(dcnu, dtype=float).reshape(img.shape)
    e = img * float(t) + d
    if prnu is not None:
        e = e * np.asarray(prnu, dtype=float).reshape(img.shape)
    x = e + float(bias)
    xc = np.minimum(x, float(fwc))
    v = xc / float(gain)
    cap = float(2 ** int(bits) - 1)
    eps = delta * np.abs(v) + 1e-300
    lo = np.floor(np.clip(v - eps, 0.0, cap))
    hi = np.floor(np.clip(v + eps, 0.0, cap))
    return lo.astype(np.int64), hi.astype(np.int64), v, x


def container(bits):
    return np.uint8 if bits <= 8 else np.uint16 if bits <= 16 else np.uint32


def bin_sum_ref(a, factor):
    """Block sums by explicit strided accumulation (no reshape trick)."""
    a = np.asarray(a)
    out = None
    for offs in itertools.product(*[range(f) for f in factor]):
        sl = tuple(slice(o, None, f) for o, f in zip(offs, factor))
        out = a[sl].astype(float) if out is None else out + a[sl]
    return out


def tile_ref(y, factor):
    out = np.asarray(y)
    for ax, f in enumerate(factor):
        out = np.repeat(out, f, axis=ax)
    return out


# colour -> (row offset, column offset) of its native site in the 2x2 cell
SITES = {
    'rggb': {'r': (0, 0), 'g1': (0, 1), 'g2': (1, 0), 'b': (1, 1)},
    'bggr': {'b': (0, 0), 'g1': (0, 1), 'g2': (1, 0), 'r': (1, 1)},
}


def site(img, cfa, colour):
    r0, c0 = SITES[cfa][colour]
    return img[r0::2, c0::2]
