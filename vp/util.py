"""Helpers that touch prysm global state (always restored)."""
import contextlib


@contextlib.contextmanager
def precision(bits):
    from prysm.conf import config
    import numpy as np
    old = 32 if config.precision is np.float32 else 64
    config.precision = bits
    try:
        yield
    finally:
        config.precision = old


@contextlib.contextmanager
def fft_backend(module):
    """Swap prysm's FFT backend (prysm.mathops.fft._srcmodule, the documented mechanism) and restore it."""
    from prysm import mathops
    old = mathops.fft._srcmodule
    mathops.fft._srcmodule = module
    try:
        yield
    finally:
        mathops.fft._srcmodule = old
