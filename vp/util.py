"""Helpers that touch prysm global state (always restored)."""
import contextlib


@contextlib.contextmanager
def precision(bits):
    from prysm.conf import config
    import numpy as np
    old = 32 if config.precision is np.float32 else 64
    config.precision = bits
    try:
        yield
    finally:
        config.precision = old
