"""Shared workload helpers of the hardening pass for the polynomial properties C07-C10.

Nothing in here is an oracle: these are *drivers* for the blind-spot classes of HARDENING.md

  A  repeat / aliasing     memory layouts of coordinate / data / mode arrays, containers of order lists and coefficient vectors
  B  histories             opportunistic reset of the memoised recurrence coefficients so that a history starts from a known state
  C  configuration         quiet float32 warm-up under ``config.precision = 32`` (the 32 -> 64 switch inside one process)

prysm is imported lazily (the module is imported by the property modules inside a worker process).
"""
import sys

import numpy as np

from .contracts import quiet
from .util import precision


def cfg32():
    """Is prysm configured for single precision right now?"""
    from prysm.conf import config
    return config.precision is np.float32 or config.precision == np.float32


def clear_caches():
    """Opportunistically empty every memoised helper of prysm.polynomials (anything exposing ``cache_clear``).

    Emptying a memo table can never change what a correct library returns, so this is not an intervention on the property;
    it only makes the *start* of a history well defined (a table keyed without one of its inputs, or holding values typed by
    a configuration that has since changed, is then re-filled by the history that follows).  Returns how many were cleared."""
    n = 0
    for name, mod in list(sys.modules.items()):
        if mod is None or not name.startswith('prysm.polynomials'):
            continue
        for v in list(vars(mod).values()):
            f = getattr(v, '__vp_original__', v)
            cc = getattr(f, 'cache_clear', None)
            if callable(cc) and getattr(f, '__module__', '').startswith('prysm'):
                try:
                    cc()
                    n += 1
                except Exception:  # noqa
                    pass
    return n


def warm32(*thunks):
    """Run the thunks under ``config.precision = 32``, unmonitored and unjudged (a float32 session that precedes the float64
    one in the same process).  An exception is swallowed: the judged single-precision classes are elsewhere."""
    bad = 0
    with precision(32), quiet(), np.errstate(all='ignore'):
        for t in thunks:
            try:
                t()
            except Exception:  # noqa
                bad += 1
    return bad


# ------------------------------------------------------------------------------------------ memory layouts
def layouts(a, full=True):
    """(label, array) variants equal in value (and dtype) to ``a`` but laid out differently in memory.

    C-contiguous, Fortran-contiguous, transposed view of a C array, every-other-element slice of a larger array, window
    of a larger array (row gaps), reversed-stride view.  1-D arrays get the strided / reversed / window variants."""
    a = np.asarray(a)
    out = [('C', np.ascontiguousarray(a).copy())]
    if a.ndim == 0:
        return out
    if a.ndim >= 2:
        out.append(('F', np.asfortranarray(a).copy(order='F')))
        tv = np.ascontiguousarray(a.T).T            # a view with Fortran strides that does not own its data
        out.append(('T-view', tv))
    big = np.full(tuple(2 * s for s in a.shape), np.nan, dtype=a.dtype) if a.dtype.kind == 'f' else np.zeros(tuple(2 * s for s in a.shape), dtype=a.dtype)
    sl = tuple(slice(None, None, 2) for _ in a.shape)
    big[sl] = a
    out.append(('strided', big[sl]))
    if full:
        pad = np.full(tuple(s + 2 for s in a.shape), np.nan, dtype=a.dtype) if a.dtype.kind == 'f' else np.zeros(tuple(s + 2 for s in a.shape), dtype=a.dtype)
        win = tuple(slice(1, 1 + s) for s in a.shape)
        pad[win] = a
        out.append(('window', pad[win]))
        rev = tuple(slice(None, None, -1) for _ in a.shape)
        out.append(('reversed-strides', np.ascontiguousarray(a[rev])[rev]))
    for lab, v in out:
        assert v.shape == a.shape and v.dtype == a.dtype and np.array_equal(v, a, equal_nan=a.dtype.kind == 'f'), lab
    return out


def stack_layouts(M):
    """(label, object) variants of a (k, *shape) stack of modes: C array, Fortran array, mode axis moved from the back (a view
    with the mode stride smallest), list of C arrays, list of Fortran arrays, list of transposed views, tuple of arrays."""
    M = np.asarray(M)
    out = [('ndarray-C', np.ascontiguousarray(M).copy()), ('ndarray-F', np.asfortranarray(M).copy(order='F')),
           ('ndarray-modes-last-view', np.moveaxis(np.ascontiguousarray(np.moveaxis(M, 0, -1)), -1, 0)),
           ('list-C', [np.ascontiguousarray(m).copy() for m in M]),
           ('list-F', [np.asfortranarray(m).copy(order='F') for m in M]),
           ('tuple-C', tuple(np.ascontiguousarray(m).copy() for m in M))]
    if M.ndim >= 3:
        out.append(('list-T-view', [np.ascontiguousarray(m.T).T for m in M]))
    return out


def is_c_contig(a):
    return (not isinstance(a, np.ndarray)) or a.ndim == 0 or a.flags.c_contiguous


def contig(a):
    """C-contiguous private copy of an ndarray (anything else is returned unchanged)."""
    return np.array(a, order='C', copy=True) if isinstance(a, np.ndarray) else a


# ------------------------------------------------------------------------------------------ containers
def order_containers(ns):
    """(label, object) containers for an ascending list of orders."""
    ns = [int(n) for n in ns]
    out = [('list', list(ns)), ('tuple', tuple(ns)), ('ndarray-int64', np.array(ns, dtype=np.int64)),
           ('ndarray-int32', np.array(ns, dtype=np.int32)), ('list-of-numpy-ints', [np.int64(n) for n in ns])]
    if ns == list(range(ns[0], ns[-1] + 1)):
        out.append(('range', range(ns[0], ns[-1] + 1)))
    return out


def coef_containers(c, include_low_precision=True):
    """(label, object, exact) containers for a coefficient vector; exact=False when the container itself rounds the values
    (float32), so that the caller judges at single-precision tolerance."""
    c = [float(v) for v in c]
    out = [('list', list(c), True), ('tuple', tuple(c), True), ('ndarray-f64', np.array(c, dtype=np.float64), True),
           ('list-of-numpy-floats', [np.float64(v) for v in c], True),
           ('ndarray-f64-strided', np.repeat(np.array(c, dtype=np.float64), 2)[::2], True)]
    if include_low_precision:
        out.append(('ndarray-f32', np.array(c, dtype=np.float32), False))
    return out


# ====================================================================================================================
# Hardening pass 2 (HARDENING2.md): class D in the quick tier, class E (argument forms) as DATA, class F (foreign traffic)
# ====================================================================================================================
# ------------------------------------------------------------------------------------------ class D: very high orders
# 171! > 1.8e308: any closed form built from n!, Gamma(n+1) or Pochhammer symbols leaves double precision at n = 171 although the
# polynomial values themselves (recurrences) stay O(1)..O(n^2).  A handful of orders at and beyond that line, for every family.
HIGH_ORDERS = (171, 172, 200, 256, 400)


def high_orders(fam, thorough=False):
    """The orders of HIGH_ORDERS that are numerically meaningful for a family on its workload interval (measured on
    /repo @ faa8443: every single-order routine agrees with the exact definition to <= 7e-13 of scale up to n = 400; the Hermite
    VALUES leave double precision between n = 256 (5e292 at |x| <= 1.75) and n = 400, so those families stop at 200)."""
    if fam.startswith('hermite'):
        return (171, 172, 200)
    return HIGH_ORDERS + ((180, 300, 350) if thorough else ())


# ------------------------------------------------------------------------------------------ class E: argument forms (data)
# How this table was established (2026-09-27, /repo @ faa8443, scripts recon/h2_forms.py, recon/h2_forms2.py, recon/h2_orders.py):
# every public routine of C07-C10 was called with each form below and with the canonical form (python int orders, python float
# shape parameters, float64 ndarray coordinates / coefficient lists) of the same mathematical input; a form is listed as accepted
# when the current tree returns the canonical result (1e-12 of scale; single-precision forms: 1e-6).  Forms for which the current
# tree raises, truncates into an integer dtype, or wraps around are OUT OF DOMAIN (excluded and counted where a contract meets them).
#
# orders of the one-index families (single-order AND sequence forms, value AND derivative routines): all of these are accepted.
ORDER_FORMS = [('pyint', int), ('int64', np.int64), ('int32', np.int32), ('uint32', np.uint32), ('uint64', np.uint64), ('intp', np.intp)]
# (8/16-bit numpy integers: out of domain by an earlier ruling - their own arithmetic overflows.)
# (0-d integer ARRAYS as orders - np.array(5) - are evaluated like python ints by every routine today, but they are unhashable: a property-
#  preserving refactor that keys a memo table / set / dict by the order raises TypeError for them (the false-alarm probes benign/C07 R, C08 Q, R and
#  C09 R do exactly that).  They are therefore OUT OF DOMAIN as orders, alone or inside lists, for every family: not driven, not judged.)
# (n, m) of zernike_nm / zernike_nm_der / Q2d / xy / hopkins: signed forms for both indices; an UNSIGNED m makes zernike_nm_der, Q2d,
# Q2d_seq and zernike_nm_der_seq wrong today (-m wraps) and zernike_nm_seq raise for uint64: unsigned is accepted for n only, with a
# signed m, in the single-order forms.
NM_FORMS = [('int64', np.int64), ('int32', np.int32), ('intp', np.intp)]
N_ONLY_FORMS = [('uint32', np.uint32), ('uint64', np.uint64)]
# containers of an ascending order list (one-index *_seq): list, tuple, int64 / int32 / uint32 / uint64 ndarray, list of numpy ints, range,
# dict keys view; a dict keys view or a one-shot generator / iterator is accepted by every routine except cheby2(_der)_seq and cheby4(_der)_seq
# (np.asarray(ns) makes a 0-d object array of them: TypeError today, out of domain).
GENERATOR_REJECTED = ('cheby2_seq', 'cheby2_der_seq', 'cheby4_seq', 'cheby4_der_seq')
# containers of a list of (n, m) terms (zernike_nm_seq, zernike_nm_der_seq, Q2d_seq, xy_seq): list / tuple of tuples or lists, (k, 2) integer
# ndarray (int64, int32), dict keys view; generators / iterators raise TypeError (len()) today: out of domain.  Q2d_nm_c_to_a_b accepts all of
# these and generators for both of its arguments.
# shape parameters alpha, beta (jacobi*, laguerre*, dickson*, jacobi_sum_clenshaw*): python float, numpy float64, numpy float32 (single-
# precision class), python int and numpy int64 for integer values, fractions.Fraction; 0-d arrays raise (unhashable): out of domain.
PARAM_FORMS = [('pyfloat', float, True), ('float64', np.float64, True), ('float32', np.float32, False)]      # (label, maker, exact)
INT_PARAM_FORMS = [('pyint', int, True), ('np-int64', np.int64, True)]                                        # integer-valued parameters only


def order_forms(quick=True):
    return ORDER_FORMS


def more_order_containers(ns, fn=None):
    """(label, factory) containers of an ascending order list beyond polyhard.order_containers: unsigned ndarrays, 0-d entries, dict
    keys view, one-shot generator / iterator (factories: a generator can be consumed once)."""
    ns = [int(n) for n in ns]
    out = [('ndarray-uint32', lambda: np.array(ns, dtype=np.uint32)), ('ndarray-uint64', lambda: np.array(ns, dtype=np.uint64)),
           ('list-of-uint64', lambda: [np.uint64(n) for n in ns]), ('list-of-mixed-signed-ints', lambda: [(int, np.int32, np.int64, np.intp)[i % 4](n) for i, n in enumerate(ns)])]     # (mixing uint64 with signed integers makes np.asarray produce float64: numpy's nature, out of domain)
    if fn not in GENERATOR_REJECTED:
        out += [('dict-keys', lambda: dict.fromkeys(ns).keys()), ('generator', lambda: (n for n in ns)), ('iterator', lambda: iter(ns))]
    return out


def term_containers(terms, fn=None):
    """(label, object) containers of a list of two-index terms accepted by zernike_nm(_der)_seq, Q2d_seq and xy_seq (xy_seq runs
    np.asarray(mns): a dict keys view raises there today and is out of domain)."""
    terms = [(int(a), int(b)) for a, b in terms]
    out = _term_containers(terms)
    return [e for e in out if not (fn == 'xy_seq' and e[0] == 'dict-keys')]


def _term_containers(terms):
    return [('list-of-tuples', [tuple(e) for e in terms]), ('list-of-lists', [list(e) for e in terms]), ('tuple-of-tuples', tuple(tuple(e) for e in terms)),
            ('ndarray-int64', np.array(terms, dtype=np.int64)), ('ndarray-int32', np.array(terms, dtype=np.int32)),
            ('list-of-numpy-int-pairs', [(np.int64(a), np.int32(b)) for a, b in terms]), ('dict-keys', dict.fromkeys(terms).keys())]


# coordinate dtype kinds.  Single-order value and derivative routines of every one-index family (jacobi, legendre, cheby1-4, hermite_He/H,
# laguerre, dickson1/2, Qbfs, Qcon and their *_der): python int / float / complex, int64 / int32 ndarrays (any ndim), bool ndarrays,
# complex128 ndarrays, complex64 (single-precision class) are all evaluated as the same mathematical points today.  Unsigned integer
# coordinate arrays wrap in (x - 1) and are out of domain.  Sequence forms: complex coordinates are accepted by every routine; integer
# coordinates only where the routine does not allocate its result in the coordinate dtype (or the values are integers): the table below;
# everything else truncates today (out of domain; reported as an observation, not judged); python scalars raise (x.shape).
SEQ_INT_COORDS = ('hermite_He_seq', 'hermite_He_der_seq', 'hermite_H_seq', 'hermite_H_der_seq', 'Qbfs_seq', 'Qcon_seq')
SEQ_BOOL_COORDS = ('Qbfs_seq', 'Qcon_seq')
# two-coordinate routines: Q2d, xy, xy_seq, hopkins accept integer / bool (xy, hopkins also complex) coordinates; zernike_nm and
# zernike_nm_der accept an integer-typed radius only for n > |m| (the n == |m| branch multiplies ones_like(r) in place and raises
# UFuncTypeError today); zernike_nm_seq, zernike_nm_der_seq and Q2d_seq truncate.  The Clenshaw routines and the sag-and-slope evaluators
# allocate work arrays in the coordinate dtype: integer ndarrays are out of domain there, python int / float / numpy float64 / 0-d are accepted
# (numpy float32 scalars: single-precision class; lists raise).
INT_HERMITE_MAX_ORDER = 12          # Hermite polynomials of integer ndarrays are computed in int64 by single AND sequence form: keep them far from 2^63


def seq_coord_kind_ok(fn, kind):
    """Is a coordinate array of dtype kind `kind` ('f', 'c', 'i', 'u', 'b') in the domain of the one-index sequence routine fn?"""
    if kind in 'fc':
        return True
    if kind == 'i':
        return fn in SEQ_INT_COORDS
    if kind == 'b':
        return fn in SEQ_BOOL_COORDS
    return False


def int_points(lo, hi):
    """Integer evaluation points inside [lo, hi] (always contains 0 and 1 when they are in the interval)."""
    return [v for v in (-2, -1, 0, 1, 2, 3) if lo <= v <= hi]


def coord_forms(lo, hi, seq=False):
    """(label, kind, coordinates in that form, the same points as float64 / complex128 ndarray or python float / complex).
    Single-order forms include python scalars; sequence forms are ndarrays only."""
    pts = int_points(lo, hi)
    ia = np.array(pts, dtype=np.int64)
    w = hi - lo
    zr = np.array([lo + w * 0.3125, lo + w * 0.75, lo + w * 0.5625])
    zi = np.array([0.25, -0.375, 0.0]) * min(1.0, w / 2)
    z = zr + 1j * zi
    out = [('int64-1d', 'i', ia, ia.astype(float)), ('int32-1d', 'i', ia.astype(np.int32), ia.astype(float)),
           ('int64-2d', 'i', np.array([pts, pts[::-1]], dtype=np.int64), np.array([pts, pts[::-1]], dtype=float)),
           ('int64-0d', 'i', np.array(pts[-1], dtype=np.int64), np.array(float(pts[-1]))),
           ('bool-1d', 'b', np.array([False, True]), np.array([0.0, 1.0])),
           ('complex128-1d', 'c', z, z.copy()), ('complex128-2d', 'c', np.array([z, z[::-1].conj()]), np.array([z, z[::-1].conj()])),
           ('complex128-0d', 'c', np.array(z[0]), np.array(z[0])), ('complex128-real-valued', 'c', zr.astype(complex), zr.astype(complex)),
           ('complex64-1d', 'c', z.astype(np.complex64), z.astype(np.complex64).astype(complex))]
    if not seq:
        out += [(f'pyint:{v}', 'i', int(v), float(v)) for v in pts] + [('pyfloat', 'f', float(zr[0]), float(zr[0])), ('pycomplex', 'c', complex(z[0]), complex(z[0])),
                                                                      ('npint64-scalar', 'i', np.int64(pts[-1]), float(pts[-1]))]
    return out


def form_class(label):
    """Coarse class of a coordinate-form label (for violation keys: one defect, one key): integer / bool / complex / complex64 / pyfloat."""
    lab = label.split(':')[0]
    if lab.startswith(('int', 'pyint', 'npint', 'uint')):
        return 'integer'
    if lab.startswith('bool'):
        return 'bool'
    if lab.startswith('complex64'):
        return 'complex64'
    if lab.startswith(('complex', 'pycomplex')):
        return 'complex'
    return lab


# ------------------------------------------------------------------------------------------ class F: foreign traffic
def foreign_traffic(P, salt=0):
    """Class F prelude: the OTHER public consumers of the helpers shared inside prysm.polynomials (recurrence_abc, the Qbfs f/g/h and
    2D-Q F/G/f/g/abc tables, _initialize_alphas, config.precision) are exercised with hostile argument forms - numpy-typed orders and
    parameters, float64 ndarray coefficient vectors (the in-place-prone paths), config.precision = 32, explicit non-default keyword
    values, caller-provided work arrays, very high orders, few non-finite samples - unmonitored and unjudged.  Whatever the property's
    own workload does next is judged as usual.  Returns the number of thunks that raised (an event, never a verdict)."""
    import importlib
    Q = importlib.import_module('prysm.polynomials.qpoly')
    J = importlib.import_module('prysm.polynomials.jacobi')
    x = np.array([-0.8125, -0.21875, 0.34375, 0.84375])
    u = np.array([0.09375, 0.40625, 0.65625, 0.90625])
    t = np.array([0.5, 1.75, 3.0, 5.5])
    x32, u32, t32 = x.astype(np.float32), u.astype(np.float32), t.astype(np.float32)
    c = np.array([0.75, -1.25, 0.5, 0.25, -0.625, 1.5, -0.375, 0.875, 0.125])
    k = 3 + salt % 5
    f32, i32, u64 = np.float32, np.int32, np.uint64

    def helper(name, *a):
        f = getattr(J, name, None) or getattr(Q, name, None)
        return f(*a) if f is not None else None
    th32 = [lambda: P.jacobi(i32(7), f32(0.5), f32(-0.5), x32), lambda: P.jacobi_seq([0, 3, 19], f32(-0.25), f32(-0.75), x32),
            lambda: P.jacobi_der_seq(np.array([1, 2, 19]), 0, 4, x32), lambda: P.jacobi_sum_clenshaw(c.astype(f32), f32(0.25), f32(-0.25), x32),
            lambda: P.jacobi_sum_clenshaw_der(c.astype(f32), -0.5, 0.5, x32, j=3),
            lambda: [getattr(P, f'cheby{i}{s}')(19, x32) for i in '1234' for s in ('', '_der')],
            lambda: [getattr(P, f'cheby{i}{s}_seq')([0, 1, 5, 19], x32) for i in '1234' for s in ('', '_der')],
            lambda: (P.legendre(41, x32), P.legendre_seq([2, 41], x32), P.legendre_der_seq([0, 1, 41], x32)),
            lambda: (P.Qcon(9, u32), P.Qcon_seq([0, 9, 19], u32), P.Qbfs(19, u32), P.Qbfs_seq([1, 2, 41], u32)),
            lambda: (P.Q2d(5, 2, u32, t32), P.Q2d(19, -1, u32, t32), P.Q2d_seq([(5, 2), (5, -2), (7, 0), (19, 1)], u32, t32)),
            lambda: (P.zernike_nm(8, 2, u32, t32, norm=False), P.zernike_nm_seq([(8, 2), (8, -2), (41, 1)], u32, t32, norm=False), P.zernike_nm_der(9, -3, u32, t32)),
            lambda: (P.laguerre(19, f32(0.5), x32 + 1), P.laguerre_seq([0, 19], 1.5, x32 + 1), P.laguerre_der_seq([0, 1, 19], f32(0.5), x32 + 1)),
            lambda: (P.hermite_He_seq([0, 19], x32), P.hermite_H_der_seq([1, 19], x32), P.dickson1_seq([0, 19], f32(0.75), x32), P.dickson2(19, -1, x32)),
            lambda: (Q.clenshaw_qbfs(c.astype(f32), u32 * u32), Q.clenshaw_qbfs_der(c, u32 * u32, j=2), Q.compute_z_zprime_Qbfs(c, u32, u32 * u32),
                     Q.compute_z_zprime_Qcon(c.astype(f32), u32, u32 * u32), Q.compute_z_zprime_Q2d(c, [c[:4], c], [c, c[:2]], u32, t32)),
            lambda: [helper('recurrence_abc', i32(n), f32(a), f32(b)) for n in (0, 1, k, 19, 41) for a, b in ((0.5, -0.5), (-0.25, -0.75), (0, 4), (0.25, -0.25))]]
    th64 = [lambda: [helper('recurrence_abc', u64(n), np.float64(a), b) for n in (41, 19, k, 1, 0) for a, b in ((-0.5, 0.5), (-0.75, -0.25), (0.0, 0), (0.25, 0.75))],
            lambda: [helper(nm, n) for nm in ('f_qbfs', 'g_qbfs', 'h_qbfs') for n in (60, 41, k, 2, np.int64(19))],
            lambda: [helper(nm, n, m) for nm in ('F_q2d', 'G_q2d', 'f_q2d', 'g_q2d', 'abc_q2d', 'abc_q2d_clenshaw') for n in (41, k, np.int64(19)) for m in (1, 2, np.int32(3), 7)],
            lambda: (P.jacobi(u64(41), np.float64(0.25), f32(-0.25), x), P.jacobi_seq(np.array([0, 1, 2, 400], dtype=np.uint32), -0.5, -0.5, x[:2]),
                     P.jacobi_der(np.intp(19), 0, 4, x), P.cheby3_seq((n for n in (1, 171)), x), P.cheby2_der_seq(np.array([0, 200]), x[:2])),
            lambda: (P.jacobi_sum_clenshaw(c, 0, 4, x), P.jacobi_sum_clenshaw(c, -0.25, -0.75, x, alphas=np.zeros((len(c), 4))),
                     P.jacobi_sum_clenshaw_der(c, 0.25, -0.25, x, j=3), P.jacobi_sum_clenshaw_der(c[:2], -0.75, -0.25, x, j=4)),
            lambda: (Q.clenshaw_qbfs(c, u * u), Q.clenshaw_qbfs(c, u * u, alphas=np.zeros((len(c), 4))), Q.clenshaw_qbfs_der(c, u * u, j=3),
                     Q.change_basis_Qbfs_to_Pn(c), Q.compute_z_zprime_Qbfs(c, u, u * u), Q.compute_z_zprime_Qcon(c, u, u * u)),
            lambda: (Q.change_of_basis_Q2d_to_Pnm(c, 2), Q.change_of_basis_Q2d_to_Pnm(c[:4], 1), Q.clenshaw_q2d(c, 1, u * u), Q.clenshaw_q2d(c[:3], np.int64(4), u * u),
                     Q.clenshaw_q2d_der(c, 2, u * u, j=2), Q.compute_z_zprime_Q2d(c, [c[:4], c, c[:1]], [c[:1], c, c[:6]], u, t),
                     Q.compute_z_zprime_Q2d(c[:2], [c[:5]], [[]], u, t), Q.Q2d_nm_c_to_a_b(np.array([(0, 0), (2, 1), (1, -1), (0, 3), (2, -3)]), c[:5])),
            lambda: (P.zernike_nm(np.int32(41), np.int32(-3), u, t, norm=False), P.zernike_nm_seq(np.array([(4, 2), (4, -2), (60, 0), (19, 1)]), u, t, norm=False),
                     P.zernike_nm_der_seq([(3, 1), (3, -1), (8, 0)], u, t, norm=False), P.Qcon(np.uint32(41), u), P.Qcon_seq([0, 171], u[:2]),
                     P.Q2d(41, 7, u, t), P.Q2d_seq([(41, 1), (3, -7), (60, 0)], u, t), P.Qbfs_seq(range(0, 61, 20), u)),
            lambda: (P.xy_seq([(4, 0), (0, 3), (2, 2)], x, u, cartesian_grid=False), P.xy(3, 2, x, u, cartesian_grid=False), P.hopkins(-2, 3, 1, u, t, u))]

    def fit():
        X, Y = np.meshgrid(np.linspace(-1, 1, 12), np.linspace(-1, 1, 11))
        basis = np.array([np.ones(X.shape), X, Y, X * Y, X * X - Y * Y])
        data = np.tensordot(c[:5], basis, axes=(0, 0))
        data[3, 4] = np.nan
        data[7, 1] = np.inf
        P.lstsq(basis, data)
        P.lstsq(list(basis), data)
        P.sum_of_2d_modes(basis, c[:5])
        P.sum_of_2d_modes_backprop(basis, data * 0 + 1.0)
    th64.append(fit)
    bad = warm32(*th32)
    with quiet(), np.errstate(all='ignore'):
        for th in th64:
            try:
                th()
            except Exception:  # noqa
                bad += 1
    return bad


# ====================================================================================================================
# Hardening pass 3 (HARDENING3.md): class G (magnitudes), class H (special values / parameters special only up to rounding),
# class I (structural sweeps: orderings of two-index term lists, coefficient-set layouts)
# ====================================================================================================================
from fractions import Fraction as _Fr

# ------------------------------------------------------------------------------------------ class G: magnitude regimes
# coefficient / coordinate scale factors for the homogeneous routines (fast sums, Clenshaw derivative rows, the fit; x^m y^n and cos(a t) r^b H^c in their
# coordinates).  Deliberately NOT powers of two, so that s * c is rounded like any other user input.
SCALES = (1e-12, 1e-9, 1e-6, 1e-3, 1e3, 1e6, 1e9, 1e12)


def scales(quick=True):
    return (1e-12, 1e-9, 1e-3, 1e6, 1e12) if quick else SCALES + (1e-15, 3e-11, 7e10, 1e15)


# ------------------------------------------------------------------------------------------ class H: special only up to rounding
def ulps(v, k):
    """v moved by k units in the last place (k < 0: towards -inf)."""
    v = float(v)
    for _ in range(abs(int(k))):
        v = float(np.nextafter(v, np.inf if k > 0 else -np.inf))
    return v


NEAR = _Fr(1, 2 ** 26)          # "special up to rounding": within 2^-26 (1.5e-8) of a special line, not on it (an ordinary parameter is never that close unless it was meant to be ON the line)


def _near(q, target=0):
    d = abs(q - target)
    return 0 < d <= NEAR


def special_class(params):
    """Static class of shape parameters that are special only UP TO ROUNDING, decided in exact rational arithmetic on the floats' values:
       two parameters (Jacobi):  'alpha+beta~0', 'alpha+beta~-1', 'alpha~beta', 'alpha~k/2' / 'beta~k/2' (within 2^-26 of an integer or half-integer, incl. 0)
       one parameter (Laguerre, Dickson):  'alpha~k/2'
    Returns (label, the exactly special neighbour parameters) or None.  The neighbour is a float tuple lying exactly ON the special line / value."""
    try:
        q = [_Fr(float(p)) for p in params]
    except (TypeError, ValueError, OverflowError):
        return None
    if len(q) == 2:
        a, b = q
        fa, fb = float(params[0]), float(params[1])
        if _near(a + b, 0):
            return 'alpha+beta~0', ((fa, -fa) if abs(fa) < 1 else (-fb, fb))
        if _near(a + b, -1):
            # a float pair lying exactly on the line: b' = fl(-1 - a), a' = fl(-1 - b') (exact as soon as the partner has the coarser spacing)
            ca, cb = fa, fb
            for _ in range(3):
                cb = float(-1 - _Fr(ca))
                if _Fr(ca) + _Fr(cb) == -1:
                    break
                ca = float(-1 - _Fr(cb))
                if _Fr(ca) + _Fr(cb) == -1:
                    break
            ok = _Fr(ca) + _Fr(cb) == -1 and min(ca, cb) > -1
            return 'alpha+beta~-1', ((ca, cb) if ok else None)
        if _near(a - b, 0):
            return 'alpha~beta', (fa, fa)
    for i, v in enumerate(q):
        k2 = round(v * 2)
        if _near(v, _Fr(k2, 2)):
            nb = [float(p) for p in params]
            nb[i] = k2 / 2
            name = ('alpha', 'beta')[i] if len(q) == 2 else 'alpha'
            return f'{name}~k/2', (tuple(nb) if min(nb) > -1 or len(q) == 1 else None)
    return None


def near_special_jacobi(thorough=False):
    """(class label, (alpha, beta), exactly-special neighbour or None) - legal Jacobi parameters (both > -1) that are special only up to rounding: the kind of
    value that comes out of arithmetic on user inputs (0.1 + 0.2, 1 - 2/3, a +- 1 ulp), on every special line of the quantifier (alpha + beta in {0, -1}, the
    Chebyshev half-integers, Legendre (0, 0), (0, 4), alpha = beta) and at the boundary alpha -> -1."""
    r3 = 0.1 + 0.2                 # 0.30000000000000004
    out = [('alpha+beta~0', (r3, -0.3)), ('alpha+beta~0', (1 / 3, -(1 - 2 / 3))), ('alpha+beta~0', (-0.3, r3)), ('alpha+beta~0', (0.7 - 0.4, -0.3)),
           ('alpha+beta~0', (ulps(0.5, 1), -0.5)), ('alpha+beta~0', (-0.5, ulps(0.5, -1))), ('alpha+beta~0', (1e-17, 0.0)), ('alpha+beta~0', (0.0, -2.0 ** -60)),
           ('alpha+beta~0', (0.875, ulps(-0.875, 1))), ('alpha+beta~0', (ulps(0.25, -2), -0.25)),
           ('alpha+beta~-1', (-0.25, ulps(-0.75, 1))), ('alpha+beta~-1', (-0.25, ulps(-0.75, -2))), ('alpha+beta~-1', (ulps(-0.25, 1), -0.75)),
           ('alpha+beta~-1', (ulps(-0.5, 1), -0.5)), ('alpha+beta~-1', (-0.5, ulps(-0.5, -1))), ('alpha+beta~-1', (-0.1 - 0.2, -0.7)), ('alpha+beta~-1', (-0.875, ulps(-0.125, 1))),
           ('alpha+beta~-1', (ulps(-0.7, 1), -0.3)),
           ('alpha~beta', (0.3, r3)), ('alpha~beta', (ulps(0.5, 1), 0.5)), ('alpha~beta', (1.5, ulps(1.5, -1))), ('alpha~beta', (ulps(-0.5, -1), -0.5)),
           ('parameter~k/2', (0.0, ulps(4.0, 1))), ('parameter~k/2', (2.0 ** -52, 4.0)), ('parameter~k/2', (ulps(1.0, -1), 0.0)), ('parameter~k/2', (0.0, ulps(1.0, 1))),
           ('parameter~k/2', (2.0, ulps(3.0, -1))), ('parameter~k/2', (ulps(-0.5, 1), ulps(0.5, -1))), ('parameter~k/2', (ulps(1.5, 1), -0.5)), ('parameter~k/2', (2.5, ulps(0.0, 1))),
           ('alpha~-1', (ulps(-1.0, 1), 0.0)), ('alpha~-1', (0.25, ulps(-1.0, 1))), ('alpha~-1', (ulps(-1.0, 1), 2.5))]
    # (BOTH parameters within rounding of -1 is the corner where the family degenerates - alpha + beta + 2 -> 0, h_1 has a pole - and the three-term recurrence divides by
    #  alpha + beta + 2: beyond the numerically meaningful limit, not driven)
    if thorough:
        for a0, b0 in ((0.3, -0.3), (0.625, -0.625), (-0.25, -0.75), (-0.6, -0.4), (0.5, 0.5), (0.0, 0.0), (0.0, 4.0), (-0.5, 0.5)):
            for ka, kb in ((1, 0), (-1, 0), (0, 1), (0, -1), (1, 1), (2, -1), (-3, 0), (0, 3)):
                a, b = ulps(a0, ka), ulps(b0, kb)
                if min(a, b) > -1:
                    out.append(('ulp-neighbourhood', (a, b)))
    res = []
    for cls, ab in out:
        sc = special_class(ab)
        res.append((cls, ab, sc[1] if sc else None))
    return res


# alpha or beta EXACTLY 0, -1/2, 1/2 (and integer partners), and clearly generic neighbours of the special lines
EXACT_SPECIAL_JACOBI = [(0.0, 0.5), (0.5, 0.0), (-0.5, 0.0), (0.0, -0.5), (1.0, -0.5), (0.0, 1.5), (-0.5, 2.0), (0.5, 0.5), (-0.5, -0.5), (0.0, 0.0), (0.5, -0.5), (-0.5, 0.5),
                        (0.3, -0.3), (-0.25, -0.75), (1 / 3, -1 / 3), (-0.3, -0.7)]
GENERIC_NEIGHBOURS_JACOBI = [(0.3 + 1e-6, -0.3), (0.3, -0.3 - 1e-9), (-0.25 + 1e-7, -0.75), (-0.5 + 1e-5, -0.5), (1e-4, 0.0), (0.5, 0.5 + 1e-8)]


def near_special_scalar(specials, lower=None, thorough=False):
    """(class label, alpha, exactly-special neighbour) - one shape parameter within a few ulp of a special value (0, +-1/2, integers); `lower`: exclusive lower bound."""
    out = []
    for s in specials:
        cands = [ulps(s, 1), ulps(s, -1), ulps(s, 3)] + ([s + 1e-17, s - 2.0 ** -60] if s == 0 else []) + ([ulps(s, -2), ulps(s, 7)] if thorough else [])
        for v in cands:
            if lower is None or v > lower:
                out.append(('alpha~k/2', v, float(s)))
    return out


# ------------------------------------------------------------------------------------------ class I: orderings and layouts
def term_orderings(terms, rng, nshuffle=3):
    """(label, list) every structurally different ordering of a list of two-index terms (n, m): ascending, descending, grouped by |m| ascending / descending in n,
    grouped by |m| with n NON-ascending inside each group and the groups interleaved, signs alternating, m-major, shuffles."""
    t = [tuple(int(v) for v in e) for e in terms]
    out = [('ascending', sorted(t)), ('descending', sorted(t, reverse=True)),
           ('by-|m|-then-n-ascending', sorted(t, key=lambda e: (abs(e[1]), e[0], e[1]))),
           ('by-|m|-then-n-descending', sorted(t, key=lambda e: (abs(e[1]), -e[0], e[1]))),
           ('by-|m|-descending-n-descending', sorted(t, key=lambda e: (-abs(e[1]), -e[0], -e[1]))),
           ('m-major-n-descending', sorted(t, key=lambda e: (e[1], -e[0]))),
           ('n-descending-m-ascending', sorted(t, key=lambda e: (-e[0], e[1]))),
           ('sine-terms-first', sorted(t, key=lambda e: (e[1] >= 0, e[0], abs(e[1]))))]
    # per-|m| non-ascending: inside each |m| group the radial orders go high, low, middle ...; the groups are dealt round-robin
    groups = {}
    for e in sorted(t):
        groups.setdefault(abs(e[1]), []).append(e)
    zig = []
    for g in groups.values():
        g = g[::-1]
        zig.append(g[::2] + g[1::2][::-1])
    rr = []
    while any(zig):
        for g in zig:
            if g:
                rr.append(g.pop(0))
    out.append(('per-|m|-non-ascending-interleaved', rr))
    for i in range(nshuffle):
        out.append((f'shuffled', [t[j] for j in rng.permutation(len(t))]))
    seen, res = set(), []
    for lab, o in out:
        if tuple(o) not in seen:
            seen.add(tuple(o))
            res.append((lab, o))
    return res


def layout_patterns(slots=5):
    """Every pattern of 'empty' / 'len1' / 'lenk' over `slots` coefficient lists (m = 0 .. slots-1): 3^slots tuples of 'e', '1', 'k'."""
    import itertools
    return list(itertools.product('e1k', repeat=slots))
