"""Shared workload helpers of the hardening pass for the polynomial properties C07-C10.

Nothing in here is an oracle: these are *drivers* for the blind-spot classes of HARDENING.md

  A  repeat / aliasing     memory layouts of coordinate / data / mode arrays, containers of order lists and coefficient vectors
  B  histories             opportunistic reset of the memoised recurrence coefficients so that a history starts from a known state
  C  configuration         quiet float32 warm-up under ``config.precision = 32`` (the 32 -> 64 switch inside one process)

prysm is imported lazily (the module is imported by the property modules inside a worker process).
"""
import sys

import numpy as np

from .contracts import quiet
from .util import precision


def cfg32():
    """Is prysm configured for single precision right now?"""
    from prysm.conf import config
    return config.precision is np.float32 or config.precision == np.float32


def clear_caches():
    """Opportunistically empty every memoised helper of prysm.polynomials (anything exposing ``cache_clear``).

    Emptying a memo table can never change what a correct library returns, so this is not an intervention on the property;
    it only makes the *start* of a history well defined (a table keyed without one of its inputs, or holding values typed by
    a configuration that has since changed, is then re-filled by the history that follows).  Returns how many were cleared."""
    n = 0
    for name, mod in list(sys.modules.items()):
        if mod is None or not name.startswith('prysm.polynomials'):
            continue
        for v in list(vars(mod).values()):
            f = getattr(v, '__vp_original__', v)
            cc = getattr(f, 'cache_clear', None)
            if callable(cc) and getattr(f, '__module__', '').startswith('prysm'):
                try:
                    cc()
                    n += 1
                except Exception:  # noqa
                    pass
    return n


def warm32(*thunks):
    """Run the thunks under ``config.precision = 32``, unmonitored and unjudged (a float32 session that precedes the float64
    one in the same process).  An exception is swallowed: the judged single-precision classes are elsewhere."""
    bad = 0
    with precision(32), quiet(), np.errstate(all='ignore'):
        for t in thunks:
            try:
                t()
            except Exception:  # noqa
                bad += 1
    return bad


# ------------------------------------------------------------------------------------------ memory layouts
def layouts(a, full=True):
    """(label, array) variants equal in value (and dtype) to ``a`` but laid out differently in memory.

    C-contiguous, Fortran-contiguous, transposed view of a C array, every-other-element slice of a larger array, window
    of a larger array (row gaps), reversed-stride view.  1-D arrays get the strided / reversed / window variants."""
    a = np.asarray(a)
    out = [('C', np.ascontiguousarray(a).copy())]
    if a.ndim == 0:
        return out
    if a.ndim >= 2:
        out.append(('F', np.asfortranarray(a).copy(order='F')))
        tv = np.ascontiguousarray(a.T).T            # a view with Fortran strides that does not own its data
        out.append(('T-view', tv))
    big = np.full(tuple(2 * s for s in a.shape), np.nan, dtype=a.dtype) if a.dtype.kind == 'f' else np.zeros(tuple(2 * s for s in a.shape), dtype=a.dtype)
    sl = tuple(slice(None, None, 2) for _ in a.shape)
    big[sl] = a
    out.append(('strided', big[sl]))
    if full:
        pad = np.full(tuple(s + 2 for s in a.shape), np.nan, dtype=a.dtype) if a.dtype.kind == 'f' else np.zeros(tuple(s + 2 for s in a.shape), dtype=a.dtype)
        win = tuple(slice(1, 1 + s) for s in a.shape)
        pad[win] = a
        out.append(('window', pad[win]))
        rev = tuple(slice(None, None, -1) for _ in a.shape)
        out.append(('reversed-strides', np.ascontiguousarray(a[rev])[rev]))
    for lab, v in out:
        assert v.shape == a.shape and v.dtype == a.dtype and np.array_equal(v, a, equal_nan=a.dtype.kind == 'f'), lab
    return out


def stack_layouts(M):
    """(label, object) variants of a (k, *shape) stack of modes: C array, Fortran array, mode axis moved from the back (a view
    with the mode stride smallest), list of C arrays, list of Fortran arrays, list of transposed views, tuple of arrays."""
    M = np.asarray(M)
    out = [('ndarray-C', np.ascontiguousarray(M).copy()), ('ndarray-F', np.asfortranarray(M).copy(order='F')),
           ('ndarray-modes-last-view', np.moveaxis(np.ascontiguousarray(np.moveaxis(M, 0, -1)), -1, 0)),
           ('list-C', [np.ascontiguousarray(m).copy() for m in M]),
           ('list-F', [np.asfortranarray(m).copy(order='F') for m in M]),
           ('tuple-C', tuple(np.ascontiguousarray(m).copy() for m in M))]
    if M.ndim >= 3:
        out.append(('list-T-view', [np.ascontiguousarray(m.T).T for m in M]))
    return out


def is_c_contig(a):
    return (not isinstance(a, np.ndarray)) or a.ndim == 0 or a.flags.c_contiguous


def contig(a):
    """C-contiguous private copy of an ndarray (anything else is returned unchanged)."""
    return np.array(a, order='C', copy=True) if isinstance(a, np.ndarray) else a


# ------------------------------------------------------------------------------------------ containers
def order_containers(ns):
    """(label, object) containers for an ascending list of orders."""
    ns = [int(n) for n in ns]
    out = [('list', list(ns)), ('tuple', tuple(ns)), ('ndarray-int64', np.array(ns, dtype=np.int64)),
           ('ndarray-int32', np.array(ns, dtype=np.int32)), ('list-of-numpy-ints', [np.int64(n) for n in ns])]
    if ns == list(range(ns[0], ns[-1] + 1)):
        out.append(('range', range(ns[0], ns[-1] + 1)))
    return out


def coef_containers(c, include_low_precision=True):
    """(label, object, exact) containers for a coefficient vector; exact=False when the container itself rounds the values
    (float32), so that the caller judges at single-precision tolerance."""
    c = [float(v) for v in c]
    out = [('list', list(c), True), ('tuple', tuple(c), True), ('ndarray-f64', np.array(c, dtype=np.float64), True),
           ('list-of-numpy-floats', [np.float64(v) for v in c], True),
           ('ndarray-f64-strided', np.repeat(np.array(c, dtype=np.float64), 2)[::2], True)]
    if include_low_precision:
        out.append(('ndarray-f32', np.array(c, dtype=np.float32), False))
    return out
