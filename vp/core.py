"""Core of the runtime-monitoring framework: run context, verdict bookkeeping, tolerances.

A property module (vp/props/cNN.py) drives real prysm code and reports to a `Ctx`:

    ctx.case(desc)                      one generated case (descriptor = small JSON dict)
    ctx.observe('monitor-name')         one evaluation of a deciding monitor
    ctx.violation(key, what, desc, ..)  an observed refutation, keyed by mechanism (class labels only)
    ctx.skip('reason')                  a case excluded (out of domain / ill-conditioned), counted
    with ctx.guard(key, desc): ...      an exception escaping prysm on an in-domain input is a violation

Nothing in here imports prysm.
"""
import contextlib
import hashlib
import json
import math
import os
import time
import traceback

import numpy as np

REPO = os.environ.get('VERIF_REPO', '/repo')
VERIF = os.path.dirname(os.path.dirname(os.path.abspath(__file__)))


def _jsonable(o):
    if isinstance(o, dict):
        return {str(k): _jsonable(v) for k, v in o.items()}
    if isinstance(o, (list, tuple)):
        return [_jsonable(v) for v in o]
    if isinstance(o, (np.integer,)):
        return int(o)
    if isinstance(o, (np.floating,)):
        o = float(o)
    if isinstance(o, float):
        if math.isnan(o):
            return 'nan'
        if math.isinf(o):
            return 'inf' if o > 0 else '-inf'
        return o
    if isinstance(o, (np.bool_,)):
        return bool(o)
    if isinstance(o, complex) or isinstance(o, np.complexfloating):
        return [float(o.real), float(o.imag)]
    if isinstance(o, np.ndarray):
        if o.size <= 64:
            return _jsonable(o.tolist())
        return {'ndarray': list(o.shape), 'dtype': str(o.dtype)}
    if o is None or isinstance(o, (str, int, bool)):
        return o
    return repr(o)


def digest(desc):
    return hashlib.blake2b(json.dumps(_jsonable(desc), sort_keys=True).encode(), digest_size=8).hexdigest()


class Ctx:
    """Per-process run context (one per worker shard)."""

    MAX_SAMPLES = 16
    MAX_WITNESS_PER_KEY = 3

    def __init__(self, pid, tier, seed, shard=0, nshards=1):
        self.pid = pid
        self.tier = tier
        self.seed = int(seed)
        self.shard = shard
        self.nshards = nshards
        self.t0 = time.time()
        self.evaluations = 0
        self.distinct = set()
        self.trivial = 0
        self.samples = []
        self._sample_classes = {}
        self.monitors = {}
        self.classes = {}
        self.skipped = {}
        self.violations = {}       # key -> {'what','count','witnesses':[...]}
        self.notes = {}
        self.exhaustive = None
        self.events = {}

    # ---- tier helpers -------------------------------------------------------------------
    @property
    def quick(self):
        return self.tier == 'quick'

    def pick(self, quick, thorough):
        return quick if self.tier == 'quick' else thorough

    def mine(self, i):
        """True when enumeration index i belongs to this shard."""
        return i % self.nshards == self.shard

    def share(self, n):
        """How many of n random cases this shard should generate."""
        base, rem = divmod(int(n), self.nshards)
        return base + (1 if self.shard < rem else 0)

    def rng(self, *labels):
        ent = [self.seed, self.shard] + [int(hashlib.blake2b(str(l).encode(), digest_size=4).hexdigest(), 16) for l in labels]
        return np.random.default_rng(ent)

    def subseed(self, rng):
        return int(rng.integers(0, 2**31 - 1))

    # ---- bookkeeping --------------------------------------------------------------------
    def case(self, desc, nontrivial=True, cls=None):
        self.evaluations += 1
        if nontrivial:
            self.distinct.add(digest(desc))
        else:
            self.trivial += 1
        c = cls if cls is not None else (desc.get('class') if isinstance(desc, dict) else None)
        if c is not None:
            c = str(c)
            self.classes[c] = self.classes.get(c, 0) + 1
        k = c if c is not None else '_'
        n = self._sample_classes.get(k, 0)
        if n < 1 and len(self.samples) < self.MAX_SAMPLES:
            self._sample_classes[k] = n + 1
            self.samples.append(_jsonable(desc))

    def observe(self, name, n=1):
        self.monitors[name] = self.monitors.get(name, 0) + n

    def event(self, name, n=1):
        self.events[name] = self.events.get(name, 0) + n

    def skip(self, reason, n=1):
        self.skipped[reason] = self.skipped.get(reason, 0) + n

    def note(self, k, v):
        self.notes[k] = _jsonable(v)

    def violation(self, key, what, desc=None, **detail):
        v = self.violations.setdefault(key, {'what': what, 'count': 0, 'witnesses': []})
        v['count'] += 1
        if len(v['witnesses']) < self.MAX_WITNESS_PER_KEY:
            v['witnesses'].append({'desc': _jsonable(desc), 'detail': _jsonable(detail)})

    @contextlib.contextmanager
    def guard(self, key, desc=None, what=None, allow=()):
        """An exception escaping monitored code on an in-domain input is a violation `key/raises:<Type>`.

        `allow`: exception types that are documented rejections (re-raised as Rejected, counted as skips)."""
        try:
            yield
        except Rejected:
            raise
        except allow as e:   # documented rejection
            self.skip('rejected:' + type(e).__name__)
        except Exception as e:  # noqa
            tb = traceback.extract_tb(e.__traceback__)
            where = [f'{os.path.relpath(f.filename, REPO)}:{f.lineno}:{f.name}' for f in tb if f.filename.startswith(REPO)][-3:]
            self.violation(f'{key}/raises:{type(e).__name__}', (what or key) + f' raises {type(e).__name__}: {str(e)[:160]}',
                           desc, exception=repr(e)[:300], where=where)

    # ---- comparison monitors --------------------------------------------------------
    def close(self, monitor, got, ref, key, what, desc, rtol=1e-9, atol=0.0, scale=None, modulus=False, **detail):
        """Post-condition |got-ref|_inf <= atol + rtol*scale, scale = |ref|_inf unless given.  NaN/inf where the
        reference is finite counts as infinite error.  Returns True when it held."""
        self.observe(monitor)
        got = np.asarray(got)
        ref = np.asarray(ref)
        if got.shape != ref.shape:
            self.violation(key + '/shape', what + f': shape {got.shape} != expected {ref.shape}', desc,
                           got_shape=list(got.shape), ref_shape=list(ref.shape), **detail)
            return False
        if modulus:
            got = np.abs(got)
            ref = np.abs(ref)
        if scale is None:
            fin = np.isfinite(ref)
            scale = float(np.max(np.abs(ref[fin]))) if fin.any() else 0.0
        err = max_err(got, ref)
        tol = atol + rtol * scale
        if not (err <= tol):
            self.violation(key, what, desc, err=err, tol=tol, scale=scale, **detail)
            return False
        return True

    def equal(self, monitor, got, ref, key, what, desc, **detail):
        """Exact (bitwise / integer) equality monitor, NaN == NaN."""
        self.observe(monitor)
        got = np.asarray(got)
        ref = np.asarray(ref)
        if got.shape != ref.shape:
            self.violation(key + '/shape', what + f': shape {got.shape} != expected {ref.shape}', desc, **detail)
            return False
        ok = np.array_equal(got, ref, equal_nan=True) if got.dtype.kind in 'fc' or ref.dtype.kind in 'fc' else np.array_equal(got, ref)
        if not ok:
            self.violation(key, what, desc, **detail)
        return ok

    def require(self, monitor, cond, key, what, desc, **detail):
        self.observe(monitor)
        if not cond:
            self.violation(key, what, desc, **detail)
        return bool(cond)

    # ---- result ---------------------------------------------------------------------
    def result(self):
        return {
            'pid': self.pid, 'tier': self.tier, 'seed': self.seed, 'shard': self.shard, 'nshards': self.nshards,
            'evaluations': self.evaluations, 'distinct': sorted(self.distinct), 'trivial': self.trivial,
            'samples': self.samples, 'monitors': self.monitors, 'classes': self.classes, 'skipped': self.skipped,
            'violations': self.violations, 'notes': self.notes, 'exhaustive': self.exhaustive,
            'events': self.events, 'wall_s': time.time() - self.t0,
        }


class Rejected(Exception):
    pass


def max_err(got, ref):
    """max |got-ref| where NaN/inf in got at a finite reference (or vice versa) is an infinite error and
    matching NaN positions are ignored."""
    got = np.asarray(got)
    ref = np.asarray(ref)
    if got.size == 0:
        return 0.0
    gn = ~np.isfinite(got)
    rn = ~np.isfinite(ref)
    if gn.any() or rn.any():
        if not np.array_equal(gn, rn):
            return float('inf')
        both = ~gn
        if not both.any():
            return 0.0
        return float(np.max(np.abs(got[both] - ref[both])))
    return float(np.max(np.abs(got - ref)))


def parity(n):
    return 'e' if n % 2 == 0 else 'o'


def shape_class(shape):
    shape = tuple(int(s) for s in shape)
    if len(shape) == 2:
        sq = 'sq' if shape[0] == shape[1] else 'nonsq'
        if 1 in shape:
            sq = 'line' if shape != (1, 1) else 'one'
        return f'{sq}:{parity(shape[0])}{parity(shape[1])}'
    return 'x'.join(parity(s) for s in shape)
