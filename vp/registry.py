"""Static per-property run parameters (the orchestrator never imports prysm or a property module)."""

DEFAULT = {
    'shards': {'quick': 4, 'thorough': 16},
    'timeout_s': {'quick': 900, 'thorough': 7200},   # wall-clock watchdog only: firing => inconclusive
    'level': 'exploration',
}

PROPS = {
    'C14': {'level': 'fault_enumeration'},
}


def params(pid):
    p = dict(DEFAULT)
    p.update(PROPS.get(pid, {}))
    return p
