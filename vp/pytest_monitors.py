"""pytest plugin: run the repository's own tests with the contract monitors attached (realistic call traffic).

    cd /repo && PYTHONPATH=/verif /venv/bin/python -m pytest -q -p no:cacheprovider -p vp.pytest_monitors [tests...]

Every property module that defines `install_monitors(ctx)` contributes its contracts.  At session end the
observed monitor evaluations and any violation keys are printed and written to $VP_PYTEST_OUT (JSON) if set.
A contract that fires here is either too strict or has found something the tests do not assert.
"""
import importlib
import json
import os
import pkgutil

from .core import Ctx

_ctxs = {}


def pytest_configure(config):
    import vp.props as props
    for m in pkgutil.iter_modules(props.__path__):
        try:
            mod = importlib.import_module(f'vp.props.{m.name}')
        except Exception as e:  # a property module that cannot import is simply not attached
            print(f'[vp] {m.name}: import failed: {e!r}')
            continue
        if hasattr(mod, 'install_monitors'):
            ctx = Ctx(m.name.upper(), 'quick', 0)
            try:
                mod.install_monitors(ctx)
                _ctxs[m.name.upper()] = ctx
            except Exception as e:
                print(f'[vp] {m.name}: install_monitors failed: {e!r}')


def pytest_unconfigure(config):
    from .contracts import detach_all
    detach_all()
    out = {}
    for pid, ctx in sorted(_ctxs.items()):
        r = ctx.result()
        out[pid] = {'monitors': r['monitors'], 'violations': {k: {'what': v['what'], 'count': v['count'], 'witness': v['witnesses'][:1]}
                                                               for k, v in r['violations'].items()}}
        print(f"[vp] {pid}: monitor evaluations={sum(r['monitors'].values())} violation keys={sorted(r['violations'])}")
    if os.environ.get('VP_PYTEST_OUT'):
        json.dump(out, open(os.environ['VP_PYTEST_OUT'], 'w'), indent=1)
