"""C05 -- fixed-sampling results depend on the physical field, not on its array embedding.

Metamorphic relations between observed calls of the real prysm.propagation.focus_fixed_sampling /
unfocus_fixed_sampling / to_fpm_and_back and Wavefront.to_fpm_and_back / babinet (no external model; the only
code of my own is an origin-aligned placement and array transposition):

  linearity        F(alpha a + beta b) = alpha F(a) + beta F(b)                       (complex alpha, beta)
  embedding        F(a placed origin-on-origin in a larger zero array, same dx) = F(a)  (complex when shift == 0,
                   moduli when shift != 0)
  transposition    F(a^T; output_samples and shift swapped) = F(a; ...)^T
  all-pass         to_fpm_and_back(a, ones over exactly one period of the focal plane) = a, for any mask shift
  mask-additivity  tfb(m) + tfb(1 - m) = tfb(1);  tfb(alpha m1 + beta m2) = alpha tfb(m1) + beta tfb(m2)
  babinet          Wavefront.babinet(lyot, m) = lyot * (a - tfb(1 - m)); on the exact band also = lyot * tfb(m)
"""
import math

import numpy as np

from ..core import parity

RULE = ('relation instances enumerated over classes (direction focus/unfocus x method mdft/czt x array class square '
        'even/odd, non-square, 1xN, Nx1 x output class x shift none/integer/fractional samples on either axis x relation), '
        'smallest sizes first (4..12, embeddings up to 2.5x per axis independently, any parity), random complex fields and '
        'real/complex masks, log-uniform wavelength/focal length/spacings.  Non-trivial: every array involved has >= 2 '
        'non-zero samples (1x1 never generated); distinct = distinct descriptor (relation, class, shapes, scalars, sub-seed).')
ASSUMPTIONS = ['the relations are consequences of the statement alone (linearity, independence of zero padding at fixed '
               'spacing, axis symmetry); no reference transform is used',
               'origin of an axis of length n is sample n//2 (C04) -- used by my own embedding placement',
               'exact band: mask of P x P samples with P*fpm_dx = lambda*f/dx (one full period of the sampled pupil), P >= pupil size',
               'with shift != 0 the embedding relation is required of moduli only (a pure output phase is allowed)',
               'masks are passed as arrays (the property quantifies over mask arrays)']
REQUIRED = ['linearity', 'embedding', 'transposition', 'allpass-identity', 'mask-additivity', 'mask-linearity',
            'babinet', 'babinet.exact-band']

RTOL = 1e-9


# ------------------------------------------------------------------------------------------ helpers
def case_rng(ctx, tag, k):
    return np.random.default_rng([ctx.seed, 50 + tag, int(k)])


def logu(rng, lo, hi):
    return float(math.exp(rng.uniform(math.log(lo), math.log(hi))))


def physical(rng):
    return logu(rng, 0.3, 12.0), logu(rng, 10.0, 5000.0), logu(rng, 1e-3, 1.0)


def cnormal(rng, shape):
    return rng.standard_normal(shape) + 1j * rng.standard_normal(shape)


def with_parity(n, par, lo, hi):
    n = int(min(max(n, lo), hi))
    if parity(n) != par:
        n = n + 1 if n + 1 <= hi else n - 1
    return n


ARRAY_CLASSES = ['sq:e', 'sq:o', 'nonsq', 'line:1xN', 'line:Nx1']
METHODS = ['mdft', 'czt']
SHIFTS = ['0', 'int', 'frac']


def draw_shape(rng, cls, lo, hi):
    if cls.startswith('sq'):
        n = with_parity(int(rng.integers(lo, hi + 1)), cls[-1], lo, hi)
        return (n, n)
    if cls == 'line:1xN':
        return (1, int(rng.integers(max(lo, 2), hi + 1)))
    if cls == 'line:Nx1':
        return (int(rng.integers(max(lo, 2), hi + 1)), 1)
    while True:
        s = (int(rng.integers(lo, hi + 1)), int(rng.integers(lo, hi + 1)))
        if s[0] != s[1]:
            return s


def draw_shift(rng, cls):
    """(sx, sy) in samples of the class."""
    if cls == '0':
        return (0.0, 0.0)
    which = int(rng.integers(3))
    if cls == 'int':
        v = [float(int(rng.integers(1, 5)) * (1 if rng.random() < 0.5 else -1)) for _ in range(2)]
    else:
        v = [float(np.round(rng.uniform(-3, 3), 3)) for _ in range(2)]
        v = [x if x != int(x) else x + 0.37 for x in v]
    if which == 0:
        v[1] = 0.0
    elif which == 1:
        v[0] = 0.0
    return (v[0], v[1])


def place(a, shape):
    """Origin-aligned embedding into zeros of `shape` (sample n//2 -> sample N//2 on each axis); own code."""
    out = np.zeros(shape, dtype=a.dtype)
    r0 = shape[0] // 2 - a.shape[0] // 2
    c0 = shape[1] // 2 - a.shape[1] // 2
    out[r0:r0 + a.shape[0], c0:c0 + a.shape[1]] = a
    return out


def is_sq(s):
    return s[0] == s[1]


def e2o(i, o):
    return any(a % 2 == 0 and b % 2 == 1 for a, b in zip(i, o))


def geom_label(route, method, in_shapes, out_shapes):
    """Geometry class of a relation instance from the shapes of all calls involved."""
    if route == 'focus':
        nonsq = any(not is_sq(s) for s in in_shapes)
    else:
        nonsq = any(not is_sq(s) for s in in_shapes) or any(not is_sq(s) for s in out_shapes)
    eo = method == 'czt' and any(e2o(i, o) for i in in_shapes for o in out_shapes)
    if nonsq and eo:
        return 'nonsquare+even->odd'
    if eo:
        return 'even->odd'
    return 'nonsquare' if nonsq else 'square'


def rel_key(rel, route, method, g, shifted):
    """Mechanism key of a failing embedding / transposition instance, from class labels only.

    The non-square class is keyed by route (the per-axis sampling is decided before the method dispatch and the same
    defect breaks both relations), the even->odd class exists for czt only and is route-free."""
    if 'even->odd' in g:
        return f'C05/fixed-sampling/czt/{g}'
    if g == 'nonsquare':
        return f'C05/{route}_fixed_sampling/nonsquare'
    return f'C05/{rel}/{route}/{method}/square/' + ('shift!=0' if shifted else 'shift=0')


def rel_what(rel, route, method, g):
    if 'even->odd' in g:
        ns = ' (non-square arrays)' if g.startswith('nonsquare') else ''
        return (f'fixed-sampling propagation with method=czt and an even-length axis mapped to an odd output length{ns}: '
                f'embedding-invariance / mask-and-back identity fail')
    if g == 'nonsquare':
        return (f'{route}_fixed_sampling (either method) with a non-square array involved: the output changes under zero-embedding '
                f'at the same spacing / is not transposed when input and per-axis arguments are transposed')
    text = {'embedding': 'output changes when the same field is embedded in a larger zero-padded array at the same spacing',
            'transpose': 'F(a^T, per-axis arguments swapped) != F(a)^T'}[rel]
    return f'{route}_fixed_sampling(method={method}): {text}'


RAISE_CZT_SHIFT = 'C05/fixed-sampling/czt/shift!=0'
def close(ctx, monitor, got, ref, key, what, desc, rtol=RTOL, scale=None, modulus=False, **detail):
    """ctx.close plus a by-decade histogram of the relative residual of passing comparisons (summed events)."""
    ok = ctx.close(monitor, got, ref, key, what, desc, rtol=rtol, scale=scale, modulus=modulus, **detail)
    if ok:
        g, r = (np.abs(got), np.abs(ref)) if modulus else (np.asarray(got), np.asarray(ref))
        sc = scale if scale is not None else float(np.max(np.abs(r)))
        if sc > 0:
            res = float(np.max(np.abs(g - r))) / sc
            d = -17 if res <= 1e-17 else int(math.ceil(math.log10(res)))
            ctx.event(f'passing-residual[{monitor}]<=1e{d}')
    return ok


class Runner:
    """Calls the real functions, turning an escaping exception into a keyed violation and a None result."""

    def __init__(self, ctx, P):
        self.ctx = ctx
        self.P = P

    def fixed(self, route, a, idx, efl, wvl, odx, samples, shift, method, desc, key, use_wf=False):
        P = self.P
        out = [None]
        rkey = RAISE_CZT_SHIFT if (method == 'czt' and (shift[0] != 0 or shift[1] != 0)) else key
        with self.ctx.guard(rkey, desc, what=f'{route}_fixed_sampling(method={method})'):
            if use_wf:
                wf = P.Wavefront(a, wvl, idx, space='pupil' if route == 'focus' else 'psf')
                f = wf.focus_fixed_sampling if route == 'focus' else wf.unfocus_fixed_sampling
                out[0] = f(efl, odx, samples, shift=shift, method=method).data
            else:
                f = P.focus_fixed_sampling if route == 'focus' else P.unfocus_fixed_sampling
                out[0] = f(a, idx, efl, wvl, odx, samples, shift=shift, method=method)
        return out[0]

    def tfb(self, a, dx, efl, wvl, fpm, fpm_dx, shift, method, desc, key, use_wf=False, more=False):
        """to_fpm_and_back through the function or the Wavefront method; more=True asks for return_more and keeps
        the first element (the field at the next pupil) -- the same quantity through the other return path."""
        P = self.P
        out = [None]
        rkey = RAISE_CZT_SHIFT if (method == 'czt' and (shift[0] != 0 or shift[1] != 0)) else key
        with self.ctx.guard(rkey, desc, what=f'to_fpm_and_back(method={method})'):
            if use_wf:
                r = P.Wavefront(a, wvl, dx).to_fpm_and_back(efl, fpm, fpm_dx, method=method, shift=shift, return_more=more)
                out[0] = (r[0] if more else r).data
            else:
                r = P.to_fpm_and_back(a, dx, efl, wvl, fpm, fpm_dx, shift=shift, method=method, return_more=more)
                out[0] = r[0] if more else r
        return out[0]


def setup_fixed(rng, route, acls, ocls, scls, lo, hi):
    """Physical parameters of one fixed-sampling call class: (in_shape, idx, efl, wvl, odx, samples, shift, shift_samples)."""
    wvl, efl, dx = physical(rng)
    in_shape = draw_shape(rng, acls, lo, hi)
    samples = draw_shape(rng, ocls, lo, hi + 4)
    if route == 'focus':
        idx = dx                                                    # pupil spacing, mm
        odx = wvl * efl / (max(in_shape) * dx) * logu(rng, 0.3, 2.5)  # focal spacing, um
    else:
        odx = dx                                                    # pupil spacing, mm
        idx = wvl * efl / (max(samples) * dx) * logu(rng, 0.3, 2.5)   # focal spacing, um
    s = draw_shift(rng, scls)
    shift = (s[0] * odx, s[1] * odx)
    return in_shape, idx, efl, wvl, odx, samples, shift, s


# ------------------------------------------------------------------------------------------ workload
def run(ctx):
    from prysm import propagation as P
    from prysm import fttools
    R = Runner(ctx, P)
    try:
        wl_linearity(ctx, R)
        wl_embedding(ctx, R)
        wl_transpose(ctx, R)
        wl_allpass(ctx, R)
        wl_masks(ctx, R)
    finally:
        fttools.mdft.clear()
        fttools.czt.clear()


def _tick(state):
    state[0] += 1
    if state[0] % 48 == 0:
        from prysm import fttools
        fttools.mdft.clear()
        fttools.czt.clear()


def _sizes(rnd):
    return (4, [7, 9, 12][min(rnd, 2)])


def wl_linearity(ctx, R):
    rounds = ctx.pick(3, 60)
    k = -1
    st = [0]
    for rnd in range(rounds):
        lo, hi = _sizes(rnd)
        for route in ('focus', 'unfocus'):
            for method in METHODS:
                for acls in ARRAY_CLASSES:
                    for scls in SHIFTS:
                        k += 1
                        if not ctx.mine(k):
                            continue
                        _tick(st)
                        rng = case_rng(ctx, 1, k)
                        v = int(rng.integers(1 << 30))       # per-case variant number, decoupled from the class loops
                        ocls = ['sq:e', 'sq:o', 'nonsq'][int(rng.integers(3))]
                        in_shape, idx, efl, wvl, odx, samples, shift, s = setup_fixed(rng, route, acls, ocls, scls, lo, hi)
                        seed = int(rng.integers(2**31 - 1))
                        use_wf = bool(v % 2)
                        desc = {'rel': 'linearity', 'class': f'linearity:{route}:{method}:{acls}->{ocls}:shift={scls}', 'route': route,
                                'method': method, 'in_shape': in_shape, 'samples': samples, 'input_dx': idx, 'efl': efl, 'wavelength': wvl,
                                'output_dx': odx, 'shift_samples': s, 'seed': seed, 'api': 'Wavefront' if use_wf else 'function'}
                        ctx.case(desc)
                        r2 = np.random.default_rng(seed)
                        a, b = cnormal(r2, in_shape), cnormal(r2, in_shape)
                        al, be = complex(*r2.standard_normal(2)), complex(*r2.standard_normal(2))
                        key = f'C05/linearity/{route}/{method}'
                        fa = R.fixed(route, a, idx, efl, wvl, odx, samples, shift, method, desc, key, use_wf)
                        fb = R.fixed(route, b, idx, efl, wvl, odx, samples, shift, method, desc, key, use_wf)
                        fc = R.fixed(route, al * a + be * b, idx, efl, wvl, odx, samples, shift, method, desc, key, use_wf)
                        if fa is None or fb is None or fc is None:
                            continue
                        close(ctx, 'linearity', fc, al * fa + be * fb, key,
                                  f'{route}_fixed_sampling(method={method}) is not linear', desc, rtol=RTOL)


def wl_embedding(ctx, R):
    rounds = ctx.pick(4, 120)
    k = -1
    st = [0]
    for rnd in range(rounds):
        lo, hi = _sizes(rnd)
        for route in ('focus', 'unfocus'):
            for method in METHODS:
                for acls in ARRAY_CLASSES:
                    for scls in SHIFTS:
                        for emb in ('same-aspect', 'per-axis'):
                            k += 1
                            if not ctx.mine(k):
                                continue
                            _tick(st)
                            rng = case_rng(ctx, 2, k)
                            v = int(rng.integers(1 << 30))       # per-case variant number, decoupled from the class loops
                            ocls = ['sq:e', 'sq:o', 'nonsq'][int(rng.integers(3))]
                            in_shape, idx, efl, wvl, odx, samples, shift, s = setup_fixed(rng, route, acls, ocls, scls, lo, hi)
                            if emb == 'same-aspect':
                                d = int(rng.integers(1, max(2, int(1.5 * max(in_shape))) + 1))
                                big = (in_shape[0] + d, in_shape[1] + d)
                            else:
                                big = tuple(int(rng.integers(n, int(2.5 * n) + 2)) for n in in_shape)
                                if big == in_shape:
                                    big = (big[0] + 1, big[1])
                            seed = int(rng.integers(2**31 - 1))
                            desc = {'rel': 'embedding', 'class': f'embedding:{route}:{method}:{acls}->{ocls}:{emb}:shift={scls}', 'route': route,
                                    'method': method, 'in_shape': in_shape, 'embedded_shape': big, 'samples': samples, 'input_dx': idx,
                                    'efl': efl, 'wavelength': wvl, 'output_dx': odx, 'shift_samples': s, 'seed': seed}
                            ctx.case(desc)
                            a = cnormal(np.random.default_rng(seed), in_shape)
                            g = geom_label(route, method, [in_shape, big], [samples])
                            shifted = scls != '0'
                            key = rel_key('embedding', route, method, g, shifted)
                            f1 = R.fixed(route, a, idx, efl, wvl, odx, samples, shift, method, desc, key)
                            f2 = R.fixed(route, place(a, big), idx, efl, wvl, odx, samples, shift, method, desc, key)
                            if f1 is None or f2 is None:
                                continue
                            close(ctx, 'embedding', f2, f1, key, rel_what('embedding', route, method, g), desc, rtol=RTOL,
                                      modulus=shifted, compared='moduli' if shifted else 'complex')


def wl_transpose(ctx, R):
    rounds = ctx.pick(4, 100)
    k = -1
    st = [0]
    for rnd in range(rounds):
        lo, hi = _sizes(rnd)
        for route in ('focus', 'unfocus'):
            for method in METHODS:
                for acls in ARRAY_CLASSES:
                    for ocls in ('sq:e', 'sq:o', 'nonsq'):
                        for scls in SHIFTS:
                            k += 1
                            if not ctx.mine(k):
                                continue
                            _tick(st)
                            rng = case_rng(ctx, 3, k)
                            v = int(rng.integers(1 << 30))       # per-case variant number, decoupled from the class loops
                            in_shape, idx, efl, wvl, odx, samples, shift, s = setup_fixed(rng, route, acls, ocls, scls, lo, hi)
                            seed = int(rng.integers(2**31 - 1))
                            desc = {'rel': 'transpose', 'class': f'transpose:{route}:{method}:{acls}->{ocls}:shift={scls}', 'route': route,
                                    'method': method, 'in_shape': in_shape, 'samples': samples, 'input_dx': idx, 'efl': efl,
                                    'wavelength': wvl, 'output_dx': odx, 'shift_samples': s, 'seed': seed}
                            ctx.case(desc)
                            a = cnormal(np.random.default_rng(seed), in_shape)
                            g = geom_label(route, method, [in_shape, in_shape[::-1]], [samples, samples[::-1]])
                            shifted = scls != '0'
                            key = rel_key('transpose', route, method, g, shifted)
                            f1 = R.fixed(route, a, idx, efl, wvl, odx, samples, shift, method, desc, key)
                            f2 = R.fixed(route, np.ascontiguousarray(a.T), idx, efl, wvl, odx, samples[::-1], shift[::-1], method, desc, key)
                            if f1 is None or f2 is None:
                                continue
                            close(ctx, 'transposition', f2, f1.T, key, rel_what('transpose', route, method, g), desc, rtol=RTOL)


def tfb_label(method, pupil_shape, P_):
    nonsq = not is_sq(pupil_shape)
    # one of the two czt legs maps an even-length axis to an odd length whenever pupil and mask parities differ
    eo = method == 'czt' and any(n % 2 != P_ % 2 for n in pupil_shape)
    if nonsq and eo:
        return 'nonsquare+even->odd'
    if eo:
        return 'even->odd'
    return 'nonsquare' if nonsq else 'square'


def tfb_key(method, label, shifted):
    """Key of a failing all-pass identity.  czt with a shift fails for every geometry (its return leg cannot undo the
    shift), so the shift label decides there; for mdft geometry and shift are independent mechanisms and the
    intersection class gets its own composite key."""
    if method == 'czt' and shifted:
        return 'C05/to_fpm_and_back/czt/shift!=0'
    if 'even->odd' in label:
        return f'C05/fixed-sampling/czt/{label}'
    if label == 'nonsquare':
        return 'C05/to_fpm_and_back/mdft/nonsquare+shift!=0' if shifted else 'C05/to_fpm_and_back/nonsquare'
    return f'C05/to_fpm_and_back/{method}/' + ('shift!=0' if shifted else 'shift=0')


def tfb_what(method, label, shifted):
    sh = ', shift != 0' if shifted else ''
    if 'even->odd' in label and not shifted:
        return rel_what('allpass', 'focus', method, label)
    if label == 'nonsquare' and not shifted:
        return ('to_fpm_and_back (either method) with an all-pass mask over exactly one focal-plane period does not return a '
                'non-square field')
    if label == 'nonsquare':
        return ('to_fpm_and_back(method=mdft, shift != 0) with an all-pass mask over exactly one focal-plane period does not '
                'return a non-square field')
    return (f'to_fpm_and_back(method={method}{sh}) with an all-pass mask over exactly one focal-plane period does not '
            f'return the field')


def exact_band(rng, acls, lo, hi):
    wvl, efl, dx = physical(rng)
    shp = draw_shape(rng, acls, lo, hi)
    P_ = int(rng.integers(max(shp), int(2.5 * max(shp)) + 2))        # mask samples per axis = one full period
    fdx = wvl * efl / (dx * P_)
    return wvl, efl, dx, shp, P_, fdx


def wl_allpass(ctx, R):
    rounds = ctx.pick(8, 240)
    k = -1
    st = [0]
    for rnd in range(rounds):
        lo, hi = _sizes(rnd)
        for method in METHODS:
            for acls in ARRAY_CLASSES:
                for scls in SHIFTS:
                    for rel in ('identity', 'babinet'):
                        k += 1
                        if not ctx.mine(k):
                            continue
                        if rel == 'babinet' and scls != '0':
                            continue                        # Wavefront.babinet has no shift argument
                        _tick(st)
                        rng = case_rng(ctx, 4, k)
                        v = int(rng.integers(1 << 30))       # per-case variant number, decoupled from the class loops
                        wvl, efl, dx, shp, P_, fdx = exact_band(rng, acls, lo, hi)
                        s = draw_shift(rng, scls)
                        shift = (s[0] * fdx, s[1] * fdx)
                        seed = int(rng.integers(2**31 - 1))
                        use_wf = bool(v % 2)
                        label = tfb_label(method, shp, P_)
                        shifted = scls != '0'
                        key = tfb_key(method, label, shifted)
                        desc = {'rel': 'allpass-' + rel, 'class': f'allpass:{rel}:{method}:{acls}:{parity(P_)}-band:shift={scls}', 'method': method,
                                'shape': shp, 'band_samples': P_, 'dx': dx, 'efl': efl, 'wavelength': wvl, 'fpm_dx': fdx,
                                'shift_samples': s, 'seed': seed, 'api': 'Wavefront' if use_wf else 'function'}
                        ctx.case(desc)
                        r2 = np.random.default_rng(seed)
                        a = cnormal(r2, shp)
                        if rel == 'identity':
                            ones = np.ones((P_, P_)) if v % 3 else np.ones((P_, P_), dtype=complex)
                            o = R.tfb(a, dx, efl, wvl, ones, fdx, shift, method, desc, key, use_wf, more=bool((v // 7) % 3 == 0))
                            if o is None:
                                continue
                            close(ctx, 'allpass-identity', o, a, key, tfb_what(method, label, shifted), desc, rtol=RTOL)
                        else:
                            m = r2.random((P_, P_)) if (v // 3) % 4 else cnormal(r2, (P_, P_))
                            lyot = None if (v // 5) % 3 == 0 else (r2.random(shp) > 0.3).astype(float)
                            t = R.tfb(a, dx, efl, wvl, m, fdx, (0, 0), method, desc, key)
                            out = [None]
                            with ctx.guard(key, desc, what=f'Wavefront.babinet(method={method})'):
                                out[0] = R.P.Wavefront(a, wvl, dx).babinet(efl, lyot, m, fdx, method=method).data
                            if t is None or out[0] is None:
                                continue
                            ref = t if lyot is None else lyot * t
                            close(ctx, 'babinet.exact-band', out[0], ref, key,
                                      tfb_what(method, label, False) + ' [seen through Babinet: a - tfb(1-m) != tfb(m)]', desc,
                                      rtol=RTOL, scale=float(np.max(np.abs(a))))


def wl_masks(ctx, R):
    """Additivity / linearity in the mask and the Babinet composition at arbitrary mask sampling (not the exact band)."""
    rounds = ctx.pick(4, 120)
    k = -1
    st = [0]
    for rnd in range(rounds):
        lo, hi = _sizes(rnd)
        for method in METHODS:
            for acls in ARRAY_CLASSES:
                for mcls in ('sq:e', 'sq:o', 'nonsq'):
                    for rel in ('additivity', 'linearity', 'babinet'):
                        for scls in SHIFTS:
                            k += 1
                            if not ctx.mine(k):
                                continue
                            if rel == 'babinet' and scls != '0':
                                continue
                            _tick(st)
                            rng = case_rng(ctx, 5, k)
                            v = int(rng.integers(1 << 30))       # per-case variant number, decoupled from the class loops
                            wvl, efl, dx = physical(rng)
                            shp = draw_shape(rng, acls, lo, hi)
                            mshape = draw_shape(rng, mcls, lo, hi + 6)
                            fdx = wvl * efl / (max(shp) * dx) * logu(rng, 0.3, 2.5)
                            s = draw_shift(rng, scls)
                            shift = (s[0] * fdx, s[1] * fdx)
                            seed = int(rng.integers(2**31 - 1))
                            use_wf = bool(v % 2)
                            cplx = bool((v // 2) % 2)
                            desc = {'rel': 'mask-' + rel, 'class': f'mask:{rel}:{method}:{acls}:mask={mcls}:{"complex" if cplx else "real"}:shift={scls}',
                                    'method': method, 'shape': shp, 'mask_shape': mshape, 'dx': dx, 'efl': efl, 'wavelength': wvl,
                                    'fpm_dx': fdx, 'shift_samples': s, 'seed': seed, 'api': 'Wavefront' if use_wf else 'function'}
                            ctx.case(desc)
                            r2 = np.random.default_rng(seed)
                            a = cnormal(r2, shp)
                            m1 = cnormal(r2, mshape) if cplx else r2.random(mshape)
                            m2 = cnormal(r2, mshape) if cplx else r2.random(mshape)
                            one = np.ones(mshape)
                            scale = None
                            if rel == 'additivity':
                                key = f'C05/mask-additivity/{method}'
                                t1 = R.tfb(a, dx, efl, wvl, m1, fdx, shift, method, desc, key, use_wf)
                                t2 = R.tfb(a, dx, efl, wvl, 1 - m1, fdx, shift, method, desc, key, use_wf)
                                t3 = R.tfb(a, dx, efl, wvl, one, fdx, shift, method, desc, key, use_wf, more=bool((v // 7) % 3 == 0))
                                if t1 is None or t2 is None or t3 is None:
                                    continue
                                close(ctx, 'mask-additivity', t1 + t2, t3, key,
                                          f'to_fpm_and_back(method={method}): mask and complement do not sum to the unmasked result', desc,
                                          rtol=RTOL, scale=max(float(np.max(np.abs(t3))), float(np.max(np.abs(t1)))))
                            elif rel == 'linearity':
                                key = f'C05/mask-linearity/{method}'
                                al, be = complex(*r2.standard_normal(2)), complex(*r2.standard_normal(2))
                                t1 = R.tfb(a, dx, efl, wvl, m1, fdx, shift, method, desc, key, use_wf)
                                t2 = R.tfb(a, dx, efl, wvl, m2, fdx, shift, method, desc, key, use_wf)
                                t3 = R.tfb(a, dx, efl, wvl, al * m1 + be * m2, fdx, shift, method, desc, key, use_wf)
                                if t1 is None or t2 is None or t3 is None:
                                    continue
                                close(ctx, 'mask-linearity', t3, al * t1 + be * t2, key,
                                          f'to_fpm_and_back(method={method}) is not linear in the mask', desc, rtol=RTOL,
                                          scale=abs(al) * float(np.max(np.abs(t1))) + abs(be) * float(np.max(np.abs(t2))))
                            else:
                                key = f'C05/babinet/{method}'
                                lyot = None if (v // 5) % 3 == 0 else (cnormal(r2, shp) if cplx else (r2.random(shp) > 0.3).astype(float))
                                t = R.tfb(a, dx, efl, wvl, 1 - m1, fdx, (0, 0), method, desc, key)
                                out = [None]
                                with ctx.guard(key, desc, what=f'Wavefront.babinet(method={method})'):
                                    if (v // 7) % 3 == 0:
                                        out[0] = R.P.Wavefront(a, wvl, dx).babinet(efl, lyot, m1, fdx, method=method, return_more=True)[0].data
                                    else:
                                        out[0] = R.P.Wavefront(a, wvl, dx).babinet(efl, lyot, m1, fdx, method=method).data
                                if t is None or out[0] is None:
                                    continue
                                ref = (a - t) if lyot is None else lyot * (a - t)
                                close(ctx, 'babinet', out[0], ref, key,
                                          f'Wavefront.babinet(method={method}) != lyot * (field - to_fpm_and_back(1 - fpm))', desc, rtol=RTOL,
                                          scale=float(np.max(np.abs(a))) + float(np.max(np.abs(t))))


def replay(ctx, rec):
    run(ctx)
