"""C05 -- fixed-sampling results depend on the physical field, not on its array embedding.

Metamorphic relations between observed calls of the real prysm.propagation.focus_fixed_sampling /
unfocus_fixed_sampling / to_fpm_and_back and Wavefront.to_fpm_and_back / babinet (no external model; the only
code of my own is an origin-aligned placement and array transposition):

  linearity        F(alpha a + beta b) = alpha F(a) + beta F(b)                       (complex alpha, beta)
  embedding        F(a placed origin-on-origin in a larger zero array, same dx) = F(a)  (complex when shift == 0,
                   moduli when shift != 0)
  transposition    F(a^T; output_samples and shift swapped) = F(a; ...)^T
  all-pass         to_fpm_and_back(a, ones over exactly one period of the focal plane) = a, for any mask shift
  mask-additivity  tfb(m) + tfb(1 - m) = tfb(1);  tfb(alpha m1 + beta m2) = alpha tfb(m1) + beta tfb(m2)
  babinet          Wavefront.babinet(lyot, m) = lyot * (a - tfb(1 - m)); on the exact band also = lyot * tfb(m)
"""
import math

import numpy as np

from ..core import max_err, parity
from .c01 import (_copyarg, _same_value, conf_bits, is_single, kernel_phase, low_precision, rtol_for, relayout, LAYOUTS,
                  SHIFT_CONTAINERS, make_container, container_values)

RULE = ('relation instances enumerated over classes (direction focus/unfocus x method mdft/czt x array class square '
        'even/odd, non-square, 1xN, Nx1, extreme aspect 2xN / Nx3 x output class x shift none/integer/fractional samples on either '
        'axis x relation), smallest sizes first (4..12, thorough up to 48; embeddings up to 2.5x per axis independently, any parity), '
        'random complex fields and real / complex / integer / boolean masks, log-uniform wavelength/focal length/spacings.  Every '
        'instance also draws a variant: the shift is handed over as tuple (half the cases), list, float64 / float32 / int ndarray or '
        'numpy scalars and the SAME object is used for every call of the instance; the configuration is float64 (3 in 4), float32, '
        'or mixed (float32 data under precision 64 and vice versa); field and mask arrays come in six memory layouts.  Histories '
        'run relation instances after shifted traffic with other wavelengths / focal lengths / spacings at the same array sizes and '
        'after a float32 run of the same calls, without clearing the executors.  Linearity is required over the complex numbers for '
        'fields stored in a real / integer / boolean dtype (U(alpha x + beta y) with complex alpha, beta); the embedding of such a field '
        'is a COMPLEX zero array.  A zero shift is handed over in every container as well.  Form cases (class E, vp/propforms.py): '
        'both fixed-sampling routes, to_fpm_and_back and Wavefront.babinet in a canonical form and then in every other accepted form '
        'of the same numbers (field and mask dtype kinds, containers, numpy / integer / 0-d scalars, positional, omitted defaults after '
        'other explicit values, Wavefront methods, lyot=None vs all-ones).  Foreign-history cases (class F): other consumers of the '
        'shared helpers / executors (incl. the adjoint routines at the same cache keys) first, relation instances after.  '
        'Non-trivial: every array involved has >= 2 '
        'non-zero samples (1x1 never generated); distinct = distinct descriptor (relation, class, shapes, scalars, sub-seed).')
ASSUMPTIONS = ['the relations are consequences of the statement alone (linearity, independence of zero padding at fixed '
               'spacing, axis symmetry); no reference transform is used',
               'origin of an axis of length n is sample n//2 (C04) -- used by my own embedding placement',
               'exact band: mask of P x P samples with P*fpm_dx = lambda*f/dx (one full period of the sampled pupil), P >= pupil size',
               'with shift != 0 the embedding relation is required of moduli only (a pure output phase is allowed)',
               'masks are passed as arrays (the property quantifies over mask arrays)',
               'float64: 1e-9 of the reference maximum (1e-4 when the shift sits in a float32 container: numpy converts it to samples in '
               'float32).  Single precision (complex64 data or the float32 configuration): C01\'s conditioning rule per call, '
               'max(1e-3, 1000 eps32 * kernel phase) of the bound sum|a| / sqrt(Na Q0 Ma Q1) (to_fpm_and_back: of ||a||_2 max|mask|); '
               'instances whose tolerance would exceed 3e-2 are excluded and counted',
               'int ndarray shifts hold integer physical values; a zero shift is accepted in every container by the reference tree',
               'accepted argument forms are fixed from the reference tree (/repo @ faa8443, vp/propforms.py); a form must reproduce the '
               'canonical result to 1e-12 (float32-carrying forms / single precision 1e-3) of max(max|canonical|, output bound)',
               'an integer / boolean field is the real field of the same values; foreign traffic is not judged',
               'a failure seen with a non-tuple shift container is re-evaluated with an equal-valued tuple: if it then holds, the key names '
               'the container (one key for that mechanism), otherwise the relation\'s own key is used',
               'results are copied as soon as they are returned (a routine may hand back memory it shares with an argument)']
REQUIRED = ['linearity', 'embedding', 'transposition', 'allpass-identity', 'mask-additivity', 'mask-linearity',
            'babinet', 'babinet.exact-band', 'history.ops', 'form.equivalence', 'foreign.traffic']

RTOL = 1e-9


# ------------------------------------------------------------------------------------------ helpers
def case_rng(ctx, tag, k):
    return np.random.default_rng([ctx.seed, 50 + tag, int(k)])


def logu(rng, lo, hi):
    return float(math.exp(rng.uniform(math.log(lo), math.log(hi))))


def physical(rng):
    return logu(rng, 0.3, 12.0), logu(rng, 10.0, 5000.0), logu(rng, 1e-3, 1.0)


def cnormal(rng, shape):
    return rng.standard_normal(shape) + 1j * rng.standard_normal(shape)


FIELD_KINDS = ('complex', 'real', 'complex', 'int', 'complex', 'bool')


def field_of_kind(rng, kind, shape, dbits=64):
    """A field of the dtype kind: complex, real-dtype float, integer image or boolean mask (the same law holds for all)."""
    if kind == 'complex':
        return to_bits(cnormal(rng, shape), dbits)
    if kind == 'real':
        return to_bits(rng.standard_normal(shape), dbits)
    if kind == 'int':
        dt = [np.int64, np.int32, np.uint8, np.uint16][int(rng.integers(4))]
        return rng.integers(0 if np.dtype(dt).kind == 'u' else -3, 4, shape).astype(dt)
    a = rng.random(shape) < 0.6
    a.flat[0] = True
    a.flat[-1] = True
    return a


def with_parity(n, par, lo, hi):
    n = int(min(max(n, lo), hi))
    if parity(n) != par:
        n = n + 1 if n + 1 <= hi else n - 1
    return n


ARRAY_CLASSES = ['sq:e', 'sq:o', 'nonsq', 'line:1xN', 'line:Nx1', 'extreme:2xN', 'extreme:Nx3']
METHODS = ['mdft', 'czt']
SHIFTS = ['0', 'int', 'frac']


def draw_shape(rng, cls, lo, hi):
    if cls.startswith('sq'):
        n = with_parity(int(rng.integers(lo, hi + 1)), cls[-1], lo, hi)
        return (n, n)
    if cls == 'line:1xN':
        return (1, int(rng.integers(max(lo, 2), hi + 1)))
    if cls == 'line:Nx1':
        return (int(rng.integers(max(lo, 2), hi + 1)), 1)
    if cls == 'extreme:2xN':                      # extreme aspect ratio: two rows, as many columns as the round allows
        return (2, int(rng.integers(max(lo, hi - 3), hi + 1)))
    if cls == 'extreme:Nx3':
        return (int(rng.integers(max(lo, hi - 3), hi + 1)), 3)
    while True:
        s = (int(rng.integers(lo, hi + 1)), int(rng.integers(lo, hi + 1)))
        if s[0] != s[1]:
            return s


def draw_shift(rng, cls):
    """(sx, sy) in samples of the class."""
    if cls == '0':
        return (0.0, 0.0)
    which = int(rng.integers(3))
    if cls == 'int':
        v = [float(int(rng.integers(1, 5)) * (1 if rng.random() < 0.5 else -1)) for _ in range(2)]
    else:
        v = [float(np.round(rng.uniform(-3, 3), 3)) for _ in range(2)]
        v = [x if x != int(x) else x + 0.37 for x in v]
    if which == 0:
        v[1] = 0.0
    elif which == 1:
        v[0] = 0.0
    return (v[0], v[1])


def place(a, shape):
    """Origin-aligned embedding into zeros of `shape` (sample n//2 -> sample N//2 on each axis); own code."""
    out = np.zeros(shape, dtype=a.dtype)
    r0 = shape[0] // 2 - a.shape[0] // 2
    c0 = shape[1] // 2 - a.shape[1] // 2
    out[r0:r0 + a.shape[0], c0:c0 + a.shape[1]] = a
    return out


def is_sq(s):
    return s[0] == s[1]


def e2o(i, o):
    return any(a % 2 == 0 and b % 2 == 1 for a, b in zip(i, o))


def geom_label(route, method, in_shapes, out_shapes):
    """Geometry class of a relation instance from the shapes of all calls involved."""
    if route == 'focus':
        nonsq = any(not is_sq(s) for s in in_shapes)
    else:
        nonsq = any(not is_sq(s) for s in in_shapes) or any(not is_sq(s) for s in out_shapes)
    eo = method == 'czt' and any(e2o(i, o) for i in in_shapes for o in out_shapes)
    if nonsq and eo:
        return 'nonsquare+even->odd'
    if eo:
        return 'even->odd'
    return 'nonsquare' if nonsq else 'square'


def rel_key(rel, route, method, g, shifted):
    """Mechanism key of a failing embedding / transposition instance, from class labels only.

    The non-square class is keyed by route (the per-axis sampling is decided before the method dispatch and the same
    defect breaks both relations), the even->odd class exists for czt only and is route-free."""
    if 'even->odd' in g:
        return f'C05/fixed-sampling/czt/{g}'
    if g == 'nonsquare':
        return f'C05/{route}_fixed_sampling/nonsquare'
    return f'C05/{rel}/{route}/{method}/square/' + ('shift!=0' if shifted else 'shift=0')


def rel_what(rel, route, method, g):
    if 'even->odd' in g:
        ns = ' (non-square arrays)' if g.startswith('nonsquare') else ''
        return (f'fixed-sampling propagation with method=czt and an even-length axis mapped to an odd output length{ns}: '
                f'embedding-invariance / mask-and-back identity fail')
    if g == 'nonsquare':
        return (f'{route}_fixed_sampling (either method) with a non-square array involved: the output changes under zero-embedding '
                f'at the same spacing / is not transposed when input and per-axis arguments are transposed')
    text = {'embedding': 'output changes when the same field is embedded in a larger zero-padded array at the same spacing',
            'transpose': 'F(a^T, per-axis arguments swapped) != F(a)^T'}[rel]
    return f'{route}_fixed_sampling(method={method}): {text}'


RAISE_CZT_SHIFT = 'C05/fixed-sampling/czt/shift!=0'


# ------------------------------------------------------------------------------------------ argument containers, precision
class ShiftArg:
    """A shift handed to prysm in one of the container types the API accepts.  The *same object* is used for every call of a
    relation instance (tuple / list / float64, float32, int ndarray / numpy scalars); `fresh()` builds an equal-valued plain
    tuple, used only to attribute a failure to the container."""

    def __init__(self, kind, values):
        if kind == 'nd-int' and not all(float(v).is_integer() for v in values):
            kind = 'tuple'            # int arrays hold integers only
        self.kind = kind
        self.obj = make_container(kind, values) if kind != 'tuple' else (float(values[0]), float(values[1]))
        self.values = container_values(self.obj)
        self.snap = _copyarg(self.obj)
        self.lowprec = low_precision(self.obj)

    def fresh(self):
        return (self.values[0], self.values[1])

    def mutated(self):
        return isinstance(self.snap, (np.ndarray, list)) and not _same_value(self.obj, self.snap)


def shift_kind(v, scls):
    """Container kind of a case from its variant number: half the shifted cases keep the plain tuple."""
    if (v // 3) % 2 == 0:
        return 'tuple'
    return SHIFT_CONTAINERS[1 + (v // 6) % (len(SHIFT_CONTAINERS) - 1)]


def precision_class(v):
    """(configured precision, data precision): 3 in 4 cases float64 / float64, the rest float32 / float32, float32
    configuration with float64 data, float64 configuration with float32 data."""
    c = (v // 32) % 12
    return {0: (32, 32), 1: (32, 64), 2: (64, 32)}.get(c, (64, 64))


def to_bits(a, dbits):
    if dbits == 32 and a.dtype.kind in 'fc':
        return a.astype(np.complex64 if np.iscomplexobj(a) else np.float32)
    return a


def bound(a, in_shape, Qp):
    """Upper bound of every output sample of a unitary-normalised transform of `a`: sum|a| / sqrt(Na Q0 Ma Q1)."""
    return float(np.sum(np.abs(a))) / math.sqrt(in_shape[0] * Qp[0] * in_shape[1] * Qp[1])


def single_tol(method, in_shape, idx, odx, wvl, efl, samples, shift_samples):
    """Relative float32 tolerance of one fixed-sampling transform (C01's conditioning rule: max(1e-3, 1000 eps32 * kernel
    phase)), relative to `bound`; None = ill-conditioned in float32 (skip + count).  Also returns the per-axis Q."""
    Qp = tuple(wvl * efl / (n * idx * odx) for n in in_shape)
    return rtol_for(method, True, in_shape, Qp, samples, shift_samples), Qp


def judge(ctx, monitor, inst, sh, key, what, desc, rtol=RTOL, modulus=False, abs_tol=None, **detail):
    """Evaluate one relation instance.  `inst(shift_object)` makes all the calls of the relation with that shift object and
    returns (got, ref, scale) or None when prysm raised (already reported).  A failure observed with a non-tuple container
    is re-evaluated with equal-valued fresh tuples: if it then holds, the key names the container (mechanism: the routine
    depends on / writes into the caller's container), otherwise the plain key is used."""
    r = inst(sh.obj)
    if r is None:
        return None
    ok, err, tol, scale = _cmp(r, rtol, modulus, abs_tol)
    ctx.observe(monitor)
    if ok:
        if scale > 0 and abs_tol is None:
            res = err / scale
            d = -17 if res <= 1e-17 else int(math.ceil(math.log10(res)))
            ctx.event(f'passing-residual[{monitor}]<=1e{d}')
        elif abs_tol:
            res = err / abs_tol * RTOL
            d = -17 if res <= 1e-17 else int(math.ceil(math.log10(res)))
            ctx.event(f'passing-residual[{monitor}/f32]<=1e{d}')
        return True
    if r[0].shape != r[1].shape:
        ctx.violation(key + '/shape', what + f': shape {r[0].shape} != expected {r[1].shape}', desc, **detail)
        return False
    if sh.kind != 'tuple':
        from ..contracts import quiet
        try:
            r2 = inst(sh.fresh())
        except Exception:
            r2 = None
        if r2 is not None and _cmp(r2, rtol, modulus, abs_tol)[0]:
            # one mechanism, one key: the relation (kept in the text and the descriptor) is incidental, the container is the cause
            relkey = key
            key = f'C05/shift-container:{sh.kind}/' + ('caller-array-rewritten-in-place' if sh.mutated() else 'result-depends-on-container-type')
            what = (f'fixed-sampling propagation / to_fpm_and_back with the shift handed over as {sh.kind} and the same object used for every '
                    f'call of a relation: the relation fails (it holds with an equal-valued tuple); container rewritten in place: {sh.mutated()}.  '
                    f'First seen as [{relkey}] ' + what)
    ctx.violation(key, what, desc, err=err, tol=tol, scale=scale, **detail)
    return False


def _cmp(r, rtol, modulus, abs_tol):
    got, ref = np.asarray(r[0]), np.asarray(r[1])
    scale = r[2] if len(r) > 2 and r[2] is not None else None
    if got.shape != ref.shape:
        return False, float('inf'), 0.0, 0.0
    if modulus:
        got, ref = np.abs(got), np.abs(ref)
    if scale is None:
        fin = np.isfinite(ref)
        scale = float(np.max(np.abs(ref[fin]))) if fin.any() else 0.0
    err = max_err(got, ref)
    tol = abs_tol if abs_tol is not None else rtol * scale
    return bool(err <= tol), err, tol, scale


def close(ctx, monitor, got, ref, key, what, desc, rtol=RTOL, scale=None, modulus=False, **detail):
    """ctx.close plus a by-decade histogram of the relative residual of passing comparisons (summed events)."""
    ok = ctx.close(monitor, got, ref, key, what, desc, rtol=rtol, scale=scale, modulus=modulus, **detail)
    if ok:
        g, r = (np.abs(got), np.abs(ref)) if modulus else (np.asarray(got), np.asarray(ref))
        sc = scale if scale is not None else float(np.max(np.abs(r)))
        if sc > 0:
            res = float(np.max(np.abs(g - r))) / sc
            d = -17 if res <= 1e-17 else int(math.ceil(math.log10(res)))
            ctx.event(f'passing-residual[{monitor}]<=1e{d}')
    return ok


class Runner:
    """Calls the real functions, turning an escaping exception into a keyed violation and a None result.  Results are
    copied as soon as they are returned (a routine may hand back memory it shares with an argument)."""

    def __init__(self, ctx, P):
        self.ctx = ctx
        self.P = P

    def fixed(self, route, a, idx, efl, wvl, odx, samples, shift, method, desc, key, use_wf=False):
        P = self.P
        out = [None]
        rkey = RAISE_CZT_SHIFT if (method == 'czt' and (shift[0] != 0 or shift[1] != 0)) else key
        with self.ctx.guard(rkey, desc, what=f'{route}_fixed_sampling(method={method})'):
            if use_wf:
                wf = P.Wavefront(a, wvl, idx, space='pupil' if route == 'focus' else 'psf')
                f = wf.focus_fixed_sampling if route == 'focus' else wf.unfocus_fixed_sampling
                out[0] = np.array(f(efl, odx, samples, shift=shift, method=method).data, copy=True)
            else:
                f = P.focus_fixed_sampling if route == 'focus' else P.unfocus_fixed_sampling
                out[0] = np.array(f(a, idx, efl, wvl, odx, samples, shift=shift, method=method), copy=True)
        return out[0]

    def tfb(self, a, dx, efl, wvl, fpm, fpm_dx, shift, method, desc, key, use_wf=False, more=False):
        """to_fpm_and_back through the function or the Wavefront method; more=True asks for return_more and keeps
        the first element (the field at the next pupil) -- the same quantity through the other return path."""
        P = self.P
        out = [None]
        rkey = RAISE_CZT_SHIFT if (method == 'czt' and (shift[0] != 0 or shift[1] != 0)) else key
        with self.ctx.guard(rkey, desc, what=f'to_fpm_and_back(method={method})'):
            if use_wf:
                r = P.Wavefront(a, wvl, dx).to_fpm_and_back(efl, fpm, fpm_dx, method=method, shift=shift, return_more=more)
                out[0] = np.array((r[0] if more else r).data, copy=True)
            else:
                r = P.to_fpm_and_back(a, dx, efl, wvl, fpm, fpm_dx, shift=shift, method=method, return_more=more)
                out[0] = np.array(r[0] if more else r, copy=True)
        return out[0]


def setup_fixed(rng, route, acls, ocls, scls, lo, hi):
    """Physical parameters of one fixed-sampling call class: (in_shape, idx, efl, wvl, odx, samples, shift, shift_samples)."""
    wvl, efl, dx = physical(rng)
    in_shape = draw_shape(rng, acls, lo, hi)
    samples = draw_shape(rng, ocls, lo, hi + 4)
    if route == 'focus':
        idx = dx                                                    # pupil spacing, mm
        odx = wvl * efl / (max(in_shape) * dx) * logu(rng, 0.3, 2.5)  # focal spacing, um
    else:
        odx = dx                                                    # pupil spacing, mm
        idx = wvl * efl / (max(samples) * dx) * logu(rng, 0.3, 2.5)   # focal spacing, um
    s = draw_shift(rng, scls)
    shift = (s[0] * odx, s[1] * odx)
    return in_shape, idx, efl, wvl, odx, samples, shift, s


def variant(rng, scls, shift, desc, cls):
    """Per-case variant: shift container, (configured, data) precision, memory layout -- recorded in the descriptor."""
    v = int(rng.integers(1 << 30))
    sh = ShiftArg(shift_kind(v, scls), shift)
    bits, dbits = precision_class(v)
    lay = LAYOUTS[(v // 5) % len(LAYOUTS)]
    desc.update(shift_container=sh.kind, precision=bits, data_bits=dbits, layout=lay)
    desc['class'] = cls + (f':shift-as-{sh.kind}' if sh.kind != 'tuple' else '') + (f':p{bits}/d{dbits}' if (bits, dbits) != (64, 64) else '') + f':{lay}'
    return v, sh, bits, dbits, lay


def fixed_tolerance(ctx, single, sh, method, shapes, idx, odx, wvl, efl, samples_list, s, arrays, coeffs=None):
    """(rtol, abs_tol) for a relation between fixed-sampling calls.  float64: RTOL of the reference maximum (1e-4 when the
    shift sits in a float32 container: numpy then converts it to samples in float32).  Single precision: C01's rule per
    call, relative to the bound sum|a| / sqrt(Na Q0 Ma Q1) of the inputs involved; None when ill-conditioned."""
    if sh.lowprec and method == 'czt':
        single = True         # a float32 shift drags the chirp arithmetic of czt2 to float32 (C01's ledgered finding): float32 conditioning
    if not single:
        return (1e-4 if sh.lowprec else RTOL), None
    tot = 0.0
    for shp, smp, a, c in zip(shapes, samples_list, arrays, coeffs or [1.0] * len(arrays)):
        r, Qp = single_tol(method, shp, idx, odx, wvl, efl, smp, s)
        if r is None:
            ctx.skip('float32: kernel phase beyond the resolution of the working precision (tolerance would exceed 3e-2)')
            return None, None
        tot += abs(c) * r * bound(a, shp, Qp)
    return None, tot


# ------------------------------------------------------------------------------------------ workload
def run(ctx):
    from prysm import propagation as P
    from prysm import fttools
    from prysm.conf import config
    import time
    R = Runner(ctx, P)
    old = conf_bits()
    secs = {}

    def timed(name, f, *a):
        t = time.time()
        f(*a)
        secs[name] = round(time.time() - t, 1)
    try:
        timed('linearity', wl_linearity, ctx, R)
        timed('embedding', wl_embedding, ctx, R)
        timed('transpose', wl_transpose, ctx, R)
        timed('allpass', wl_allpass, ctx, R)
        timed('masks', wl_masks, ctx, R)
        timed('history', wl_history, ctx, R)
        timed('forms', wl_forms, ctx, R)
        timed('foreign', wl_foreign, ctx, R)
        timed('scale-units', wl_scale_units, ctx, R)
        timed('special', wl_special, ctx, R)
        timed('sizes', wl_sizes, ctx, R)
        timed('backend', wl_backend, ctx, R)
        ctx.note('workload_seconds(first shard)', secs)
    finally:
        config.precision = old
        fttools.mdft.clear()
        fttools.czt.clear()


def _tick(state):
    state[0] += 1
    if state[0] % 48 == 0:
        from prysm import fttools
        fttools.mdft.clear()
        fttools.czt.clear()


def _sizes(rnd, rounds=8):
    """(lo, hi) array sizes of a round: smallest first (7, 9, 12); the thorough tier goes on to 16, 24, 32 and 48 samples."""
    if rnd < 3:
        return (4, [7, 9, 12][rnd])
    f = rnd / max(rounds, 1)
    return (4, 12 if (f < 0.3 or rounds <= 8) else (16 if f < 0.55 else (24 if f < 0.75 else (32 if f < 0.9 else 48))))


def wl_linearity(ctx, R):
    from ..util import precision
    rounds = ctx.pick(3, 1800)
    k = -1
    st = [0]
    for rnd in range(rounds):
        lo, hi = _sizes(rnd, rounds)
        for route in ('focus', 'unfocus'):
            for method in METHODS:
                for acls in ARRAY_CLASSES:
                    for scls in SHIFTS:
                        k += 1
                        if not ctx.mine(k):
                            continue
                        _tick(st)
                        rng = case_rng(ctx, 1, k)
                        ocls = ['sq:e', 'sq:o', 'nonsq'][int(rng.integers(3))]
                        in_shape, idx, efl, wvl, odx, samples, shift, s = setup_fixed(rng, route, acls, ocls, scls, lo, hi)
                        seed = int(rng.integers(2**31 - 1))
                        desc = {'rel': 'linearity', 'route': route,
                                'method': method, 'in_shape': in_shape, 'samples': samples, 'input_dx': idx, 'efl': efl, 'wavelength': wvl,
                                'output_dx': odx, 'shift_samples': s, 'seed': seed}
                        v, sh, bits, dbits, lay = variant(rng, scls, shift, desc, f'linearity:{route}:{method}:{acls}->{ocls}:shift={scls}')
                        use_wf = bool(v % 2)
                        desc['api'] = 'Wavefront' if use_wf else 'function'
                        ctx.case(desc)
                        r2 = np.random.default_rng(seed)
                        fkind = FIELD_KINDS[(v // 13) % len(FIELD_KINDS)]
                        a, b = field_of_kind(r2, fkind, in_shape, dbits), field_of_kind(r2, fkind, in_shape, dbits)
                        al, be = complex(*r2.standard_normal(2)), complex(*r2.standard_normal(2))
                        desc['field_dtype'] = str(a.dtype)
                        key = f'C05/linearity/{route}/{method}' + ('' if fkind == 'complex' else '/real-dtype-fields')
                        single = bits == 32 or dbits == 32
                        rtol, atol = fixed_tolerance(ctx, single, sh, method, [in_shape] * 3, idx, odx, wvl, efl, [samples] * 3, s,
                                                     [a, b, al * a + be * b], [abs(al), abs(be), 1.0])
                        if rtol is None and atol is None:
                            continue

                        def inst(shift_obj):
                            fa = R.fixed(route, relayout(a, lay), idx, efl, wvl, odx, samples, shift_obj, method, desc, key, use_wf)
                            fb = R.fixed(route, relayout(b, lay), idx, efl, wvl, odx, samples, shift_obj, method, desc, key, use_wf)
                            c = (al * a + be * b).astype(np.complex64 if dbits == 32 else np.complex128)      # complex: U(x + i y) = U(x) + i U(y)
                            fc = R.fixed(route, relayout(c, lay), idx, efl, wvl, odx, samples, shift_obj, method, desc, key, use_wf)
                            if fa is None or fb is None or fc is None:
                                return None
                            return fc, al * fa + be * fb, None
                        with precision(bits):
                            judge(ctx, 'linearity', inst, sh, key, f'{route}_fixed_sampling(method={method}) is not linear'
                                  + ('' if fkind == 'complex' else ' over the complex numbers for fields stored in a real / integer / boolean dtype'), desc,
                                  rtol=rtol or RTOL, abs_tol=atol)


def wl_embedding(ctx, R):
    from ..util import precision
    rounds = ctx.pick(4, 1800)
    k = -1
    st = [0]
    for rnd in range(rounds):
        lo, hi = _sizes(rnd, rounds)
        for route in ('focus', 'unfocus'):
            for method in METHODS:
                for acls in ARRAY_CLASSES:
                    for scls in SHIFTS:
                        for emb in ('same-aspect', 'per-axis'):
                            k += 1
                            if not ctx.mine(k):
                                continue
                            _tick(st)
                            rng = case_rng(ctx, 2, k)
                            ocls = ['sq:e', 'sq:o', 'nonsq'][int(rng.integers(3))]
                            in_shape, idx, efl, wvl, odx, samples, shift, s = setup_fixed(rng, route, acls, ocls, scls, lo, hi)
                            if emb == 'same-aspect':
                                d = int(rng.integers(1, max(2, int(1.5 * max(in_shape))) + 1))
                                big = (in_shape[0] + d, in_shape[1] + d)
                            else:
                                big = tuple(int(rng.integers(n, int(2.5 * n) + 2)) for n in in_shape)
                                if big == in_shape:
                                    big = (big[0] + 1, big[1])
                            seed = int(rng.integers(2**31 - 1))
                            desc = {'rel': 'embedding', 'route': route,
                                    'method': method, 'in_shape': in_shape, 'embedded_shape': big, 'samples': samples, 'input_dx': idx,
                                    'efl': efl, 'wavelength': wvl, 'output_dx': odx, 'shift_samples': s, 'seed': seed}
                            v, sh, bits, dbits, lay = variant(rng, scls, shift, desc, f'embedding:{route}:{method}:{acls}->{ocls}:{emb}:shift={scls}')
                            ctx.case(desc)
                            fkind = FIELD_KINDS[(v // 13) % len(FIELD_KINDS)]
                            a = field_of_kind(np.random.default_rng(seed), fkind, in_shape, dbits)
                            desc['field_dtype'] = str(a.dtype)
                            g = geom_label(route, method, [in_shape, big], [samples])
                            shifted = scls != '0'
                            key = rel_key('embedding', route, method, g, shifted) if fkind == 'complex' else \
                                f'C05/embedding/{route}/{method}/real-dtype-field-in-complex-array'
                            single = bits == 32 or dbits == 32
                            rtol, atol = fixed_tolerance(ctx, single, sh, method, [in_shape, big], idx, odx, wvl, efl, [samples] * 2, s, [a, a])
                            if rtol is None and atol is None:
                                continue

                            def inst(shift_obj):
                                f1 = R.fixed(route, relayout(a, lay), idx, efl, wvl, odx, samples, shift_obj, method, desc, key)
                                # a field stored in a real / integer / boolean dtype is embedded in a COMPLEX zero array (the same physical field)
                                emb_a = place(a, big) if fkind == 'complex' else place(a, big).astype(np.complex64 if dbits == 32 else np.complex128)
                                f2 = R.fixed(route, relayout(emb_a, lay), idx, efl, wvl, odx, samples, shift_obj, method, desc, key)
                                if f1 is None or f2 is None:
                                    return None
                                return f2, f1, None
                            with precision(bits):
                                judge(ctx, 'embedding', inst, sh, key, rel_what('embedding', route, method, g), desc, rtol=rtol or RTOL,
                                      abs_tol=atol, modulus=shifted, compared='moduli' if shifted else 'complex')


def wl_transpose(ctx, R):
    from ..util import precision
    rounds = ctx.pick(4, 1350)
    k = -1
    st = [0]
    for rnd in range(rounds):
        lo, hi = _sizes(rnd, rounds)
        for route in ('focus', 'unfocus'):
            for method in METHODS:
                for acls in ARRAY_CLASSES:
                    for ocls in ('sq:e', 'sq:o', 'nonsq'):
                        for scls in SHIFTS:
                            k += 1
                            if not ctx.mine(k):
                                continue
                            _tick(st)
                            rng = case_rng(ctx, 3, k)
                            in_shape, idx, efl, wvl, odx, samples, shift, s = setup_fixed(rng, route, acls, ocls, scls, lo, hi)
                            seed = int(rng.integers(2**31 - 1))
                            desc = {'rel': 'transpose', 'route': route,
                                    'method': method, 'in_shape': in_shape, 'samples': samples, 'input_dx': idx, 'efl': efl,
                                    'wavelength': wvl, 'output_dx': odx, 'shift_samples': s, 'seed': seed}
                            v, sh, bits, dbits, lay = variant(rng, scls, shift, desc, f'transpose:{route}:{method}:{acls}->{ocls}:shift={scls}')
                            ctx.case(desc)
                            a = to_bits(cnormal(np.random.default_rng(seed), in_shape), dbits)
                            g = geom_label(route, method, [in_shape, in_shape[::-1]], [samples, samples[::-1]])
                            shifted = scls != '0'
                            key = rel_key('transpose', route, method, g, shifted)
                            single = bits == 32 or dbits == 32
                            rtol, atol = fixed_tolerance(ctx, single, sh, method, [in_shape, in_shape[::-1]], idx, odx, wvl, efl,
                                                         [samples, samples[::-1]], s, [a, a])
                            if rtol is None and atol is None:
                                continue

                            def inst(shift_obj):
                                f1 = R.fixed(route, relayout(a, lay), idx, efl, wvl, odx, samples, shift_obj, method, desc, key)
                                # the transposed problem gets the same container type with its two entries swapped (a reversed view
                                # of the caller's array for ndarrays -- it shares the caller's memory, like the original)
                                swapped = shift_obj[::-1]
                                at = a.T if lay == 'T-view' else relayout(np.ascontiguousarray(a.T), lay)
                                f2 = R.fixed(route, at, idx, efl, wvl, odx, samples[::-1], swapped, method, desc, key)
                                if f1 is None or f2 is None:
                                    return None
                                return f2, f1.T, None
                            with precision(bits):
                                judge(ctx, 'transposition', inst, sh, key, rel_what('transpose', route, method, g), desc, rtol=rtol or RTOL, abs_tol=atol)


def tfb_label(method, pupil_shape, P_):
    nonsq = not is_sq(pupil_shape)
    # one of the two czt legs maps an even-length axis to an odd length whenever pupil and mask parities differ
    eo = method == 'czt' and any(n % 2 != P_ % 2 for n in pupil_shape)
    if nonsq and eo:
        return 'nonsquare+even->odd'
    if eo:
        return 'even->odd'
    return 'nonsquare' if nonsq else 'square'


def tfb_key(method, label, shifted):
    """Key of a failing all-pass identity.  czt with a shift fails for every geometry (its return leg cannot undo the
    shift), so the shift label decides there; for mdft geometry and shift are independent mechanisms and the
    intersection class gets its own composite key."""
    if method == 'czt' and shifted:
        return 'C05/to_fpm_and_back/czt/shift!=0'
    if 'even->odd' in label:
        return f'C05/fixed-sampling/czt/{label}'
    if label == 'nonsquare':
        return 'C05/to_fpm_and_back/mdft/nonsquare+shift!=0' if shifted else 'C05/to_fpm_and_back/nonsquare'
    return f'C05/to_fpm_and_back/{method}/' + ('shift!=0' if shifted else 'shift=0')


def tfb_what(method, label, shifted):
    sh = ', shift != 0' if shifted else ''
    if 'even->odd' in label and not shifted:
        return rel_what('allpass', 'focus', method, label)
    if label == 'nonsquare' and not shifted:
        return ('to_fpm_and_back (either method) with an all-pass mask over exactly one focal-plane period does not return a '
                'non-square field')
    if label == 'nonsquare':
        return ('to_fpm_and_back(method=mdft, shift != 0) with an all-pass mask over exactly one focal-plane period does not '
                'return a non-square field')
    return (f'to_fpm_and_back(method={method}{sh}) with an all-pass mask over exactly one focal-plane period does not '
            f'return the field')


def exact_band(rng, acls, lo, hi):
    wvl, efl, dx = physical(rng)
    shp = draw_shape(rng, acls, lo, hi)
    P_ = int(rng.integers(max(shp), int(2.5 * max(shp)) + 2))        # mask samples per axis = one full period
    fdx = wvl * efl / (dx * P_)
    return wvl, efl, dx, shp, P_, fdx


def tfb_tolerance(ctx, single, sh, method, a, shp, mshape, dx, fdx, wvl, efl, s, mask_max=1.0):
    """(rtol, abs_tol) for relations between to_fpm_and_back results.  Single precision: the two legs' C01 tolerances
    (max of them) of ||a||_2 * max|mask| -- the bound C02 uses for a two-leg trip; None when ill-conditioned."""
    if sh.lowprec and method == 'czt':
        single = True         # see fixed_tolerance
    if not single:
        return (1e-4 if sh.lowprec else RTOL), None
    r1, _ = single_tol(method, shp, dx, fdx, wvl, efl, mshape, s)
    r2, _ = single_tol(method, mshape, fdx, dx, wvl, efl, shp, s)
    if r1 is None or r2 is None:
        ctx.skip('float32: kernel phase beyond the resolution of the working precision (tolerance would exceed 3e-2)')
        return None, None
    return None, max(r1, r2) * float(np.sqrt(np.sum(np.abs(a) ** 2))) * max(mask_max, 1e-300) * 2


def ones_mask(v, shape):
    """An all-pass mask as float, complex, integer or boolean array."""
    c = v % 5
    if c == 0:
        return np.ones(shape, dtype=complex)
    if c == 1:
        return np.ones(shape, dtype=np.int64)
    if c == 2:
        return np.ones(shape, dtype=bool)
    return np.ones(shape)


def wl_allpass(ctx, R):
    from ..util import precision
    rounds = ctx.pick(8, 2700)
    k = -1
    st = [0]
    for rnd in range(rounds):
        lo, hi = _sizes(rnd, rounds)
        for method in METHODS:
            for acls in ARRAY_CLASSES:
                for scls in SHIFTS:
                    for rel in ('identity', 'babinet'):
                        k += 1
                        if not ctx.mine(k):
                            continue
                        if rel == 'babinet' and scls != '0':
                            continue                        # Wavefront.babinet has no shift argument
                        _tick(st)
                        rng = case_rng(ctx, 4, k)
                        wvl, efl, dx, shp, P_, fdx = exact_band(rng, acls, lo, hi)
                        s = draw_shift(rng, scls)
                        shift = (s[0] * fdx, s[1] * fdx)
                        seed = int(rng.integers(2**31 - 1))
                        label = tfb_label(method, shp, P_)
                        shifted = scls != '0'
                        key = tfb_key(method, label, shifted)
                        desc = {'rel': 'allpass-' + rel, 'method': method,
                                'shape': shp, 'band_samples': P_, 'dx': dx, 'efl': efl, 'wavelength': wvl, 'fpm_dx': fdx,
                                'shift_samples': s, 'seed': seed}
                        v, sh, bits, dbits, lay = variant(rng, scls, shift, desc, f'allpass:{rel}:{method}:{acls}:{parity(P_)}-band:shift={scls}')
                        use_wf = bool(v % 2)
                        desc['api'] = 'Wavefront' if use_wf else 'function'
                        ctx.case(desc)
                        r2 = np.random.default_rng(seed)
                        a = to_bits(cnormal(r2, shp), dbits)
                        single = bits == 32 or dbits == 32
                        rtol, atol = tfb_tolerance(ctx, single, sh, method, a, shp, (P_, P_), dx, fdx, wvl, efl, s)
                        if rtol is None and atol is None:
                            continue
                        if rel == 'identity':
                            ones = ones_mask(v // 7, (P_, P_))
                            desc['mask_dtype'] = str(ones.dtype)

                            def inst(shift_obj):
                                o = R.tfb(relayout(a, lay), dx, efl, wvl, ones, fdx, shift_obj, method, desc, key, use_wf, more=bool((v // 7) % 3 == 0))
                                if o is None:
                                    return None
                                return o, a, None
                            with precision(bits):
                                judge(ctx, 'allpass-identity', inst, sh, key, tfb_what(method, label, shifted), desc, rtol=rtol or RTOL, abs_tol=atol)
                        else:
                            m = to_bits(r2.random((P_, P_)) if (v // 3) % 4 else cnormal(r2, (P_, P_)), dbits)
                            lyot = None if (v // 5) % 3 == 0 else (r2.random(shp) > 0.3).astype(float)

                            def inst(shift_obj):
                                t = R.tfb(relayout(a, lay), dx, efl, wvl, relayout(m, lay), fdx, (0, 0), method, desc, key)
                                out = [None]
                                with ctx.guard(key, desc, what=f'Wavefront.babinet(method={method})'):
                                    out[0] = np.array(R.P.Wavefront(relayout(a, lay), wvl, dx).babinet(efl, lyot, relayout(m, lay), fdx, method=method).data, copy=True)
                                if t is None or out[0] is None:
                                    return None
                                ref = t if lyot is None else lyot * t
                                return out[0], ref, float(np.max(np.abs(a)))
                            with precision(bits):
                                judge(ctx, 'babinet.exact-band', inst, sh, key,
                                      tfb_what(method, label, False) + ' [seen through Babinet: a - tfb(1-m) != tfb(m)]', desc,
                                      rtol=rtol or RTOL, abs_tol=None if atol is None else atol * max(1.0, float(np.max(np.abs(m)))) * 2)


def wl_masks(ctx, R):
    """Additivity / linearity in the mask and the Babinet composition at arbitrary mask sampling (not the exact band)."""
    from ..util import precision
    rounds = ctx.pick(4, 1050)
    k = -1
    st = [0]
    for rnd in range(rounds):
        lo, hi = _sizes(rnd, rounds)
        for method in METHODS:
            for acls in ARRAY_CLASSES:
                for mcls in ('sq:e', 'sq:o', 'nonsq'):
                    for rel in ('additivity', 'linearity', 'babinet'):
                        for scls in SHIFTS:
                            k += 1
                            if not ctx.mine(k):
                                continue
                            if rel == 'babinet' and scls != '0':
                                continue
                            _tick(st)
                            rng = case_rng(ctx, 5, k)
                            wvl, efl, dx = physical(rng)
                            shp = draw_shape(rng, acls, lo, hi)
                            mshape = draw_shape(rng, mcls, lo, hi + 6)
                            fdx = wvl * efl / (max(shp) * dx) * logu(rng, 0.3, 2.5)
                            s = draw_shift(rng, scls)
                            shift = (s[0] * fdx, s[1] * fdx)
                            seed = int(rng.integers(2**31 - 1))
                            desc = {'rel': 'mask-' + rel,
                                    'method': method, 'shape': shp, 'mask_shape': mshape, 'dx': dx, 'efl': efl, 'wavelength': wvl,
                                    'fpm_dx': fdx, 'shift_samples': s, 'seed': seed}
                            v0 = int(np.random.default_rng([seed, 3]).integers(1 << 30))
                            mkind = ('complex', 'real', 'real', 'int', 'bool')[(v0 // 2) % 5]
                            v, sh, bits, dbits, lay = variant(rng, scls, shift, desc,
                                                              f'mask:{rel}:{method}:{acls}:mask={mcls}:{mkind}:shift={scls}')
                            use_wf = bool(v % 2)
                            desc['api'] = 'Wavefront' if use_wf else 'function'
                            ctx.case(desc)
                            r2 = np.random.default_rng(seed)
                            a = to_bits(cnormal(r2, shp), dbits)

                            def mk():
                                if mkind == 'complex':
                                    return to_bits(cnormal(r2, mshape), dbits)
                                if mkind == 'int':
                                    return r2.integers(0, 4, mshape)
                                if mkind == 'bool':
                                    return r2.random(mshape) < 0.5
                                return to_bits(r2.random(mshape), dbits)
                            m1, m2 = mk(), mk()
                            one = ones_mask(v // 11, mshape)
                            single = bits == 32 or dbits == 32
                            mmax = float(max(np.max(np.abs(m1)), np.max(np.abs(m2)), 1.0))
                            rtol, atol = tfb_tolerance(ctx, single, sh, method, a, shp, mshape, dx, fdx, wvl, efl, s, mask_max=mmax)
                            if rtol is None and atol is None:
                                continue
                            A = relayout(a, lay)
                            with precision(bits):
                                if rel == 'additivity':
                                    key = f'C05/mask-additivity/{method}'
                                    comp = (~m1) if mkind == 'bool' else 1 - m1

                                    def inst(shift_obj):
                                        t1 = R.tfb(A, dx, efl, wvl, relayout(m1, lay), fdx, shift_obj, method, desc, key, use_wf)
                                        t2 = R.tfb(A, dx, efl, wvl, comp, fdx, shift_obj, method, desc, key, use_wf)
                                        t3 = R.tfb(A, dx, efl, wvl, one, fdx, shift_obj, method, desc, key, use_wf, more=bool((v // 7) % 3 == 0))
                                        if t1 is None or t2 is None or t3 is None:
                                            return None
                                        return t1 + t2, t3, max(float(np.max(np.abs(t3))), float(np.max(np.abs(t1))))
                                    judge(ctx, 'mask-additivity', inst, sh, key,
                                          f'to_fpm_and_back(method={method}): mask and complement do not sum to the unmasked result', desc,
                                          rtol=rtol or RTOL, abs_tol=None if atol is None else 3 * atol)
                                elif rel == 'linearity':
                                    key = f'C05/mask-linearity/{method}'
                                    al, be = complex(*r2.standard_normal(2)), complex(*r2.standard_normal(2))
                                    f1, f2 = m1.astype(float) if mkind in ('int', 'bool') else m1, m2.astype(float) if mkind in ('int', 'bool') else m2

                                    def inst(shift_obj):
                                        t1 = R.tfb(A, dx, efl, wvl, relayout(m1, lay), fdx, shift_obj, method, desc, key, use_wf)
                                        t2 = R.tfb(A, dx, efl, wvl, m2, fdx, shift_obj, method, desc, key, use_wf)
                                        t3 = R.tfb(A, dx, efl, wvl, al * f1 + be * f2, fdx, shift_obj, method, desc, key, use_wf)
                                        if t1 is None or t2 is None or t3 is None:
                                            return None
                                        return t3, al * t1 + be * t2, abs(al) * float(np.max(np.abs(t1))) + abs(be) * float(np.max(np.abs(t2)))
                                    judge(ctx, 'mask-linearity', inst, sh, key, f'to_fpm_and_back(method={method}) is not linear in the mask', desc,
                                          rtol=rtol or RTOL, abs_tol=None if atol is None else (abs(al) + abs(be) + abs(al) + abs(be)) * atol)
                                else:
                                    key = f'C05/babinet/{method}'
                                    cplx = mkind == 'complex'
                                    lyot = None if (v // 5) % 3 == 0 else (cnormal(r2, shp) if cplx else (r2.random(shp) > 0.3).astype(float))
                                    comp = (~m1) if mkind == 'bool' else 1 - m1

                                    def inst(shift_obj):
                                        t = R.tfb(A, dx, efl, wvl, comp, fdx, (0, 0), method, desc, key)
                                        out = [None]
                                        with ctx.guard(key, desc, what=f'Wavefront.babinet(method={method})'):
                                            if (v // 7) % 3 == 0:
                                                out[0] = R.P.Wavefront(A, wvl, dx).babinet(efl, lyot, m1, fdx, method=method, return_more=True)[0].data
                                            else:
                                                out[0] = R.P.Wavefront(A, wvl, dx).babinet(efl, lyot, m1, fdx, method=method).data
                                        if t is None or out[0] is None:
                                            return None
                                        ref = (a - t) if lyot is None else lyot * (a - t)
                                        return np.array(out[0], copy=True), ref, float(np.max(np.abs(a))) + float(np.max(np.abs(t)))
                                    lmax = 1.0 if lyot is None else float(np.max(np.abs(lyot)))
                                    judge(ctx, 'babinet', inst, sh, key,
                                          f'Wavefront.babinet(method={method}) != lyot * (field - to_fpm_and_back(1 - fpm))', desc,
                                          rtol=rtol or RTOL, abs_tol=None if atol is None else 3 * atol * max(lmax, 1.0))


# ------------------------------------------------------------------------------------------ class B: histories
def relation_step(ctx, R, kind, route, scls, seed, method, in_shape, big, samples, desc0, j, note='after other calls at the same array sizes',
                  adjoint_first=False, key_suffix='', band=None):
    """One step of a history: traffic, a float32 run of the same calls, or a relation instance judged at the full float64 tolerance."""
    from prysm.conf import config
    r2 = np.random.default_rng(seed)
    wvl, efl, dx = physical(r2)
    s = draw_shift(r2, scls)
    desc = dict(desc0, step=j, step_kind=kind, route=route, wavelength=wvl, efl=efl, dx=dx, shift_samples=s, seed=seed)
    shifted = scls != '0'
    if route == 'focus':
        idx = dx
        odx = wvl * efl / (max(in_shape) * dx) * logu(r2, 0.3, 2.5)
    else:
        odx = dx
        idx = wvl * efl / (max(samples) * dx) * logu(r2, 0.3, 2.5)
    hk = shift_kind(seed, scls)
    sh = ShiftArg('nd-f64' if (hk == 'nd-f32' and method == 'czt') else hk, (s[0] * odx, s[1] * odx))   # float32 shift + czt: see fixed_tolerance
    rt = 1e-4 if sh.lowprec else RTOL
    a = cnormal(r2, in_shape)
    if adjoint_first:
        # the adjoint routines (another property's consumers of the same cached bases) at exactly the keys the relation will use
        try:
            bp = R.P.focus_fixed_sampling_backprop if route == 'focus' else R.P.unfocus_fixed_sampling_backprop
            gb = cnormal(np.random.default_rng(seed + 3), samples)
            for shp_ in (in_shape, big):
                bp(gb, idx, efl, wvl, odx, shp_, shift=sh.fresh(), method='mdft')
        except Exception as e:  # noqa -- foreign routine
            ctx.event(f'foreign-traffic-raised:{type(e).__name__}')
    if kind == 'traffic':
        R.fixed(route, a, idx, efl, wvl, odx, samples, sh.obj, method, desc, f'C05/history/{method}')
        R.fixed(route, place(a, big), idx, efl, wvl, odx, samples, sh.obj, method, desc, f'C05/history/{method}')
        return
    if kind == 'p32-then-p64':
        config.precision = 32
        try:
            R.fixed(route, a.astype(np.complex64), idx, efl, wvl, odx, samples, sh.obj, method, desc, f'C05/history/{method}')
            R.fixed(route, place(a, big).astype(np.complex64), idx, efl, wvl, odx, samples, sh.obj, method, desc, f'C05/history/{method}')
        finally:
            config.precision = 64
        kind = 'embedding'
    if kind == 'embedding':
        g = geom_label(route, method, [in_shape, big], [samples])
        key = rel_key('embedding', route, method, g, shifted) + key_suffix

        def inst(shift_obj):
            f1 = R.fixed(route, a, idx, efl, wvl, odx, samples, shift_obj, method, desc, key)
            f2 = R.fixed(route, place(a, big), idx, efl, wvl, odx, samples, shift_obj, method, desc, key)
            return None if (f1 is None or f2 is None) else (f2, f1, None)
        judge(ctx, 'embedding', inst, sh, key, rel_what('embedding', route, method, g) + f' [{note}]',
              desc, rtol=rt, modulus=shifted)
    elif kind == 'transpose':
        g = geom_label(route, method, [in_shape, in_shape[::-1]], [samples, samples[::-1]])
        key = rel_key('transpose', route, method, g, shifted) + key_suffix

        def inst(shift_obj):
            f1 = R.fixed(route, a, idx, efl, wvl, odx, samples, shift_obj, method, desc, key)
            f2 = R.fixed(route, np.ascontiguousarray(a.T), idx, efl, wvl, odx, samples[::-1], shift_obj[::-1], method, desc, key)
            return None if (f1 is None or f2 is None) else (f2, f1.T, None)
        judge(ctx, 'transposition', inst, sh, key, rel_what('transpose', route, method, g) + f' [{note}]',
              desc, rtol=rt)
    elif kind == 'linearity':
        key = f'C05/linearity/{route}/{method}' + key_suffix
        b = cnormal(r2, in_shape)
        al, be = complex(*r2.standard_normal(2)), complex(*r2.standard_normal(2))

        def inst(shift_obj):
            fa = R.fixed(route, a, idx, efl, wvl, odx, samples, shift_obj, method, desc, key)
            fb = R.fixed(route, b, idx, efl, wvl, odx, samples, shift_obj, method, desc, key)
            fc = R.fixed(route, al * a + be * b, idx, efl, wvl, odx, samples, shift_obj, method, desc, key)
            return None if (fa is None or fb is None or fc is None) else (fc, al * fa + be * fb, None)
        judge(ctx, 'linearity', inst, sh, key, f'{route}_fixed_sampling(method={method}) is not linear [{note}]',
              desc, rtol=rt)
    else:
        # all-pass identity on the exact band with the history's pupil shape; the band size is fixed per history
        P_ = band or (max(in_shape) + 3)
        fdx = wvl * efl / (dx * P_)
        sh2 = ShiftArg('nd-f64' if (hk == 'nd-f32' and method == 'czt') else hk, (s[0] * fdx, s[1] * fdx))
        label = tfb_label(method, in_shape, P_)
        key = tfb_key(method, label, shifted) + key_suffix

        def inst(shift_obj):
            o = R.tfb(a, dx, efl, wvl, np.ones((P_, P_)), fdx, shift_obj, method, desc, key)
            return None if o is None else (o, a, None)
        judge(ctx, 'allpass-identity', inst, sh2, key, tfb_what(method, label, shifted) + f' [{note}]',
              desc, rtol=1e-4 if sh2.lowprec else RTOL)


def wl_history(ctx, R):
    """Relation instances after other traffic on the shared executors at the SAME array sizes: shifted calls with other
    wavelengths / focal lengths / spacings (the basis caches miss, anything keyed on the sizes alone hits), the same relation
    run in the float32 configuration first (32 -> 64 switch), both methods, no cache clearing inside a history.  The later
    relation instance is judged at the full float64 tolerance."""
    from prysm import fttools
    from prysm.conf import config
    n = ctx.pick(400, 225000)
    maxlen = ctx.pick(4, 10)
    for k in range(n):
        if not ctx.mine(k):
            continue
        rng = case_rng(ctx, 6, k)
        acls = ARRAY_CLASSES[int(rng.integers(len(ARRAY_CLASSES)))] if rng.random() < 0.4 else ('sq:e', 'sq:o')[int(rng.integers(2))]
        in_shape = draw_shape(rng, acls, 4, ctx.pick(9, 24))
        ocls = ('sq:e', 'sq:o', 'nonsq')[int(rng.integers(3))]
        samples = draw_shape(rng, ocls, 4, ctx.pick(13, 40))
        big = (in_shape[0] + int(rng.integers(1, 6)), in_shape[1] + int(rng.integers(1, 6)))
        method = 'mdft' if rng.random() < 0.7 else 'czt'
        L = int(rng.integers(2, maxlen + 1))
        steps = []
        for j in range(L):
            kind = ('traffic', 'traffic', 'embedding', 'transpose', 'linearity', 'allpass', 'p32-then-p64')[int(rng.integers(7))] if j < L - 1 else \
                ('embedding', 'transpose', 'linearity', 'allpass')[int(rng.integers(4))]
            steps.append((kind, ('focus', 'unfocus')[int(rng.integers(2))], SHIFTS[int(rng.integers(1, 3))] if kind == 'traffic' else SHIFTS[int(rng.integers(3))],
                          int(rng.integers(2**31 - 1))))
        desc0 = {'rel': 'history', 'class': f'history:{method}:{acls}->{ocls}:len{L}:{"+".join(sorted(set(s_[0] for s_ in steps)))}',
                 'method': method, 'in_shape': in_shape, 'embedded_shape': big, 'samples': samples, 'steps': [list(s_) for s_ in steps], 'k': k}
        ctx.case(desc0)
        fttools.mdft.clear()
        fttools.czt.clear()
        config.precision = 64
        try:
            for j, (kind, route, scls, seed) in enumerate(steps):
                ctx.observe('history.ops')
                relation_step(ctx, R, kind, route, scls, seed, method, in_shape, big, samples, desc0, j)
        finally:
            config.precision = 64
    fttools.mdft.clear()
    fttools.czt.clear()


# ------------------------------------------------------------------------------------------ class E: argument forms
FORM_ROUTINES = ('focus_fixed_sampling', 'unfocus_fixed_sampling', 'to_fpm_and_back', 'babinet')


def wl_forms(ctx, R):
    """Class E (vp/propforms.py): focus_ / unfocus_fixed_sampling and to_fpm_and_back in the canonical form (complex128 arrays,
    python floats / tuples, keywords, explicit defaults) and then in every other accepted form of the same numbers: field and
    mask dtype kinds (a real-dtype / integer / boolean array vs its complex copy), shift / sample counts in other containers,
    numpy and integer scalars, positional calls, omitted defaults after a call with other explicit values, the Wavefront method
    form.  The physical field is the same in every form, so the result must be.  Wavefront.babinet: lyot=None vs an explicit
    all-ones Lyot stop (float, integer, boolean), fpm_dx / method by keyword, positionally or omitted."""
    from .. import propforms as PF
    from ..util import precision
    P = R.P
    reps = ctx.pick(5, 800)
    k = -1
    for rep in range(reps):
        for routine in FORM_ROUTINES:
            for kind in PF.FIELD_KINDS:
                k += 1
                if not ctx.mine(k):
                    continue
                rng = case_rng(ctx, 8, k)
                bits = 32 if (k // ctx.nshards) % 5 == 4 else 64
                single = bits == 32
                if routine != 'babinet':
                    vals = PF.draw_values(routine, rng, kind)
                    if routine == 'to_fpm_and_back':
                        vals['method'] = ('mdft', 'czt')[int(rng.integers(2))]
                        mk = ('real', 'binary', 'complex', 'small-int')[int(rng.integers(4))]
                        vals['fpm'] = PF.make_field(mk, vals['fpm'].shape, int(rng.integers(2**31 - 1)))
                        fk = {'wavefunction': kind, 'fpm': mk}
                    else:
                        fk = {'wavefunction': kind}
                    desc = {'rel': 'forms', 'routine': routine, 'field_kind': kind, 'precision': bits, 'k': k,
                            'values': {a_: v_ for a_, v_ in vals.items() if not isinstance(v_, np.ndarray)}, 'in_shape': vals['wavefunction'].shape,
                            'class': f'forms:{routine}:{vals["method"]}:{kind}:p{bits}'}
                    ctx.case(desc)
                    with precision(bits):
                        PF.judge_forms(ctx, 'C05', routine, vals, desc, single=single, field_kinds=fk)
                    continue
                # Wavefront.babinet(efl, lyot, fpm, fpm_dx=None, method='mdft', return_more=False)
                vals = PF.draw_values('to_fpm_and_back', rng, kind)
                method = ('mdft', 'czt')[int(rng.integers(2))]
                a = vals['wavefunction'].astype(complex)
                m = vals['fpm']
                efl, wvl, dx, fdx = vals['efl'], vals['wavelength'], vals['dx'], vals['fpm_dx']
                desc = {'rel': 'forms', 'routine': 'Wavefront.babinet', 'field_kind': kind, 'precision': bits, 'k': k, 'method': method,
                        'in_shape': a.shape, 'mask_shape': m.shape, 'class': f'forms:babinet:{method}:{kind}:p{bits}'}
                ctx.case(desc)
                with precision(bits):
                    ref = [None]
                    with ctx.guard('C05/Wavefront.babinet/form:canonical', desc):
                        ref[0] = np.array(P.Wavefront(a.copy(), wvl, dx).babinet(efl=efl, lyot=None, fpm=m.copy(), fpm_dx=fdx, method=method, return_more=False).data, copy=True)
                    if ref[0] is None:
                        continue
                    ones = np.ones(a.shape)
                    forms = [('lyot', 'ones(float64)', lambda: P.Wavefront(a.copy(), wvl, dx).babinet(efl=efl, lyot=ones.copy(), fpm=m.copy(), fpm_dx=fdx, method=method)),
                             ('lyot', 'ones(int64)', lambda: P.Wavefront(a.copy(), wvl, dx).babinet(efl=efl, lyot=ones.astype(np.int64), fpm=m.copy(), fpm_dx=fdx, method=method)),
                             ('lyot', 'ones(bool)', lambda: P.Wavefront(a.copy(), wvl, dx).babinet(efl=efl, lyot=ones.astype(bool), fpm=m.copy(), fpm_dx=fdx, method=method)),
                             ('call', 'positional', lambda: P.Wavefront(a.copy(), wvl, dx).babinet(efl, None, m.copy(), fdx, method, False)),
                             ('return_more', 'True', lambda: P.Wavefront(a.copy(), wvl, dx).babinet(efl, None, m.copy(), fdx, method=method, return_more=True)[0]),
                             ('fpm', 'complex128', lambda: P.Wavefront(a.copy(), wvl, dx).babinet(efl, None, m.astype(complex), fpm_dx=fdx, method=method)),
                             ('field', 'real-or-int-dtype', lambda: P.Wavefront(vals['wavefunction'].astype(np.int64 if kind in ('small-int', 'binary') else vals['wavefunction'].dtype),
                                                                                 wvl, dx).babinet(efl, None, m.copy(), fpm_dx=fdx, method=method))]
                    if method == 'mdft':
                        def omitted():
                            try:
                                P.Wavefront(a.copy(), wvl, dx).babinet(efl, ones.copy(), m.copy(), fdx, method='czt', return_more=True)
                            except Exception:
                                pass
                            return P.Wavefront(a.copy(), wvl, dx).babinet(efl, None, m.copy(), fdx)
                        forms.append(('method+return_more', 'omitted(default)', omitted))
                    for arg, label, call in forms:
                        key = f'C05/Wavefront.babinet/form:{arg}={label}'
                        got = [None]
                        with ctx.guard(key, dict(desc, form=f'{arg}={label}')):
                            got[0] = np.array(call().data, copy=True)
                        if got[0] is None:
                            continue
                        ctx.observe('form.equivalence')
                        d = PF.rel_diff(got[0], ref[0])
                        # the Babinet difference field - tfb(1 - m) cancels: compare relative to the field, not to the (possibly tiny) result
                        d = d * float(np.max(np.abs(ref[0]))) / max(float(np.max(np.abs(a))), 1e-300) if np.isfinite(d) else d
                        if not d <= (PF.TOL_SINGLE if single else 1e-11):
                            ctx.violation(key + '/result-differs-from-canonical-form',
                                          f'Wavefront.babinet: the result for {arg} given as {label} differs from the canonical call (lyot=None, keywords)',
                                          dict(desc, form=f'{arg}={label}'), rel_diff=d)


# ------------------------------------------------------------------------------------------ class F: cross-module histories
def wl_foreign(ctx, R):
    """Class F: the other public consumers of fftrange / forward_ft_unit / make_xy_grid / pad2d and the shared executors run
    first at the case's axis lengths (non-zero shifts, ndarray containers, precision 32, returned arrays edited in place),
    then relation instances (embedding, transposition, linearity, all-pass identity) are judged at those lengths at the full
    float64 tolerance, nothing cleared in between."""
    from .. import propforms as PF
    from prysm.conf import config
    n = ctx.pick(16, 6400)
    for k in range(n):
        if not ctx.mine(k):
            continue
        rng = case_rng(ctx, 9, k)
        hi = ctx.pick(10, 24)
        base = sorted(set(int(v) for v in rng.integers(4, hi + 1, 3)))
        lengths = base + [max(base) + 3, base[0] + 1]
        method = ('mdft', 'czt')[int(rng.integers(2))]
        desc0 = {'rel': 'foreign', 'class': f'foreign-traffic-then-relations:{method}', 'lengths': lengths, 'method': method, 'k': k}
        ctx.case(desc0)
        config.precision = 64
        try:
            PF.foreign_traffic(ctx, rng, lengths, dxs=(0.1, 1.0), heavy=(k % 3 == 0), prefix='C05', desc=desc0)
            config.precision = 64
            for j in range(ctx.pick(5, 8)):
                in_shape = (base[int(rng.integers(len(base)))], base[int(rng.integers(len(base)))])
                samples = (lengths[int(rng.integers(len(lengths)))], lengths[int(rng.integers(len(lengths)))])
                big = tuple(min([L for L in lengths if L > n_] or [n_ + 1]) for n_ in in_shape)
                kind = ('embedding', 'transpose', 'linearity', 'allpass')[j % 4]
                route = ('focus', 'unfocus')[int(rng.integers(2))]
                scls = SHIFTS[int(rng.integers(3))]
                ctx.observe('history.ops')
                relation_step(ctx, R, kind, route, scls, int(rng.integers(2**31 - 1)), method, in_shape, big, samples, desc0, j,
                              note='after foreign traffic through the other consumers of the shared helpers', adjoint_first=True)
        finally:
            config.precision = 64


# ------------------------------------------------------------------------------------------ hardening pass 3: classes G / H / I
RULE = RULE + ('.  Hardening pass 3 -- class G: homogeneity F(s a) = s F(a) for s = 1e-12 ... 1e12 (both routes, both methods, every shift pattern), '
               'to_fpm_and_back homogeneous in the field and in the mask, the embedding relation on fields of those magnitudes, and every routine in '
               'other consistent units (metres everywhere, microns everywhere, nm in the focal plane, pupil x 1024, ...: equal results).  Class H: the '
               'embedding and transposition relations where the requested output grid is EXACTLY an FFT grid of the un-embedded array (the library\'s own '
               'Q_for_sampling returns 1, 2, 3 exactly; output_samples equal to the input shape or Q times it) with every shift pattern (x only, y only, '
               'both, none; zero component as int 0 / float 0.0); the all-pass identity on a band of exactly the pupil size (Q = 1 exactly on both legs).  '
               'Class I: thin arrays whose long axis has 65 ... 1024 samples (embedding, transposition, linearity), and the all-pass identity on bands '
               'whose size over the pupil size is within 1e-3 of an integer')
ASSUMPTIONS = ASSUMPTIONS + [
    'homogeneity is compared at 1e-11 (single precision: the relation tolerance) of max|s F(a)|; unit invariance at the relation tolerance of the call; '
    'exactly-special geometries are produced with the library\'s own expressions, draws for which the library\'s Q is not exactly the integer are excluded and counted',
]
REQUIRED = REQUIRED + ['scale.homogeneity', 'scale.unit-invariance', 'special.fft-grid-relations', 'size.large-or-prime']


class RawShift:
    """A shift tuple handed over as it is (an int 0 stays an int 0); same interface as ShiftArg."""
    kind = 'tuple'
    lowprec = False

    def __init__(self, values):
        self.obj = tuple(values)
        self.values = tuple(float(v) for v in values)

    def fresh(self):
        return self.obj

    def mutated(self):
        return False


def _typed_shift(s, unit):
    return tuple((v * unit if v != 0 else v) for v in s)


def wl_scale_units(ctx, R):
    """Class G: homogeneity, scaled-field embedding, and invariance under a consistent change of units."""
    from .. import propforms as PF
    from ..util import precision
    n = ctx.pick(800, 400000)
    st = [0]
    for k in range(n):
        if not ctx.mine(k):
            continue
        _tick(st)
        rng = case_rng(ctx, 11, k)
        j = k // ctx.nshards
        what = ('homogeneity', 'units', 'tfb-homogeneity', 'tfb-units', 'scaled-embedding')[j % 5]
        route = ('focus', 'unfocus')[int(rng.integers(2))]
        method = METHODS[int(rng.integers(2))]
        acls = ARRAY_CLASSES[int(rng.integers(len(ARRAY_CLASSES)))]
        ocls = ['sq:e', 'sq:o', 'nonsq'][int(rng.integers(3))]
        pname, s = PF.SHIFT_PATTERNS[int(rng.integers(len(PF.SHIFT_PATTERNS)))]
        lo, hi = 4, ctx.pick(12, 32)
        in_shape, idx, efl, wvl, odx, samples, _sh, _s = setup_fixed(rng, route, acls, ocls, '0', lo, hi)
        seed = int(rng.integers(2**31 - 1))
        v = int(rng.integers(1 << 30))
        bits, dbits = precision_class(v)
        single = bits == 32 or dbits == 32
        use_wf = bool(v % 2)
        sv = PF.SCALES[int(rng.integers(len(PF.SCALES)))]
        uname, al, be, ga, de = PF.UNIT_SYSTEMS[int(rng.integers(len(PF.UNIT_SYSTEMS)))]
        r2 = np.random.default_rng(seed)
        a = to_bits(cnormal(r2, in_shape), dbits)
        sf = (float(s[0]), float(s[1]))
        desc = {'rel': what, 'route': route, 'method': method, 'in_shape': in_shape, 'samples': samples, 'input_dx': idx, 'efl': efl, 'wavelength': wvl,
                'output_dx': odx, 'shift_samples': s, 'seed': seed, 'precision': bits, 'data_bits': dbits, 'api': 'Wavefront' if use_wf else 'function'}
        pc = f':p{bits}/d{dbits}' if (bits, dbits) != (64, 64) else ''
        if what in ('homogeneity', 'units', 'scaled-embedding'):
            sh = RawShift(_typed_shift(s, odx))
            if what == 'scaled-embedding':
                big = tuple(int(rng.integers(n_, int(2.5 * n_) + 2)) for n_ in in_shape)
                if big == in_shape:
                    big = (big[0] + 1, big[1])
                sa = (a * sv).astype(a.dtype)
                desc.update(s=sv, embedded_shape=big)
                desc['class'] = f'scaled-embedding:{route}:{method}:{acls}->{ocls}:{PF.scale_class(sv)}:shift={pname}{pc}'
                ctx.case(desc)
                g = geom_label(route, method, [in_shape, big], [samples])
                shifted = pname != 'none'
                key = rel_key('embedding', route, method, g, shifted)
                rtol, atol = fixed_tolerance(ctx, single, sh, method, [in_shape, big], idx, odx, wvl, efl, [samples] * 2, sf, [sa, sa])
                if rtol is None and atol is None:
                    continue

                def inst(shift_obj):
                    f1 = R.fixed(route, sa, idx, efl, wvl, odx, samples, shift_obj, method, desc, key)
                    f2 = R.fixed(route, place(sa, big), idx, efl, wvl, odx, samples, shift_obj, method, desc, key)
                    return None if (f1 is None or f2 is None) else (f2, f1, None)
                with precision(bits):
                    judge(ctx, 'embedding', inst, sh, key, rel_what('embedding', route, method, g) + f' [field of magnitude {sv:g}]', desc, rtol=rtol or RTOL,
                          abs_tol=atol, modulus=shifted)
                continue
            if what == 'homogeneity':
                desc.update(s=sv)
                desc['class'] = f'homogeneity:{route}:{method}:{acls}->{ocls}:{PF.scale_class(sv)}:shift={pname}{pc}'
                ctx.case(desc)
                key = f'C05/homogeneity/{route}/{method}/scale:{PF.scale_class(sv)}'
                rtol, atol = fixed_tolerance(ctx, single, sh, method, [in_shape] * 2, idx, odx, wvl, efl, [samples] * 2, sf, [a * sv, a * sv])
                if rtol is None and atol is None:
                    continue

                def inst(shift_obj):
                    f1 = R.fixed(route, a, idx, efl, wvl, odx, samples, shift_obj, method, desc, key, use_wf)
                    f2 = R.fixed(route, (a * sv).astype(a.dtype), idx, efl, wvl, odx, samples, shift_obj, method, desc, key, use_wf)
                    return None if (f1 is None or f2 is None) else (f2, sv * f1, None)
                with precision(bits):
                    judge(ctx, 'scale.homogeneity', inst, sh, key,
                          f'{route}_fixed_sampling(method={method}) is linear, but F(s a) != s F(a) for a field of magnitude s (tiny: s <= 1e-3, huge: s >= 1e3)', desc,
                          rtol=(1e-11 if rtol else RTOL), abs_tol=atol)
                continue
            desc.update(units=uname)
            desc['class'] = f'units:{route}:{method}:{acls}->{ocls}:{uname}:shift={pname}{pc}'
            ctx.case(desc)
            key = f'C05/unit-invariance/{route}/{method}'
            rtol, atol = fixed_tolerance(ctx, single, sh, method, [in_shape] * 2, idx, odx, wvl, efl, [samples] * 2, sf, [a, a])
            if rtol is None and atol is None:
                continue
            Qp = tuple(wvl * efl / (n_ * idx * odx) for n_ in in_shape)
            cond = 1000 * float(np.finfo(np.float64).eps) * kernel_phase(method, in_shape, Qp, samples, sf) * bound(a, in_shape, Qp)

            def inst(shift_obj):
                f1 = R.fixed(route, a, idx, efl, wvl, odx, samples, shift_obj, method, desc, key, use_wf)
                f2 = R.fixed(route, a, idx * al, efl * be, wvl * ga, odx * de, samples, _typed_shift(s, odx * de), method, desc, key, use_wf)
                return None if (f1 is None or f2 is None) else (f2, f1, None)
            with precision(bits):
                r = inst(sh.obj)
                if r is None:
                    continue
                ctx.observe('scale.unit-invariance')
                ref_max = float(np.max(np.abs(r[1]))) if np.isfinite(r[1]).all() else 0.0
                tol = atol if atol is not None else max(RTOL * ref_max, cond)
                err = max_err(r[0], r[1]) if r[0].shape == r[1].shape else float('inf')
                if not err <= tol:
                    ctx.violation(key, f'{route}_fixed_sampling(method={method}): the same propagation expressed in other consistent units (lambda f / (dx_in dx_out) '
                                  'and shift / dx_out unchanged) gives another field', desc, err=err, tol=tol)
            continue
        # to_fpm_and_back
        shp = draw_shape(rng, acls, lo, hi)
        mshape = draw_shape(rng, ocls, lo, hi + 6)
        dx = idx if route == 'focus' else odx
        fdx = wvl * efl / (max(shp) * dx) * logu(rng, 0.3, 2.5)
        sh = RawShift(_typed_shift(s, fdx))
        a = to_bits(cnormal(r2, shp), dbits)
        m1 = to_bits(cnormal(r2, mshape) if v % 3 else r2.random(mshape), dbits)
        desc = {'rel': what, 'method': method, 'shape': shp, 'mask_shape': mshape, 'dx': dx, 'efl': efl, 'wavelength': wvl, 'fpm_dx': fdx, 'shift_samples': s, 'seed': seed,
                'precision': bits, 'data_bits': dbits, 'api': 'Wavefront' if use_wf else 'function'}
        rtol, atol = tfb_tolerance(ctx, single, sh, method, a, shp, mshape, dx, fdx, wvl, efl, sf, mask_max=float(np.max(np.abs(m1))))
        if rtol is None and atol is None:
            continue
        if what == 'tfb-homogeneity':
            which = ('field', 'mask')[(j // 5) % 2]
            desc.update(s=sv, scaled=which)
            desc['class'] = f'tfb-homogeneity:{method}:{acls}:mask={ocls}:{which}:{PF.scale_class(sv)}:shift={pname}{pc}'
            ctx.case(desc)
            key = f'C05/to_fpm_and_back/{method}/scale:{PF.scale_class(sv)}/not-homogeneous-in-the-{which}'

            def inst(shift_obj):
                t1 = R.tfb(a, dx, efl, wvl, m1, fdx, shift_obj, method, desc, key, use_wf)
                if which == 'field':
                    t2 = R.tfb((a * sv).astype(a.dtype), dx, efl, wvl, m1, fdx, shift_obj, method, desc, key, use_wf)
                else:
                    t2 = R.tfb(a, dx, efl, wvl, (m1 * sv).astype(m1.dtype), fdx, shift_obj, method, desc, key, use_wf)
                return None if (t1 is None or t2 is None) else (t2, sv * t1, None)
            with precision(bits):
                judge(ctx, 'scale.homogeneity', inst, sh, key, f'to_fpm_and_back(method={method}) is linear in the field and in the mask, but a {which} of magnitude s '
                      'does not give s times the result', desc, rtol=(1e-11 if rtol else RTOL), abs_tol=None if atol is None else atol * sv * 2)
        else:
            desc.update(units=uname)
            desc['class'] = f'tfb-units:{method}:{acls}:mask={ocls}:{uname}:shift={pname}{pc}'
            ctx.case(desc)
            key = f'C05/unit-invariance/to_fpm_and_back/{method}'

            def inst(shift_obj):
                t1 = R.tfb(a, dx, efl, wvl, m1, fdx, shift_obj, method, desc, key, use_wf)
                t2 = R.tfb(a, dx * al, efl * be, wvl * ga, m1, fdx * de, _typed_shift(s, fdx * de), method, desc, key, use_wf)
                return None if (t1 is None or t2 is None) else (t2, t1, float(np.sqrt(np.sum(np.abs(a) ** 2))) * max(float(np.max(np.abs(m1))), 1e-300))
            with precision(bits):
                r = inst(sh.obj)
                if r is None:
                    continue
                ctx.observe('scale.unit-invariance')
                Q1 = tuple(wvl * efl / (n_ * dx * fdx) for n_ in shp)
                Q2 = tuple(wvl * efl / (n_ * dx * fdx) for n_ in mshape)
                eps = float(np.finfo(np.float64).eps)
                phi = kernel_phase(method, shp, Q1, mshape, sf) + kernel_phase(method, mshape, Q2, shp, sf)
                tol = atol * 2 if atol is not None else max(RTOL, 1000 * eps * phi) * r[2]
                err = max_err(r[0], r[1]) if r[0].shape == r[1].shape else float('inf')
                if not err <= tol:
                    ctx.violation(key, f'to_fpm_and_back(method={method}): the same trip expressed in other consistent units gives another field', desc, err=err, tol=tol)


def wl_special(ctx, R):
    """Class H: relations where the requested grid is exactly an FFT grid of the (un-embedded) array and a shift is requested."""
    from .. import propforms as PF
    from prysm import propagation as P
    from ..util import precision
    k = -1
    st = [0]
    for rep in range(ctx.pick(2, 500)):
        hi = 9 if rep == 0 else ctx.pick(12, 32)
        for route in ('focus', 'unfocus'):
            for method in METHODS:
                for q in (1, 2, 3):
                    for ocls in ('same-as-input', 'fft-grid'):
                        for pname, s in PF.SHIFT_PATTERNS:
                            for rel in ('embedding', 'transpose', 'allpass'):
                                k += 1
                                if not ctx.mine(k):
                                    continue
                                if rel == 'allpass' and (route == 'unfocus' or ocls == 'fft-grid' or q != 1):
                                    continue
                                _tick(st)
                                rng = case_rng(ctx, 12, k)
                                v = int(rng.integers(1 << 30))
                                N = int(rng.integers(4, hi + 1))
                                nonsq = rel != 'allpass' and (v // 11) % 4 == 3
                                shp = (N, N) if not nonsq else (N, int(rng.integers(3, hi + 1)))
                                g = PF.exact_Q_geometry(rng, N, q)
                                if g is None:
                                    ctx.skip('special: no draw for which the library\'s own Q is exactly the integer')
                                    continue
                                wvl, efl, idx, odx = g
                                if P.Q_for_sampling(N * idx, efl, wvl, odx) != q:
                                    ctx.skip('special: the library\'s own Q is not exactly the integer for this draw')
                                    continue
                                ulp = ('', '+1ulp', '', '-1ulp', '', '')[(v // 5) % 6] if rel != 'allpass' else ''      # special only up to rounding
                                if ulp:
                                    odx = float(np.nextafter(odx, np.inf if ulp == '+1ulp' else 0.0))
                                samples = shp if ocls == 'same-as-input' else (shp[0] * q, shp[1] * q)
                                seed = int(rng.integers(2**31 - 1))
                                bits, dbits = precision_class(v)
                                single = bits == 32 or dbits == 32
                                a = to_bits(cnormal(np.random.default_rng(seed), shp), dbits)
                                sh = RawShift(_typed_shift(s, odx))
                                sf = (float(s[0]), float(s[1]))
                                shifted = pname != 'none'
                                desc = {'rel': 'special-' + rel, 'route': route, 'method': method, 'in_shape': shp, 'samples': samples, 'input_dx': idx, 'efl': efl, 'wavelength': wvl,
                                        'output_dx': odx, 'Q_library': q, 'shift_samples': s, 'seed': seed, 'precision': bits, 'data_bits': dbits,
                                        'class': f'special:{rel}:{route}:{method}:Q=={q}{ulp}:{ocls}:{"nonsq" if nonsq else "sq:" + parity(N)}:shift={pname}'
                                                 + (f':p{bits}/d{dbits}' if (bits, dbits) != (64, 64) else '')}
                                ctx.case(desc)
                                ctx.observe('special.fft-grid-relations')
                                use_wf = bool(v % 2)
                                with precision(bits):
                                    if rel == 'embedding':
                                        big = tuple(int(rng.integers(n_ + 1, int(2.5 * n_) + 3)) for n_ in shp)
                                        desc['embedded_shape'] = big
                                        gl = geom_label(route, method, [shp, big], [samples])
                                        key = rel_key('embedding', route, method, gl, shifted)
                                        rtol, atol = fixed_tolerance(ctx, single, sh, method, [shp, big], idx, odx, wvl, efl, [samples] * 2, sf, [a, a])
                                        if rtol is None and atol is None:
                                            continue

                                        def inst(shift_obj):
                                            f1 = R.fixed(route, a, idx, efl, wvl, odx, samples, shift_obj, method, desc, key, use_wf)
                                            f2 = R.fixed(route, place(a, big), idx, efl, wvl, odx, samples, shift_obj, method, desc, key, use_wf)
                                            return None if (f1 is None or f2 is None) else (f2, f1, None)
                                        judge(ctx, 'embedding', inst, sh, key, rel_what('embedding', route, method, gl) + ' [requested grid exactly an FFT grid of the un-embedded array]',
                                              desc, rtol=rtol or RTOL, abs_tol=atol, modulus=shifted, compared='moduli' if shifted else 'complex')
                                    elif rel == 'transpose':
                                        gl = geom_label(route, method, [shp, shp[::-1]], [samples, samples[::-1]])
                                        key = rel_key('transpose', route, method, gl, shifted)
                                        rtol, atol = fixed_tolerance(ctx, single, sh, method, [shp, shp[::-1]], idx, odx, wvl, efl, [samples, samples[::-1]], sf, [a, a])
                                        if rtol is None and atol is None:
                                            continue

                                        def inst(shift_obj):
                                            f1 = R.fixed(route, a, idx, efl, wvl, odx, samples, shift_obj, method, desc, key, use_wf)
                                            f2 = R.fixed(route, np.ascontiguousarray(a.T), idx, efl, wvl, odx, samples[::-1], shift_obj[::-1], method, desc, key, use_wf)
                                            return None if (f1 is None or f2 is None) else (f2, f1.T, None)
                                        judge(ctx, 'transposition', inst, sh, key, rel_what('transpose', route, method, gl) + ' [requested grid exactly an FFT grid]', desc,
                                              rtol=rtol or RTOL, abs_tol=atol)
                                    else:
                                        # band of exactly the pupil size: Q == 1 exactly on both legs
                                        label = tfb_label(method, shp, N)
                                        key = tfb_key(method, label, shifted)
                                        rtol, atol = tfb_tolerance(ctx, single, sh, method, a, shp, (N, N), idx, odx, wvl, efl, sf)
                                        if rtol is None and atol is None:
                                            continue
                                        ones = ones_mask(v // 7, (N, N))

                                        def inst(shift_obj):
                                            o = R.tfb(a, idx, efl, wvl, ones, odx, shift_obj, method, desc, key, use_wf, more=bool((v // 7) % 3 == 0))
                                            return None if o is None else (o, a, None)
                                        judge(ctx, 'allpass-identity', inst, sh, key, tfb_what(method, label, shifted) + ' [band of exactly the pupil size: Q = 1 on both legs]', desc,
                                              rtol=rtol or RTOL, abs_tol=atol)


def wl_sizes(ctx, R):
    """Class I: thin arrays whose long axis has 65 ... 1024 samples: embedding / transposition / linearity through both routes, and
    the all-pass identity on a band whose size over the pupil size is within 1e-3 of an integer (mdft and czt, unshifted)."""
    from .. import propforms as PF
    from prysm import fttools
    jobs = [(nn, [nn, nn + 1, 2 * nn, 97][i % 4]) for i, nn in enumerate(PF.AWKWARD_SIZES + PF.LARGE_SIZES[:ctx.pick(3, 5)])]
    jobs += [(nn, MM) for (nn, MM) in PF.NEAR_INTEGER_PAIRS[:ctx.pick(3, 8)]]
    if not ctx.quick:
        g_ = np.random.default_rng([ctx.seed, 977])
        jobs += [(int(g_.integers(64, 1100)), int(g_.integers(64, 1300))) for _ in range(120)]
    k = -1
    for ji, (nn, MM) in enumerate(jobs):
        for route in ('focus', 'unfocus'):
            for method in METHODS:
                for rel in ('embedding', 'transpose', 'linearity'):
                    k += 1
                    if not ctx.mine(k):
                        continue
                    if ctx.quick and (k // ctx.nshards) % 2 and nn > 300:
                        continue
                    rng = case_rng(ctx, 13, k)
                    shp = PF.thin(nn, ji + k)
                    samples = tuple(MM if v_ == nn else (v_ if v_ > 1 else 1) for v_ in shp)
                    along_x = shp[1] == nn
                    wvl, efl, dx = physical(rng)
                    if route == 'focus':
                        idx, odx = dx, PF.lib_spacing(dx, MM, wvl, efl) if (nn, MM) in PF.NEAR_INTEGER_PAIRS else wvl * efl / (nn * dx) * logu(rng, 0.3, 2.5)
                    else:
                        odx, idx = dx, PF.lib_spacing(dx, MM, wvl, efl) if (nn, MM) in PF.NEAR_INTEGER_PAIRS else wvl * efl / (MM * dx) * logu(rng, 0.3, 2.5)
                    shifted = bool((k // ctx.nshards) % 3 == 1)
                    s = (0, 0) if not shifted else ((2.5, 0) if along_x else (0.0, -3))
                    sh = RawShift(_typed_shift(s, odx))
                    seed = int(rng.integers(2**31 - 1))
                    r2 = np.random.default_rng(seed)
                    a = cnormal(r2, shp)
                    desc = {'rel': 'sizes-' + rel, 'route': route, 'method': method, 'in_shape': shp, 'samples': samples, 'input_dx': idx, 'efl': efl, 'wavelength': wvl,
                            'output_dx': odx, 'shift_samples': s, 'seed': seed,
                            'class': f'sizes:{rel}:{route}:{method}:{"x" if along_x else "y"}-axis:{nn}->{MM}:{"shifted" if shifted else "unshifted"}'}
                    ctx.case(desc)
                    ctx.observe('size.large-or-prime')
                    Qp = tuple(wvl * efl / (n_ * idx * odx) for n_ in shp)
                    sf = (float(s[0]), float(s[1]))
                    eps = float(np.finfo(np.float64).eps)
                    if rel == 'embedding':
                        big = tuple(v_ + (int(rng.integers(1, 40)) if v_ == nn else int(rng.integers(0, 3))) for v_ in shp)
                        desc['embedded_shape'] = big
                        gl = geom_label(route, method, [shp, big], [samples])
                        key = rel_key('embedding', route, method, gl, shifted) + '/size:long-axis'
                        # large arrays: the threshold follows the kernel phase (C01's conditioning rule)
                        Qb = tuple(wvl * efl / (n_ * idx * odx) for n_ in big)
                        rt = max(RTOL, 1000 * eps * max(kernel_phase(method, shp, Qp, samples, sf), kernel_phase(method, big, Qb, samples, sf)))

                        def inst(shift_obj):
                            f1 = R.fixed(route, a, idx, efl, wvl, odx, samples, shift_obj, method, desc, key)
                            f2 = R.fixed(route, place(a, big), idx, efl, wvl, odx, samples, shift_obj, method, desc, key)
                            return None if (f1 is None or f2 is None) else (f2, f1, bound(a, shp, Qp))
                        judge(ctx, 'embedding', inst, sh, key, rel_what('embedding', route, method, gl) + ' [thin array, long axis]', desc, rtol=rt, modulus=shifted)
                    elif rel == 'transpose':
                        gl = geom_label(route, method, [shp, shp[::-1]], [samples, samples[::-1]])
                        key = rel_key('transpose', route, method, gl, shifted) + '/size:long-axis'
                        rt = max(RTOL, 1000 * eps * kernel_phase(method, shp, Qp, samples, sf))

                        def inst(shift_obj):
                            f1 = R.fixed(route, a, idx, efl, wvl, odx, samples, shift_obj, method, desc, key)
                            f2 = R.fixed(route, np.ascontiguousarray(a.T), idx, efl, wvl, odx, samples[::-1], shift_obj[::-1], method, desc, key)
                            return None if (f1 is None or f2 is None) else (f2, f1.T, bound(a, shp, Qp))
                        judge(ctx, 'transposition', inst, sh, key, rel_what('transpose', route, method, gl) + ' [thin array, long axis]', desc, rtol=rt)
                    else:
                        key = f'C05/linearity/{route}/{method}/size:long-axis'
                        b = cnormal(r2, shp)
                        al_, be_ = complex(*r2.standard_normal(2)), complex(*r2.standard_normal(2))
                        rt = max(RTOL, 1000 * eps * kernel_phase(method, shp, Qp, samples, sf))

                        def inst(shift_obj):
                            fa = R.fixed(route, a, idx, efl, wvl, odx, samples, shift_obj, method, desc, key)
                            fb = R.fixed(route, b, idx, efl, wvl, odx, samples, shift_obj, method, desc, key)
                            fc = R.fixed(route, al_ * a + be_ * b, idx, efl, wvl, odx, samples, shift_obj, method, desc, key)
                            return None if (fa is None or fb is None or fc is None) else (fc, al_ * fa + be_ * fb, (abs(al_) + abs(be_)) * bound(np.abs(a) + np.abs(b), shp, Qp))
                        judge(ctx, 'linearity', inst, sh, key, f'{route}_fixed_sampling(method={method}) is not linear [thin array, long axis]', desc, rtol=rt)
                    fttools.mdft.clear()
                    fttools.czt.clear()
    # all-pass identity: band size / pupil size within 1e-3 of an integer (thin pupil, P x P mask)
    k = -1
    for (nn, MM) in PF.NEAR_INTEGER_PAIRS[:ctx.pick(3, 8)]:
        for method in METHODS:
            for use_wf in (False, True):
                k += 1
                if not ctx.mine(k):
                    continue
                if ctx.quick and k >= 8:
                    continue
                rng = case_rng(ctx, 14, k)
                shp = (1, nn) if k % 2 == 0 else (nn, 1)
                wvl, efl, dx = physical(rng)
                fdx = wvl * efl / (dx * MM)
                seed = int(rng.integers(2**31 - 1))
                a = cnormal(np.random.default_rng(seed), shp)
                label = tfb_label(method, shp, MM)
                key = tfb_key(method, label, False) + '/size:near-integer-Q'
                desc = {'rel': 'sizes-allpass', 'method': method, 'shape': shp, 'band_samples': MM, 'dx': dx, 'efl': efl, 'wavelength': wvl, 'fpm_dx': fdx, 'shift_samples': (0, 0),
                        'seed': seed, 'api': 'Wavefront' if use_wf else 'function', 'class': f'sizes:allpass:{method}:{shape_kind_(shp)}:{nn}->{MM}'}
                ctx.case(desc)
                ctx.observe('size.large-or-prime')
                Q1 = tuple(MM / n_ for n_ in shp)
                eps = float(np.finfo(np.float64).eps)
                rt = max(RTOL, 1000 * eps * (kernel_phase(method, shp, Q1, (MM, MM), (0., 0.)) + kernel_phase(method, (MM, MM), (1., 1.), shp, (0., 0.))))

                def inst(shift_obj):
                    o = R.tfb(a, dx, efl, wvl, np.ones((MM, MM)), fdx, shift_obj, method, desc, key, use_wf)
                    return None if o is None else (o, a, float(np.sqrt(np.sum(np.abs(a) ** 2))))
                judge(ctx, 'allpass-identity', inst, RawShift((0, 0)), key, tfb_what(method, label, False) + ' [band / pupil size within 1e-3 of an integer]', desc, rtol=rt)
                fttools.mdft.clear()
                fttools.czt.clear()


# ------------------------------------------------------------------------------------------ hardening pass 4: class N (backend configuration)
RULE = RULE + ('.  Hardening pass 4 -- class N: every law of the module (embedding, transposition, linearity, all-pass identity incl. one-axis mask shifts, mask '
               'additivity, Babinet) is also run with prysm\'s FFT backend swapped to numpy.fft (prysm.mathops.fft._srcmodule, the documented mechanism; no '
               'next_fast_len there, so the power-of-two fallback sizes the chirp-z convolution), both methods and routes, on axis pairs enumerated by the class '
               'of m + M - 1 (exactly a power of two, one above, one below, generic; thin arrays of 63 ... 257 samples), plus backend equivalence: the same call '
               'under numpy.fft and under the default backend gives the same field (executor caches shared across the swap)')
ASSUMPTIONS = ASSUMPTIONS + [
    'the FFT backend is configuration: the reference tree runs every routine of the property under numpy.fft (established on /repo @ 66c5405: all relations '
    'hold to 1e-12); a call under numpy.fft must satisfy the same relations at the same tolerance and equal the default-backend result to 1e-9 of its maximum',
]
REQUIRED = REQUIRED + ['backend.relations', 'backend.equivalence']
BACKEND_KEY = '/backend:numpy.fft'
SUM_CLASSES = ('pow2', 'pow2+1', 'pow2-1', 'generic')


def is_pow2(t):
    return t >= 1 and (t & (t - 1)) == 0


def sum_pair(rng, cls, lo, hi, ordered=False):
    """(m, M): input / output length of one axis whose chirp-z convolution length m + M - 1 is of the class (exactly a power of two,
    one above, one below, none of those); ordered=True asks for M >= m (a band no smaller than the pupil)."""
    for _ in range(400):
        m = int(rng.integers(lo, hi + 1))
        if cls == 'generic':
            M = int(rng.integers(m if ordered else lo, hi + 6))
            t = m + M - 1
            if is_pow2(t) or is_pow2(t - 1) or is_pow2(t + 1):
                continue
        else:
            t = (1 << int(rng.integers(3, 7 if hi > 16 else 6))) + {'pow2': 0, 'pow2+1': 1, 'pow2-1': -1}[cls]
            M = t + 1 - m
        if M >= 2 and M <= 3 * hi + 8 and (M >= m or not ordered):
            return m, M
    return lo + 1, lo + 3


def wl_backend(ctx, R):
    """Class N: the relations of the module with the FFT backend swapped to numpy.fft, and the same call under both backends."""
    import numpy.fft as npfft
    from prysm import fttools
    from prysm.conf import config
    from ..util import fft_backend
    import contextlib
    import copy

    def backend(on):
        return fft_backend(npfft) if on else contextlib.nullcontext()
    kinds = ('embedding', 'transpose', 'linearity', 'allpass', 'equivalence', 'tfb-equivalence', 'masks')
    fttools.mdft.clear()
    fttools.czt.clear()
    config.precision = 64
    k = -1
    st = [0]
    jobs = []
    for rnd in range(ctx.pick(1, 40)):
        hi = 12 if rnd < 2 else (16 if rnd < 12 else (24 if rnd < 30 else 32))
        for kind in kinds:
            for route in ('focus', 'unfocus'):
                for method in METHODS:
                    for scy in SUM_CLASSES:
                        for scls in SHIFTS:
                            jobs.append((kind, route, method, scy, scls, hi, None))
    # thin arrays with a long axis (class I sizes) under the backend
    for i, nn in enumerate((63, 65, 100, 129, 257)[:ctx.pick(4, 5)]):
        for route in ('focus', 'unfocus'):
            for kind in ('embedding', 'linearity', 'equivalence'):
                jobs.append((kind, route, 'czt', 'generic', SHIFTS[(i + len(jobs)) % 3], 12, nn))
    for (kind, route, method, scy, scls, hi, thin_n) in jobs:
        k += 1
        if not ctx.mine(k):
            continue
        _tick(st)
        rng = case_rng(ctx, 15, k)
        scx = SUM_CLASSES[int(rng.integers(len(SUM_CLASSES)))]
        seed = int(rng.integers(2**31 - 1))
        if thin_n is not None:
            MM = [thin_n, thin_n + 1, 2 * thin_n, 97][k % 4]
            if is_pow2(thin_n + MM - 1):
                MM += 1
            flip = bool(rng.integers(2))
            in_shape, samples = ((1, thin_n), (1, MM)) if flip else ((thin_n, 1), (MM, 1))
            big = tuple(v_ + (int(rng.integers(1, 30)) if v_ == thin_n else 0) for v_ in in_shape)
            band = None
            scx = 'thin'
        elif kind == 'allpass':
            # square or non-square pupil, one P x P band: both legs have the convolution length n + P - 1 of the class on axis 0
            m0, P_ = sum_pair(rng, scy, 4, hi, ordered=True)
            m1 = m0 if rng.random() < 0.5 else int(rng.integers(2, m0 + 1))
            in_shape, samples, big, band = (m0, m1), (P_, P_), (m0 + 1, m1 + 1), P_
            if method == 'czt':
                scls = '0'                 # czt with a mask shift does not round-trip on the reference tree (ledger: C05/to_fpm_and_back/czt/shift!=0)
        else:
            (m0, M0), (m1, M1) = sum_pair(rng, scy, 4, hi), sum_pair(rng, scx, 4, hi)
            in_shape, samples, band = (m0, m1), (M0, M1), None
            big = (m0 + int(rng.integers(1, 6)), m1 + int(rng.integers(0, 6)))
        desc0 = {'rel': 'backend-' + kind, 'backend': 'numpy.fft', 'route': route, 'method': method, 'in_shape': in_shape, 'embedded_shape': big, 'samples': samples,
                 'conv_length_class': [scy, scx], 'shift_class': scls, 'seed': seed, 'k': k,
                 'class': f'backend:numpy.fft:{kind}:{route}:{method}:m+M-1={scy}/{scx}:shift={scls}'}
        ctx.case(desc0)

        def step(on, kind=kind, route=route, method=method, scls=scls, k=k, seed=seed, in_shape=in_shape, big=big, samples=samples, band=band, desc0=desc0):
            if kind in ('embedding', 'transpose', 'linearity', 'allpass'):
                ctx.observe('backend.relations')
                with backend(on):
                    relation_step(ctx, R, kind, route, scls, seed, method, in_shape, big, samples, desc0, 0, note='FFT backend numpy.fft',
                                  key_suffix=BACKEND_KEY if on else '', band=band)
                return
            r2 = np.random.default_rng(seed)
            wvl, efl, dx = physical(r2)
            s = draw_shift(r2, scls)
            default_first = bool(k // ctx.nshards % 2)
            if kind == 'equivalence':
                if route == 'focus':
                    idx, odx = dx, wvl * efl / (max(in_shape) * dx) * logu(r2, 0.3, 2.5)
                else:
                    odx, idx = dx, wvl * efl / (max(samples) * dx) * logu(r2, 0.3, 2.5)
                sh = RawShift(_typed_shift(s, odx))
                a = cnormal(r2, in_shape) if k % 3 else r2.standard_normal(in_shape)
                desc = dict(desc0, input_dx=idx, output_dx=odx, efl=efl, wavelength=wvl, shift_samples=s, default_backend_first=default_first)
                key = f'C05/backend-equivalence/{route}/{method}' + (BACKEND_KEY if on else '')
                use_wf = bool(k // ctx.nshards % 3 == 1)

                def call():
                    return R.fixed(route, a, idx, efl, wvl, odx, samples, sh.obj, method, desc, key, use_wf)
                Qp = tuple(wvl * efl / (n_ * idx * odx) for n_ in in_shape)
                eps = float(np.finfo(np.float64).eps)
                rt = max(RTOL, 1000 * eps * kernel_phase(method, in_shape, Qp, samples, (float(s[0]), float(s[1]))))
                what = f'{route}_fixed_sampling(method={method}) under the numpy.fft FFT backend differs from the default backend'
            else:
                mshape = samples
                fdx = wvl * efl / (max(in_shape) * dx) * logu(r2, 0.3, 2.5)
                sh = RawShift(_typed_shift(s, fdx))
                a = cnormal(r2, in_shape)
                m1_ = cnormal(r2, mshape) if k % 3 else r2.random(mshape)
                desc = dict(desc0, mask_shape=mshape, dx=dx, fpm_dx=fdx, efl=efl, wavelength=wvl, shift_samples=s, default_backend_first=default_first)
                use_wf = bool(k // ctx.nshards % 3 == 1)
                rt = RTOL
                if kind == 'tfb-equivalence':
                    key = f'C05/backend-equivalence/to_fpm_and_back/{method}' + (BACKEND_KEY if on else '')

                    def call():
                        return R.tfb(a, dx, efl, wvl, m1_, fdx, sh.obj, method, desc, key, use_wf)
                    what = f'to_fpm_and_back(method={method}) under the numpy.fft FFT backend differs from the default backend'
                else:
                    # mask additivity and Babinet composition under the backend
                    comp = 1 - m1_
                    one = np.ones(mshape)
                    lyot = None if k % 2 else (r2.random(in_shape) > 0.3).astype(float)
                    with backend(on):
                        ctx.observe('backend.relations')
                        key = f'C05/mask-additivity/{method}' + (BACKEND_KEY if on else '')

                        def inst(shift_obj):
                            t1 = R.tfb(a, dx, efl, wvl, m1_, fdx, shift_obj, method, desc, key, use_wf)
                            t2 = R.tfb(a, dx, efl, wvl, comp, fdx, shift_obj, method, desc, key, use_wf)
                            t3 = R.tfb(a, dx, efl, wvl, one, fdx, shift_obj, method, desc, key, use_wf)
                            if t1 is None or t2 is None or t3 is None:
                                return None
                            return t1 + t2, t3, max(float(np.max(np.abs(t3))), float(np.max(np.abs(t1))))
                        judge(ctx, 'mask-additivity', inst, sh, key,
                              f'to_fpm_and_back(method={method}): mask and complement do not sum to the unmasked result [FFT backend numpy.fft]', desc)
                        key = f'C05/babinet/{method}' + (BACKEND_KEY if on else '')

                        def inst(shift_obj):
                            t = R.tfb(a, dx, efl, wvl, comp, fdx, (0, 0), method, desc, key)
                            out = [None]
                            with ctx.guard(key, desc, what=f'Wavefront.babinet(method={method})'):
                                out[0] = np.array(R.P.Wavefront(a, wvl, dx).babinet(efl, lyot, m1_, fdx, method=method).data, copy=True)
                            if t is None or out[0] is None:
                                return None
                            return out[0], (a - t) if lyot is None else lyot * (a - t), float(np.max(np.abs(a))) + float(np.max(np.abs(t)))
                        judge(ctx, 'babinet', inst, RawShift((0, 0)), key,
                              f'Wavefront.babinet(method={method}) != lyot * (field - to_fpm_and_back(1 - fpm)) [FFT backend numpy.fft]', desc)
                    return
            # backend equivalence: the same call under the default backend and under numpy.fft, caches shared across the swap
            if default_first:
                f0 = call()
            with backend(on):
                f1 = call()
            if not default_first:
                f0 = call()
            if f0 is None or f1 is None:
                return

            def inst(shift_obj):
                return f1, f0, None
            judge(ctx, 'backend.equivalence', inst, sh, key, what, desc, rtol=rt)

        # one mechanism, one key: a step that fails under numpy.fft is re-run under the default backend; if it holds there the backend is the
        # cause (the keys of the first run are replaced by one key per method), otherwise the ordinary keys of the control run are kept
        before = copy.deepcopy(ctx.violations)
        step(True)
        changed = sorted(k_ for k_, v_ in ctx.violations.items() if v_['count'] != before.get(k_, {'count': 0})['count'])
        if changed:
            first = ctx.violations[changed[0]]
            text, wit = first['what'], (first['witnesses'][-1]['detail'] if first['witnesses'] else {})
            ctx.violations.clear()
            ctx.violations.update(copy.deepcopy(before))
            fttools.mdft.clear()
            fttools.czt.clear()
            step(False)
            again = [k_ for k_, v_ in ctx.violations.items() if v_['count'] != before.get(k_, {'count': 0})['count']]
            if not again:
                ctx.violation(f'C05/backend:numpy.fft/{method}/relation-holds-under-the-default-backend-only',
                              f'method={method} with the FFT backend swapped to numpy.fft (prysm.mathops.fft._srcmodule): a relation of the property / the equality with the '
                              f'default-backend result fails, and holds for the same calls under the default backend.  First seen as [{changed[0]}] ' + text,
                              desc0, first_keys=changed[:6], first_detail=wit)
    fttools.mdft.clear()
    fttools.czt.clear()


def shape_kind_(shp):
    return 'line' if 1 in shp else ('sq' if shp[0] == shp[1] else 'nonsq')


def replay(ctx, rec):
    run(ctx)
