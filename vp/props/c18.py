"""C18 — segmented apertures tile exactly; mask primitives respect their geometry.

Contracts on the real prysm.geometry functions (circle, annulus, regular_polygon, rectangle, rotated_ellipse, spider,
offset_circle); every call is seen, also the ones prysm.segmented makes for its segments, gaps and centre disc:
  post: the returned mask equals the analytic closed shape (vp.refmodels.shapes) on every sample that is farther than
        1e-6*size from the analytic boundary (boundary-band samples are excluded and counted); where a rotation is
        involved the mask must match the shape turned by +rotation or by -rotation, and the same sense on every call.
Law monitors driven by the workload:
  primitives: mask(s1) subset of mask(s2) for s1 < s2; invariance under the grid's own symmetries that the shape has
  hexagonal apertures: segment count, id numbering, centres on the hexagonal lattice ring of their id, coverage counter
        (no sample in two segments, amp == union), every segment equals the analytic hexagon at its centre on the *whole*
        grid (so a window that clips a segment is seen), area within perimeter*dx, unit piston confined to its segment,
        compose_opd linear
  keystone apertures: segment count, coverage counter (no overlap, amp subset of union), every segment inside the
        annulus of its ring, transmitting area of every segment within perimeter*dx of sector-minus-gap-strips, piston
        confinement, linearity

Hardening pass (blind-spot classes of HARDENING.md).  The primitive contracts snapshot their array arguments before the call.
  A repeat / aliasing   the same coordinate array objects through all seven primitives twice, in C / F / strided / transposed-view
                        layouts and as float64 / float32 / integer arrays (mask compared with the C-ordered float64 form off the
                        rasterised edge); the same x, y objects passed to two consecutive aperture constructors (the later one
                        judged against pristine copies); compose_opd coefficients as ndarray / list / tuple / list of ndarrays /
                        F-ordered / strided / float32 / int64, and the same coefficient objects again
  B histories           2..4 (thorough 2..7) prepare_opd_bases / compose_opd cycles on ONE hexagonal or keystone aperture object:
                        alternating bases, low then high orders, high then low, the same basis again, changing normalisation
                        radius; every cycle judged for confinement, linearity, zero outside the segments, out=zeros, and against
                        a fresh aperture of the same geometry (keys of later cycles carry /after-earlier-cycle)
  C configuration       config.precision = 32 (regular_polygon builds vertices in that precision; band 1e-3*size) for primitives
                        with float64 and float32 coordinates and for both aperture families, then the same under precision 64
                        (keys carry /precision=32, /after-precision-32)
  D regimes             hexagonal apertures with 4..6 (thorough ..9) rings, keystones with 4..5 (..8) rings, polygons with 13..128
                        sides, grids with aspect ratios up to 1:37 (thorough 1:250)

Hardening pass 2 (HARDENING2.md).
  E argument forms      every form of an argument the current tree accepts as the same input gives the aperture / mask of the
                        canonical form (tables *_FORMS, FORMS_NOTE): exclude as tuple / list / range / ndarray of four dtypes /
                        set / frozenset / dict keys / list of numpy ints, sorted and unsorted, for six classes of exclusion set
                        (ring ids only, centre + ring, outer ring, contiguous, single, all-but-one); rings / diameters / gaps /
                        angles of both aperture classes as python and numpy scalars; segments_per_ring, ring_radius,
                        rotation_per_ring as scalar / list / tuple / ndarray / list of numpy scalars / list of None; keyword vs
                        positional; omitted vs explicit defaults (after a call with other values); grids F-ordered / strided /
                        read-only / float32; per-ring lists re-used by a second constructor; primitives with sizes, side and
                        vane counts, centres and angles in every scalar / container form, angles at every multiple of 45 degrees
                        in [-720, 720] and angle +- 360
  F foreign traffic     other consumers of cart_to_polar / polar_to_cart / optimize_xy_separable / make_xy_grid / config.precision
                        run first (returned grids edited in place, precision 32, polynomial bases on the same grid objects), then
                        the primitives and one aperture of each family are judged

Hardening pass 3 (HARDENING3.md).
  H exact coincidences  keystone apertures with radial_gap == 0 (and gaps of exactly 1 or 2 samples), azimuthal gap 0 / default / whole
                        samples, ring radii whole numbers of samples on grids with an exactly representable pitch, rotations that put
                        seams on and off the sample rows: the whole keystone check (count, no sample in two segments, amp in the union,
                        areas, radial extent, piston confinement, linearity) plus "a unit piston on every segment is the 0/1 indicator
                        of the union"; keys carry /special:gap=0
  G magnitudes / units  compose_opd(s c) == s compose_opd(c) for s = 1e-12 ... 1e12 (both aperture classes, centre and segment
                        coefficients), one segment tiny among O(1) neighbours, pistons of 5e-9 and 1e-12 confined like a unit piston;
                        the same aperture described in other units (x, y and every length times 2**-30 ... 1e9) is the same segmentation
"""
import inspect
import math

import numpy as np

from ..contracts import attach, detach_all
from ..core import Ctx, parity
from ..refmodels import shapes as sh

RULE = ('primitives: grid class (odd/even, square/non-square, several samplings) x primitive x parameter class (size on / off '
        'a grid line, centred / offset, rotation 0 / special / random of either sign, sides 3..12, vanes 1..8); apertures: '
        'grid class x rings 1..4 x orientation x exclusion-set class (none, centre, random subset, all-but-one) x gap x basis '
        '(Zernike r,t / XY x,y, 1..6 terms); keystones: rings 1..3 x segments-per-ring scalar/list (1..15, one-segment rings '
        'in every tier) x ring widths scalar/list x azimuthal gap class (default, narrow, wide, both gaps wide) x ring rotation '
        'class (default 360/n, 0, scalar / list in [0,180], outside [0,180]) x basis pair; apertures that fit the grid and '
        'apertures that overfill it; a case is non-trivial when the mask has both values; distinct = distinct descriptor.  '
        'Hardening workloads: coordinate forms (4 memory layouts x float64/float32/int64 coordinates x 7 primitives, every call '
        'twice on the same array objects); OPD histories (5 sequence kinds x 2..7 cycles x hex/keystone x 6 coefficient containers); '
        'aperture arguments (grid arrays re-used by two constructors, coefficient containers / dtypes / repeats); configuration '
        '(precision 32 then 64); regimes (rings >= 4, sides > 12, aspect ratios up to 1:250).  Argument forms (hardening pass 2): '
        'exclude in 13 container forms x 6 exclusion-set classes x rings 1..3(4) x both orientations; 20 scalar / call-syntax / '
        'grid-layout forms of the hexagonal constructor and ~45 of the keystone constructor (per-ring arguments as scalar / list / '
        'tuple / ndarray / numpy scalars / None lists, lists re-used by a second constructor); primitives: every multiple of 45 '
        'degrees in [-720, 720] in 6 scalar forms and +-360, sizes / counts / centres in every scalar and container form; '
        'foreign-traffic preludes (3 kinds) on the very grid that is judged afterwards.  Hardening pass 3: keystone coincidence cases '
        '(7 exact sample pitches x 8 (thorough 12) grid sizes x rings 1..3 x radial gap 0 / 1 / 2 samples x azimuthal gap 0 / default / 1 / 2 '
        'samples x 6 rotation classes, integer radii in samples; non-trivial when a transmitting sample lies exactly on a ring radius); '
        'OPD magnitude cases (hex / keystone x rings 1..3 x 6 factors x tiny-segment-among-O(1) x tiny pistons) and unit changes (6 factors).  '
        'Hardening pass 5: coefficient coincidences (hex / keystone x rings 1..3 x basis x 1..6 terms x 10 array arrangements of 14 row patterns, '
        'out=None / out=zeros, 6 containers, int64)')
ASSUMPTIONS = ['size conventions measured on the pinned tree: circle/annulus radius, polygon circumradius, rectangle half-width / '
               'half-height, ellipse semi-axes, spider full vane width; the statement does not fix a rotation sense, either is '
               'accepted but it must not change during a run',
               'samples within 1e-6*size of the analytic boundary are excluded (<= vs <, rounding of rotated coordinates and the '
               'joggled Delaunay triangulation may decide them either way)',
               'grids are (arange(n) - n//2)*dx (C04 convention); segment gaps >= 0.5 dx so that neighbouring closed shapes '
               'cannot share a sample',
               'a keystone segment is the part of segment_masks[k] that transmits in amp (the azimuthal gap is cut out of amp only); '
               'ring j spans (previous outer radius + radial_gap, + ring_radius] as documented; its area is the annular sector '
               'minus a half strip of width azimuthal_gap/2 along each radial side',
               '"area to within the rasterisation of the boundary" is taken as |N dx^2 - A| <= perimeter*dx, and for hexagonal '
               'segments additionally per sample: no disagreement with the analytic hexagon farther than one sample pitch from '
               'its boundary (closer disagreements are counted as events, not violations)',
               'OPD bases are not prepared for overfilling apertures that leave a segment window empty or one sample wide '
               '(prysm normalises by the window extent there); counted as excluded',
               'the routines are deterministic functions of the values of their arguments: a used aperture object must compose '
               'like a fresh one of the same geometry, the same coefficients in another container must give the same map, a second '
               'call with the same arrays must reproduce the first',
               'boundary band 1e-3*size while config.precision is 32 (regular_polygon vertices are float32 then, measured '
               'displacement <= 1e-6*size) and >= 1e-4*extent for float32 coordinate arrays; masks of the same shape computed from '
               'coordinates in another layout / dtype are compared except on samples touching the rasterised edge',
               'compose_opd(..., out=zeros) must equal compose_opd(...) (out is documented as the array the OPD is inserted into)',
               'argument forms (FORMS_NOTE): "every exclusion set" is read as every collection of segment ids the constructor accepts '
               'today (tuple, list, range, ndarray, set, frozenset, dict keys view, numpy integers), in any order; all_centers[k] is the '
               'centre of segment_ids[k] (the how-to notebooks zip the two lists); float32 scalars / grids may move vertex arithmetic to '
               'single precision, so those forms are compared off the rasterised edge of every segment; values used for float32 forms are '
               'exactly representable in float32',
               'grids returned by cart_to_polar / polar_to_cart / make_xy_grid / optimize_xy_separable belong to the caller: editing them '
               'in place must not change later masks',
               'exact coincidences: with radial_gap == 0 a sample whose radius equals a shared ring radius to the last bit is still owned by '
               'at most one segment (the statement\'s "no sample belongs to two segments" has no exception for touching rings); which of the '
               'two neighbours owns it is not fixed.  Measured on the current tree: ring j is inner < r <= outer, the centre disc r <= R, '
               'seams are open.  Hexagonal apertures with segment_separation == 0 remain out of domain (closed hexagons share edge samples: '
               '256 doubly-owned samples on a 256x256 grid with dx = 1/32, d = 1, measured)',
               'compose_opd is linear, hence homogeneous: factors 1e-12 ... 1e12 are judged at the ordinary 1e-10 relative to the scaled '
               'reference, which is composed at O(1) and multiplied afterwards; unit changes by a power of two are exact for keystones '
               '(compared sample by sample), other factors and all hexagonal apertures are compared off the rasterised edge',
               'coefficient coincidences: compose_opd is judged against the explicit sum of coefficient x opd_bases over windows / masks of the '
               'same aperture object (rtol 1e-10 of max(|map|, 1)); a row that sums / dots to exactly 0 is an ordinary coefficient row']
REQUIRED = ['circle.membership', 'annulus.membership', 'regular_polygon.membership', 'rectangle.membership',
            'rotated_ellipse.membership', 'spider.membership', 'offset_circle.membership',
            'primitive.monotone', 'primitive.symmetry',
            'hex.count', 'hex.no-overlap', 'hex.amp==union', 'hex.centres', 'hex.segment-shape', 'hex.area',
            'hex.piston-confined', 'hex.linear',
            'keystone.count', 'keystone.no-overlap', 'keystone.amp-in-union', 'keystone.area', 'keystone.radial-extent', 'keystone.piston-confined',
            'keystone.linear',
            'primitive.layout', 'primitive.repeat', 'hex.opd-history', 'hex.opd-vs-fresh-aperture', 'hex.opd-out-keyword',
            'keystone.opd-history', 'keystone.opd-vs-fresh-aperture', 'keystone.opd-out-keyword', 'hex.grid-arrays-reused',
            'keystone.grid-arrays-reused', 'hex.coef-forms', 'hex.coef-repeat', 'keystone.coef-forms', 'keystone.coef-repeat',
            'precision32.cases', 'precision32-then-64.cases', 'regime.hex-rings>=4', 'regime.keystone-rings>=4',
            'regime.polygon-sides>12', 'regime.aspect',
            'form.hex-exclude', 'form.hex-args', 'form.keystone-args', 'form.angle', 'form.primitive-args', 'foreign.cases',
            'special.keystone-gap0', 'special.keystone-piston-sum', 'scale.hex-opd', 'scale.keystone-opd', 'scale.hex-units',
            'scale.keystone-units', 'coincidence.hex-opd', 'coincidence.keystone-opd']

CTX = None
SENSE = {}
SIGS = {}
BAND = 1e-6
WL = {}           # label of the workload driving the contracts (goes into contract witnesses)


def p32():
    from prysm.conf import config
    return config.precision is np.float32


def bw(size, *coords):
    """Half-width of the boundary band that is not compared: 1e-6*size; 1e-3*size while prysm is configured for 32 bits
    (regular_polygon builds its vertices in config.precision: measured displacement <= 1e-6*size); at least 1e-4*extent when
    a coordinate array is float32 (rounding of rotated / shifted float32 coordinates, 6e-8*extent)."""
    b = (1e-3 if p32() else BAND) * max(abs(float(size)), 1e-300)
    for c in coords:
        if getattr(c, 'dtype', None) in (np.float32, np.float16) and getattr(c, 'size', 0):
            b = max(b, 1e-4 * float(np.abs(c).max()))
    return b


# =========================================================================================== grids
def grid(n0, n1, dx):
    x = (np.arange(n1) - n1 // 2) * float(dx)
    y = (np.arange(n0) - n0 // 2) * float(dx)
    X, Y = np.meshgrid(x, y)
    return X, Y


def grid_class(n0, n1):
    return ('sq' if n0 == n1 else 'nonsq') + ':' + parity(n0) + parity(n1)


# =========================================================================================== contracts on geometry.*
def _cp(v):
    return v.copy() if isinstance(v, np.ndarray) else v


def pre_snapshot(args, kwargs):
    """Copies of the array arguments taken before the call: the analytic shape is evaluated on the coordinates that were
    passed in, so a primitive that writes into the caller's grid cannot drag the oracle along."""
    return tuple(_cp(a) for a in args), {k: _cp(v) for k, v in kwargs.items()}


def _bind(name, token, args, kwargs):
    if token is not None:
        args, kwargs = token
    b = SIGS[name].bind(*args, **kwargs)
    b.apply_defaults()
    return b.arguments


def _judge(prim, got, variants, desc, label):
    """variants: {sense: (inside, band)}; sense 0 = the shape has no rotation to speak of."""
    got = np.asarray(got)
    got = got != 0
    CTX.observe(f'{prim}.membership')
    ok = {}
    nband = 0
    for s, (inside, band) in variants.items():
        if inside.shape != got.shape:
            CTX.violation(f'C18/{prim}/shape', f'{prim} returns a mask whose shape is not the shape of the grid', desc,
                          got_shape=list(got.shape), grid_shape=list(inside.shape))
            return
        bad = (got != inside) & ~band
        ok[s] = (not bad.any(), int(bad.sum()))
        nband = max(nband, int(band.sum()))
    if nband:
        CTX.skip('samples within 1e-6*size of the analytic boundary (not compared)', nband)
    good = [s for s, (o, _) in ok.items() if o]
    if not good:
        CTX.violation(f'C18/{prim}/membership/{label}',
                      f'{prim} contains a sample on the wrong side of its analytic boundary (outside the 1e-6*size band)',
                      desc, wrong_samples=min(v[1] for v in ok.values()))
        return
    if 0 in ok or len(good) == 2:
        return
    s = good[0]
    if SENSE.setdefault(prim, s) != s:
        CTX.violation(f'C18/{prim}/rotation-sense-changes', f'{prim} turns the shape in different senses on different calls', desc)


def post_circle(token, args, kwargs, result):
    a = _bind('circle', token, args, kwargs)
    r = np.asarray(a['r'])
    R = float(a['radius'])
    if r.ndim != 2 or r.size == 0:
        return
    _judge('circle', result, {0: sh.circle_r(r, R, eps=bw(R, r))},
           {'fn': 'circle', 'radius': R, 'shape': r.shape}, 'r<=radius')


def post_annulus(token, args, kwargs, result):
    a = _bind('annulus', token, args, kwargs)
    r = np.asarray(a['r'])
    if r.ndim != 2 or r.size == 0:
        return
    rin, rout = float(a['rin']), float(a['rout'])
    _judge('annulus', result, {0: sh.annulus_r(r, rin, rout, eps=bw(rout, r))},
           {'fn': 'annulus', 'rin': rin, 'rout': rout, 'shape': r.shape}, 'rin<=r<=rout')


def post_offset_circle(token, args, kwargs, result):
    a = _bind('offset_circle', token, args, kwargs)
    x, y = np.asarray(a['x']), np.asarray(a['y'])
    if x.ndim != 2 or x.size == 0:
        return
    R = float(a['radius'])
    c = tuple(float(v) for v in a['center'])
    _judge('offset_circle', result, {0: sh.circle(x, y, R, c, eps=bw(R, x, y))},
           {'fn': 'offset_circle', 'radius': R, 'center': c, 'shape': x.shape}, 'offset' if c != (0.0, 0.0) else 'centred')


def post_polygon(token, args, kwargs, result):
    a = _bind('regular_polygon', token, args, kwargs)
    x, y = np.asarray(a['x']), np.asarray(a['y'])
    if x.ndim != 2 or x.size == 0:
        return
    n, R, rot = int(a['sides']), float(a['radius']), float(a['rotation'])
    c = tuple(float(v) for v in a['center'])
    eps = bw(R, x, y)
    var = {s: sh.regular_polygon(x, y, n, R, c, rot, sense=s, eps=eps) for s in (+1, -1)}
    if rot == 0:
        var = {0: var[+1]}
    _judge('regular_polygon', result, var,
           {'fn': 'regular_polygon', 'sides': n, 'radius': R, 'center': c, 'rotation': rot, 'shape': x.shape},
           ('offset' if c != (0.0, 0.0) else 'centred') + ('/rot' if rot else '/rot0'))


def post_rectangle(token, args, kwargs, result):
    a = _bind('rectangle', token, args, kwargs)
    x, y = np.asarray(a['x']), np.asarray(a['y'])
    if x.ndim != 2 or x.size == 0:
        return
    w = float(a['width'])
    h = w if a['height'] is None else float(a['height'])
    ang = float(a['angle'])
    eps = bw(max(w, h), x, y)
    var = {s: sh.rectangle(x, y, w, h, ang, sense=s, eps=eps) for s in (+1, -1)}
    if ang == 0:
        var = {0: var[+1]}
    _judge('rectangle', result, var, {'fn': 'rectangle', 'width': w, 'height': h, 'angle': ang, 'shape': x.shape},
           'angle0' if ang == 0 else ('angle90' if ang == 90 else 'angle'))


def post_ellipse(token, args, kwargs, result):
    a = _bind('rotated_ellipse', token, args, kwargs)
    x, y = np.asarray(a['x']), np.asarray(a['y'])
    if x.ndim != 2 or x.size == 0:
        return
    A, B, ang = float(a['width_major']), float(a['width_minor']), float(a['major_axis_angle'])
    eps = bw(A, x, y)
    var = {s: sh.ellipse(x, y, A, B, ang, sense=s, eps=eps) for s in (+1, -1)}
    if ang == 0:
        var = {0: var[+1]}
    _judge('rotated_ellipse', result, var, {'fn': 'rotated_ellipse', 'a': A, 'b': B, 'angle': ang, 'shape': x.shape},
           'angle0' if ang == 0 else 'angle')


def post_spider(token, args, kwargs, result):
    a = _bind('spider', token, args, kwargs)
    x, y = np.asarray(a['x']), np.asarray(a['y'])
    if x.ndim != 2 or x.size == 0:
        return
    v, w = int(a['vanes']), float(a['width'])
    rot = float(a['rotation'])
    if not a['rotation_is_rad']:
        rot = math.radians(rot)
    c = tuple(float(t) for t in a['center'])
    ext = float(max(np.abs(x).max(), np.abs(y).max(), abs(c[0]), abs(c[1]), w))
    eps = bw(ext, x, y)
    var = {}
    for s in (+1, -1):
        inv, band = sh.spider(x, y, v, w, rot, c, sense=s, eps=eps)
        var[s] = (~inv, band)
    if rot == 0:
        var = {0: var[+1]}
    _judge('spider', result, var, {'fn': 'spider', 'vanes': v, 'width': w, 'rotation_rad': rot, 'center': c, 'shape': x.shape},
           ('offset' if c != (0.0, 0.0) else 'centred') + ('/rot' if rot else '/rot0'))


def install():
    from prysm import geometry
    for name, post in (('circle', post_circle), ('annulus', post_annulus), ('offset_circle', post_offset_circle),
                       ('regular_polygon', post_polygon), ('rectangle', post_rectangle), ('rotated_ellipse', post_ellipse),
                       ('spider', post_spider)):
        SIGS[name] = inspect.signature(getattr(geometry, name))
        attach(geometry, name, pre=pre_snapshot, post=post)


# =========================================================================================== primitive laws
def _subset(ctx, prim, small, big, band, desc, what):
    """small subset of big except on boundary-band samples of either."""
    ctx.observe('primitive.monotone')
    bad = small & ~big & ~band
    if bad.any():
        ctx.violation(f'C18/{prim}/not-monotone', what, desc, samples=int(bad.sum()))


def _symmetric(ctx, prim, mask, band, ops, n0, n1, desc):
    """mask is invariant under each op on the part of the grid that is symmetric about the origin sample."""
    t0, t1 = (1 if n0 % 2 == 0 else 0), (1 if n1 % 2 == 0 else 0)
    m = (np.asarray(mask) != 0)[t0:, t1:]
    b = band[t0:, t1:]
    for name in ops:
        if name == 'transpose' and m.shape[0] != m.shape[1]:
            continue
        f = {'flipx': lambda a: a[:, ::-1], 'flipy': lambda a: a[::-1, :], 'rot180': lambda a: a[::-1, ::-1],
             'transpose': lambda a: a.T}[name]
        ctx.observe('primitive.symmetry')
        bad = (m != f(m)) & ~b & ~f(b)
        if bad.any():
            ctx.violation(f'C18/{prim}/symmetry/{name}', f'{prim} lacks the {name} symmetry of its shape about the grid origin', desc,
                          samples=int(bad.sum()))


def _size_pair(rng, lo, hi, dx):
    """Two sizes s1 < s2; one of them sometimes exactly on a grid line (boundary samples exist)."""
    s1 = float(rng.uniform(lo, hi))
    s2 = s1 * float(rng.uniform(1.02, 1.6))
    if rng.random() < 0.4:
        s1 = max(1, round(s1 / dx)) * dx
    if rng.random() < 0.2:
        s2 = max(round(s1 / dx) + 1, round(s2 / dx)) * dx
    return s1, max(s2, s1 * 1.0001)


def _rot(rng, special=()):
    u = rng.random()
    if u < 0.25:
        return 0.0
    if u < 0.45 and special:
        return float(special[int(rng.integers(len(special)))])
    return float(rng.uniform(-180, 180))


def _nontrivial(mask):
    m = np.asarray(mask) != 0
    return bool(m.any() and not m.all())


def _run_primitives(ctx):
    from prysm import geometry as g
    rng = ctx.rng('c18-prim')
    sizes = [(16, 16), (17, 17), (16, 17), (33, 24), (64, 64), (65, 65), (64, 65), (96, 129), (128, 128), (129, 129)]
    if not ctx.quick:
        sizes += [(200, 200), (257, 257), (256, 257), (301, 200), (512, 512), (513, 513), (768, 769), (1025, 1024)]
    prims = ['circle', 'annulus', 'offset_circle', 'regular_polygon', 'rectangle', 'rotated_ellipse', 'spider']
    reps = ctx.pick(30, 700)
    k = -1
    for rep in range(reps):
        for (n0, n1) in sizes:
            if not ctx.quick and max(n0, n1) > 300 and rep % (6 if max(n0, n1) < 600 else 30):
                continue
            for prim in prims:
                k += 1
                if not ctx.mine(k):
                    continue
                sub = ctx.subseed(rng)
                r = np.random.default_rng(sub)
                ext = [2.0, 1.0, 10.0, 0.05][int(r.integers(4))]
                dx = ext / max(n0, n1)
                x, y = grid(n0, n1, dx)
                half = ext / 2
                base = {'wl': 'primitive', 'prim': prim, 'grid': (n0, n1), 'dx': dx, 'seed': sub}
                _primitive_case(ctx, g, r, prim, x, y, n0, n1, dx, half, base)
    # sides = 3..12 enumerated explicitly (smallest grid first) so that every side count is exercised in every tier
    k = -1
    for (n0, n1) in [(16, 16), (33, 33), (64, 65)]:
        for sides in range(3, 13):
            for rot in (0.0, 90.0, 17.0):
                k += 1
                if not ctx.mine(k):
                    continue
                dx = 2.0 / max(n0, n1)
                x, y = grid(n0, n1, dx)
                desc = {'wl': 'polygon-sides', 'grid': (n0, n1), 'sides': sides, 'rotation': rot,
                        'class': f'regular_polygon:sides={sides}:{grid_class(n0, n1)}'}
                with ctx.guard(f'C18/regular_polygon/sides={"3" if sides == 3 else ">3"}', desc):
                    m = g.regular_polygon(sides, 0.7, x, y, rotation=rot)
                    ctx.case(desc, nontrivial=_nontrivial(m))
                    continue
                ctx.case(desc)


def _primitive_case(ctx, g, r, prim, x, y, n0, n1, dx, half, base):
    gc = grid_class(n0, n1)
    rr = np.hypot(x, y)
    if prim == 'circle':
        s1, s2 = _size_pair(r, 2 * dx, 1.1 * half, dx)
        desc = dict(base, radius=(s1, s2), **{'class': f'circle:{gc}'})
        with ctx.guard('C18/circle', desc):
            m1, m2 = g.circle(s1, rr), g.circle(s2, rr)
            ctx.case(desc, nontrivial=_nontrivial(m1))
            band = sh.circle_r(rr, s1, bw(s1, rr))[1] | sh.circle_r(rr, s2, bw(s2, rr))[1]
            _subset(ctx, prim, m1, m2, band, desc, 'circle(r1) is not contained in circle(r2) for r1 < r2')
            _symmetric(ctx, prim, m1, sh.circle_r(rr, s1, bw(s1, rr))[1], ['flipx', 'flipy', 'rot180', 'transpose'], n0, n1, desc)
    elif prim == 'annulus':
        s1, s2 = _size_pair(r, 4 * dx, 1.1 * half, dx)
        rin = s1 * float(r.uniform(0.1, 0.9))
        desc = dict(base, rin=rin, rout=(s1, s2), **{'class': f'annulus:{gc}'})
        with ctx.guard('C18/annulus', desc):
            m1, m2 = g.annulus(rin, s1, rr), g.annulus(rin, s2, rr)
            ctx.case(desc, nontrivial=_nontrivial(m1))
            b1 = sh.annulus_r(rr, rin, s1, bw(s1, rr))[1]
            band = b1 | sh.annulus_r(rr, rin, s2, bw(s2, rr))[1]
            _subset(ctx, prim, m1, m2, band, desc, 'annulus(rin, r1) is not contained in annulus(rin, r2) for r1 < r2')
            _symmetric(ctx, prim, m1, b1, ['flipx', 'flipy', 'rot180', 'transpose'], n0, n1, desc)
    elif prim == 'offset_circle':
        s1, s2 = _size_pair(r, 2 * dx, 0.8 * half, dx)
        c = (0.0, 0.0) if r.random() < 0.25 else (float(r.uniform(-half, half)), float(r.uniform(-half, half)))
        desc = dict(base, radius=(s1, s2), center=c, **{'class': f'offset_circle:{gc}:{"centred" if c == (0.0, 0.0) else "offset"}'})
        with ctx.guard('C18/offset_circle', desc):
            m1, m2 = g.offset_circle(s1, x, y, c), g.offset_circle(s2, x, y, c)
            ctx.case(desc, nontrivial=_nontrivial(m1))
            b1 = sh.circle(x, y, s1, c, bw(s1, x, y))[1]
            _subset(ctx, prim, m1, m2, b1 | sh.circle(x, y, s2, c, bw(s2, x, y))[1], desc,
                    'offset_circle(r1) is not contained in offset_circle(r2) for r1 < r2')
            if c == (0.0, 0.0):
                _symmetric(ctx, prim, m1, b1, ['flipx', 'flipy', 'rot180', 'transpose'], n0, n1, desc)
    elif prim == 'regular_polygon':
        sides = int(r.integers(3, 13))
        s1, s2 = _size_pair(r, 3 * dx, 1.0 * half, dx)
        c = (0.0, 0.0) if r.random() < 0.5 else (float(r.uniform(-half, half) * 0.6), float(r.uniform(-half, half) * 0.6))
        rot = _rot(r, special=(90, 30, -90, 360 / sides, 180 / sides, 360))
        desc = dict(base, sides=sides, radius=(s1, s2), center=c, rotation=rot,
                    **{'class': f'regular_polygon:sides={sides}:{gc}:{"centred" if c == (0.0, 0.0) else "offset"}:{"rot0" if rot == 0 else "rot"}'})
        with ctx.guard(f'C18/regular_polygon/sides={"3" if sides == 3 else ">3"}', desc):
            m1 = g.regular_polygon(sides, s1, x, y, center=c, rotation=rot)
            m2 = g.regular_polygon(sides, s2, x, y, center=c, rotation=rot)
            ctx.case(desc, nontrivial=_nontrivial(m1))
            sense = SENSE.get('regular_polygon', +1)
            b1 = sh.regular_polygon(x, y, sides, s1, c, rot, sense, bw(s1, x, y))[1]
            _subset(ctx, prim, m1, m2, b1 | sh.regular_polygon(x, y, sides, s2, c, rot, sense, bw(s2, x, y))[1], desc,
                    'regular_polygon(R1) is not contained in regular_polygon(R2) for R1 < R2')
            if c == (0.0, 0.0) and rot == 0:
                ops = ['flipx'] + (['flipy', 'rot180'] if sides % 2 == 0 else []) + (['transpose'] if sides % 4 == 0 else [])
                _symmetric(ctx, prim, m1, b1, ops, n0, n1, desc)
            return
        ctx.case(desc)
    elif prim == 'rectangle':
        s1, s2 = _size_pair(r, 2 * dx, 0.9 * half, dx)
        ratio = None if r.random() < 0.3 else float(r.uniform(0.2, 1.5))
        ang = _rot(r, special=(90, 45, -30, 180))
        h1 = None if ratio is None else s1 * ratio
        h2 = None if ratio is None else s2 * ratio
        desc = dict(base, width=(s1, s2), height=(h1, h2), angle=ang,
                    **{'class': f'rectangle:{gc}:{"square" if ratio is None else "wh"}:{"angle0" if ang == 0 else ("angle90" if ang == 90 else "angle")}'})
        with ctx.guard('C18/rectangle', desc):
            m1 = g.rectangle(s1, x, y, height=h1, angle=ang)
            m2 = g.rectangle(s2, x, y, height=h2, angle=ang)
            ctx.case(desc, nontrivial=_nontrivial(m1))
            sense = SENSE.get('rectangle', +1)
            hh1, hh2 = (s1 if h1 is None else h1), (s2 if h2 is None else h2)
            b1 = sh.rectangle(x, y, s1, hh1, ang, sense, bw(max(s1, hh1), x, y))[1]
            _subset(ctx, prim, m1, m2, b1 | sh.rectangle(x, y, s2, hh2, ang, sense, bw(max(s2, hh2), x, y))[1], desc,
                    'rectangle(w1,h1) is not contained in rectangle(w2,h2) for w1<w2, h1<h2')
            ops = ['rot180'] + (['flipx', 'flipy'] if ang in (0, 90, 180) else []) + (['transpose'] if ratio is None and ang in (0, 90, 180) else [])
            _symmetric(ctx, prim, m1, b1, ops, n0, n1, desc)
    elif prim == 'rotated_ellipse':
        s1, s2 = _size_pair(r, 3 * dx, 0.9 * half, dx)
        ratio = float(r.uniform(0.25, 1.0))
        ang = _rot(r, special=(90, 45, -30, 180))
        desc = dict(base, major=(s1, s2), minor_over_major=ratio, angle=ang,
                    **{'class': f'rotated_ellipse:{gc}:{"angle0" if ang == 0 else "angle"}'})
        with ctx.guard('C18/rotated_ellipse', desc):
            m1 = g.rotated_ellipse(s1, s1 * ratio, x, y, major_axis_angle=ang)
            m2 = g.rotated_ellipse(s2, s2 * ratio, x, y, major_axis_angle=ang)
            ctx.case(desc, nontrivial=_nontrivial(m1))
            sense = SENSE.get('rotated_ellipse', +1)
            b1 = sh.ellipse(x, y, s1, s1 * ratio, ang, sense, bw(s1, x, y))[1]
            _subset(ctx, prim, np.asarray(m1) != 0, np.asarray(m2) != 0,
                    b1 | sh.ellipse(x, y, s2, s2 * ratio, ang, sense, bw(s2, x, y))[1], desc,
                    'rotated_ellipse(a1,b1) is not contained in rotated_ellipse(a2,b2) for a1<a2, b1<b2')
            _symmetric(ctx, prim, m1, b1, ['rot180'] + (['flipx', 'flipy'] if ang in (0, 90, 180) else []), n0, n1, desc)
    elif prim == 'spider':
        vanes = int(r.integers(1, 9))
        w1, w2 = _size_pair(r, 1.0 * dx, 8 * dx, dx)
        c = (0.0, 0.0) if r.random() < 0.5 else (float(r.uniform(-half, half) * 0.5), float(r.uniform(-half, half) * 0.5))
        rot = _rot(r, special=(90, 45, -30, 360 / vanes))
        rad = bool(r.random() < 0.3)
        rarg = math.radians(rot) if rad else rot
        desc = dict(base, vanes=vanes, width=(w1, w2), center=c, rotation=rot, rotation_is_rad=rad,
                    **{'class': f'spider:vanes={vanes}:{gc}:{"centred" if c == (0.0, 0.0) else "offset"}:{"rot0" if rot == 0 else "rot"}'})
        with ctx.guard('C18/spider', desc):
            m1 = g.spider(vanes, w1, x, y, rotation=rarg, center=c, rotation_is_rad=rad)
            m2 = g.spider(vanes, w2, x, y, rotation=rarg, center=c, rotation_is_rad=rad)
            ctx.case(desc, nontrivial=_nontrivial(m1))
            sense = SENSE.get('spider', +1)
            ext = float(max(np.abs(x).max(), np.abs(y).max(), abs(c[0]), abs(c[1])))
            b1 = sh.spider(x, y, vanes, w1, math.radians(rot), c, sense, bw(ext, x, y))[1]
            b2 = sh.spider(x, y, vanes, w2, math.radians(rot), c, sense, bw(ext, x, y))[1]
            # the obscuration grows with the vane width: the transmitting mask shrinks
            _subset(ctx, prim, m2, m1, b1 | b2, desc, 'a wider spider transmits a sample that the narrower spider blocks')
            if c == (0.0, 0.0) and rot == 0:
                ops = ['flipy'] + (['flipx', 'rot180'] if vanes % 2 == 0 else []) + (['transpose'] if vanes % 4 == 0 else [])
                _symmetric(ctx, prim, m1, b1, ops, n0, n1, desc)


def _run_rejections(ctx):
    from prysm import geometry as g
    if ctx.shard != 0:
        return
    x, y = grid(16, 16, 0.1)
    desc = {'wl': 'reject', 'class': 'rotated_ellipse:minor>major (documented ValueError)'}
    ctx.case(desc, nontrivial=False)
    with ctx.guard('C18/rotated_ellipse/minor>major', desc, allow=(ValueError,)):
        g.rotated_ellipse(0.2, 0.5, x, y)
        ctx.violation('C18/rotated_ellipse/minor>major/accepted', 'the documented ValueError was not raised', desc)


# =========================================================================================== hexagonal apertures
def _scatter(shape, windows, masks):
    cover = np.zeros(shape, dtype=np.int32)
    for w, m in zip(windows, masks):
        cover[w] += np.asarray(m).astype(np.int32)
    return cover


def _full(shape, window, mask):
    f = np.zeros(shape, dtype=bool)
    f[window] = mask
    return f


def _exclusion(r, cls, total):
    if cls == 'none':
        return ()
    if cls == 'centre':
        return (0,)
    if cls == 'all-but-one':
        keep = int(r.integers(total))
        return tuple(i for i in range(total) if i != keep)
    k = int(r.integers(1, max(2, total // 2)))
    return tuple(sorted(int(v) for v in r.choice(total, size=k, replace=False)))


def _bases(r):
    """(kind, basis_func, orders, kwargs, has_unit_piston)"""
    from prysm.polynomials import zernike_nm_seq, xy_seq
    nterm = int(r.integers(1, 7))
    if r.random() < 0.6:
        pool = [(0, 0), (1, 1), (1, -1), (2, 0), (2, 2), (2, -2), (3, 1), (3, -1), (4, 0)]
        return 'zernike', zernike_nm_seq, pool[:nterm], {'norm': bool(r.random() < 0.5)}, True
    pool = [(0, 0), (1, 0), (0, 1), (1, 1), (2, 0), (0, 2), (2, 1)]
    return 'xy', xy_seq, pool[:nterm], {'cartesian_grid': False}, False


def _run_hex(ctx):
    from prysm.segmented import CompositeHexagonalAperture
    rng = ctx.rng('c18-hex')
    grids = [(64, 64), (65, 65), (96, 97), (128, 128), (129, 129), (161, 128), (200, 201), (256, 256), (257, 257)]
    if not ctx.quick:
        grids += [(300, 301), (384, 384), (385, 385), (512, 512), (513, 513), (640, 641), (768, 768)]
    excl_classes = ['none', 'centre', 'random', 'all-but-one']
    total_cases = ctx.pick(320, 13000)
    for k in range(total_cases):
        if not ctx.mine(k):
            ctx.subseed(rng)
            continue
        sub = ctx.subseed(rng)
        r = np.random.default_rng(sub)
        n0, n1 = grids[k % len(grids)] if k < 4 * len(grids) else grids[int(r.integers(len(grids)))]
        rings = 1 + (k // len(grids)) % ctx.pick(4, 6)
        angle = [90, 0][k % 2]
        ecls = excl_classes[(k // 2) % 4]
        ext = [8.0, 2.0, 0.3][int(r.integers(3))]
        dx = ext / max(n0, n1)
        fill = float(r.uniform(0.55, 0.97)) if r.random() < 0.85 else float(r.uniform(1.05, 1.5))
        gap = float(r.uniform(0.5, 3.0)) * dx
        pitch = fill * (min(n0, n1) * dx) / (2 * rings + 1)
        d = pitch - gap
        if d < 6 * dx:
            ctx.skip('hex: segment smaller than 6 samples for this grid/ring count (not generated)')
            continue
        total = sh.hex_count(rings)
        excl = _exclusion(r, ecls, total)
        desc = {'wl': 'hex', 'grid': (n0, n1), 'dx': dx, 'rings': rings, 'segment_diameter': d, 'segment_separation': gap,
                'segment_angle': angle, 'exclude': list(excl), 'seed': sub,
                'class': f'hex:{grid_class(n0, n1)}:rings={rings}:angle={angle}:excl={ecls}:{"fits" if fill < 1 else "overfills"}'}
        ctx.case(desc)
        x, y = grid(n0, n1, dx)
        with ctx.guard('C18/hex', desc):
            ap = CompositeHexagonalAperture(x, y, rings, d, gap, segment_angle=angle, exclude=excl)
            _check_hex(ctx, ap, r, x, y, dx, rings, d, gap, angle, excl, desc)


def _check_hex(ctx, ap, r, x, y, dx, rings, d, gap, angle, excl, desc):
    shape = x.shape
    total = sh.hex_count(rings)
    want_ids = [i for i in range(total) if i not in set(excl)]
    ids = [int(i) for i in ap.segment_ids]
    nseg = len(ids)
    ok = (nseg == len(want_ids) == len(ap.windows) == len(ap.local_masks) == len(ap.all_centers) == len(ap.local_coords))
    ctx.require('hex.count', ok, 'C18/hex/segment-count', 'number of segments != 1 + 3 r (r+1) - |exclude| (or the per-segment lists '
                'have different lengths)', desc, got=[nseg, len(ap.windows), len(ap.local_masks), len(ap.all_centers)], want=len(want_ids))
    if not ok:
        return
    ctx.require('hex.count', ids == want_ids, 'C18/hex/segment-ids', 'segment_ids is not the documented numbering minus the excluded ids',
                desc, got=ids[:20], want=want_ids[:20])
    # --- centres: on the lattice of pitch d+gap, in the ring of their id, all distinct
    flat_top = (angle == 90)
    pitch = d + gap
    seen = set()
    bad_c = None
    for i, c in zip(ids, ap.all_centers):
        a, b = sh.hex_lattice_coords(float(c[0]), float(c[1]), pitch, flat_top)
        ia, ib = round(a), round(b)
        if abs(a - ia) > 1e-9 or abs(b - ib) > 1e-9 or sh.hex_norm(ia, ib) != sh.hex_ring_of_id(i) or (ia, ib) in seen:
            bad_c = (i, [float(c[0]), float(c[1])], [a, b])
            break
        seen.add((ia, ib))
    ctx.require('hex.centres', bad_c is None, 'C18/hex/centres-off-lattice', 'a segment centre is not a distinct point of the hexagonal '
                'lattice with pitch diameter+separation in the ring of its id', desc, first_bad=bad_c)
    # --- coverage counter
    cover = _scatter(shape, ap.windows, ap.local_masks)
    ctx.require('hex.no-overlap', int((cover > 1).sum()) == 0, 'C18/hex/overlap', 'a sample belongs to two segments', desc,
                samples=int((cover > 1).sum()))
    amp = np.asarray(ap.amp) != 0
    ctx.require('hex.amp==union', np.array_equal(cover > 0, amp), 'C18/hex/amp!=union', 'amp is not the union of the segment masks',
                desc, amp_only=int((amp & ~(cover > 0)).sum()), union_only=int(((cover > 0) & ~amp).sum()))
    # --- every segment is the analytic hexagon at its centre, on the whole grid
    R = d / math.sqrt(3)
    A, P = sh.hexagon_area_flat_to_flat(d), sh.hexagon_perimeter_flat_to_flat(d)
    xlo, xhi, ylo, yhi = x[0, 0], x[0, -1], y[0, 0], y[-1, 0]
    nband = 0
    for i, c, w, m in zip(ids, ap.all_centers, ap.windows, ap.local_masks):
        cx, cy = float(c[0]), float(c[1])
        # restrict the analytic evaluation to a box around the segment (everything else is outside both)
        j0 = max(0, int(np.searchsorted(y[:, 0], cy - R - 2 * dx)))
        j1 = min(shape[0], int(np.searchsorted(y[:, 0], cy + R + 2 * dx)) + 1)
        i0 = max(0, int(np.searchsorted(x[0, :], cx - R - 2 * dx)))
        i1 = min(shape[1], int(np.searchsorted(x[0, :], cx + R + 2 * dx)) + 1)
        box = (slice(j0, j1), slice(i0, i1))
        full = _full(shape, w, m)
        inside, band = sh.regular_polygon(x[box], y[box], 6, R, (cx, cy), float(angle), +1, bw(R, x))
        nband += int(band.sum())
        ctx.observe('hex.segment-shape')
        outside_box = full.copy()
        outside_box[box] = False
        # "to within the rasterisation of its boundary": a sample whose distance to the analytic boundary is below one
        # sample pitch may fall on either side (the pinned tree drops the vertex-tip sample of some segments at the
        # exclusive upper edge of the segment window, always less than one pitch deep); deeper disagreement is a violation
        raster = sh.regular_polygon(x[box], y[box], 6, R, (cx, cy), float(angle), +1, 1.0 * dx)[1]
        sub = (full[box] != inside) & ~band & raster
        if sub.any():
            ctx.event('hex: segment differs from the analytic hexagon on a sample closer than 1 dx to its boundary', int(sub.sum()))
        bad = (full[box] != inside) & ~raster
        if bad.any() or outside_box.any():
            inwin = np.zeros(shape, dtype=bool)
            inwin[w] = True
            missing_outside_window = bool((bad & inside & ~inwin[box]).any())
            ctx.violation('C18/hex/segment-shape/' + ('clipped-by-window' if missing_outside_window else 'membership'),
                          'a segment is not the hexagon of the given flat-to-flat diameter at its centre '
                          + ('(samples of the hexagon lie outside the segment window)' if missing_outside_window else ''),
                          desc, segment=i, wrong_samples=int(bad.sum()) + int(outside_box.sum()))
        # --- area, for segments that are not cut by the edge of the grid
        if cx - R >= xlo and cx + R <= xhi and cy - R >= ylo and cy + R <= yhi:
            N = int(np.asarray(m).sum())
            ctx.require('hex.area', abs(N * dx * dx - A) <= P * dx, 'C18/hex/segment-area', 'segment area differs from '
                        'sqrt(3)/2 d^2 by more than perimeter*dx', desc, segment=i, got=N * dx * dx, want=A, bound=P * dx)
        else:
            ctx.skip('hex.area: segment cut by the edge of the grid (area not compared)')
    if nband:
        ctx.skip('samples within 1e-6*size of the analytic boundary (not compared)', nband)
    # --- OPD
    if any(min(np.asarray(m).shape) < 2 for m in ap.local_masks):
        ctx.skip('hex.opd: a segment window is empty or one sample wide (segment off the grid); OPD bases not prepared')
        return None
    spec = _bases(r)
    _hex_opd_cycle(ctx, ap, r, shape, cover, ids, spec, desc)
    return cover, len(spec[2])


def _hex_opd_cycle(ctx, ap, r, shape, cover, ids, spec, desc, tag='', fresh=None, coef_form='ndarray'):
    """One prepare_opd_bases / compose_opd cycle on `ap`, judged for confinement and linearity.  `tag` is appended to the
    violation keys (history position), `fresh` is a factory for a new aperture with the same geometry: its composition
    (prepared once, with this cycle's basis) must equal the used aperture's."""
    kind, func, orders, kw, unit = spec[:5]
    nrad = spec[5] if len(spec) > 5 else None
    nseg = len(ids)
    desc2 = dict(desc, basis=kind, nterms=len(orders), **{'class': desc['class'] + f':{kind}'})
    if nrad is not None:
        desc2['normalization_radius'] = nrad
    with ctx.guard(f'C18/hex/opd/{kind}{tag}', desc2):
        if nrad is None:
            ap.prepare_opd_bases(func, orders, basis_func_kwargs=kw)
        else:
            ap.prepare_opd_bases(func, orders, basis_func_kwargs=kw, normalization_radius=nrad)
        nt = len(orders)
        pick = list(range(nseg)) if nseg <= 7 else sorted(set([0, nseg - 1] + [int(v) for v in r.integers(0, nseg, 5)]))
        for s in pick:
            co = np.zeros((nseg, nt))
            co[s, 0] = 1.0
            opd = ap.compose_opd(_coef_form(co, coef_form))
            seg = _full(shape, ap.windows[s], ap.local_masks[s])
            okc = np.array_equal(opd != 0, seg) and (not unit or bool(np.all(opd[seg] == 1.0)))
            ctx.require('hex.piston-confined', okc, f'C18/hex/piston-not-confined/{kind}{tag}', 'a unit piston on one segment changes a '
                        'sample outside that segment, or not every sample inside it', desc2, segment=ids[s],
                        outside=int(((opd != 0) & ~seg).sum()), missing=int(((opd == 0) & seg).sum()))
        c1, c2 = r.standard_normal((nseg, nt)), r.standard_normal((nseg, nt))
        al, be = float(r.uniform(-2, 2)), float(r.uniform(-2, 2))
        lhs = ap.compose_opd(_coef_form(al * c1 + be * c2, coef_form))
        o1 = ap.compose_opd(_coef_form(c1, coef_form))
        rhs = al * o1 + be * ap.compose_opd(_coef_form(c2, coef_form))
        ctx.close('hex.linear', lhs, rhs, f'C18/hex/compose_opd-nonlinear/{kind}{tag}', 'compose_opd is not linear in the coefficients', desc2,
                  rtol=1e-10, scale=max(float(np.abs(rhs).max()), 1e-300))
        ctx.require('hex.piston-confined', bool(np.all(lhs[~(cover > 0)] == 0)), f'C18/hex/opd-outside-segments/{kind}{tag}',
                    'compose_opd is non-zero outside every segment', desc2)
        if fresh is not None:
            ap2 = fresh()
            if nrad is None:
                ap2.prepare_opd_bases(func, orders, basis_func_kwargs=kw)
            else:
                ap2.prepare_opd_bases(func, orders, basis_func_kwargs=kw, normalization_radius=nrad)
            ctx.close('hex.opd-vs-fresh-aperture', o1, ap2.compose_opd(c1.copy()), f'C18/hex/opd-differs-from-fresh-aperture/{kind}{tag}',
                      'compose_opd on an aperture that went through earlier prepare/compose cycles differs from a fresh aperture '
                      'with the same geometry, basis and coefficients', desc2, rtol=1e-12, scale=max(float(np.abs(o1).max()), 1e-300))
        return o1, c1


def _coef_form(co, form):
    """The same coefficients in another container / dtype / memory layout."""
    co = np.asarray(co)
    if form == 'ndarray':
        return co
    if form == 'list':
        return co.tolist()
    if form == 'tuple':
        return tuple(tuple(float(v) for v in row) for row in co) if co.ndim == 2 else tuple(float(v) for v in co)
    if form == 'list-of-ndarray':
        return [row.copy() for row in co] if co.ndim == 2 else [np.float64(v) for v in co]
    if form == 'F-order':
        return np.asfortranarray(co)
    if form == 'strided':
        if co.ndim == 2:
            big = np.zeros((co.shape[0] * 2, co.shape[1] * 3 + 1))
            big[::2, 1::3] = co
            return big[::2, 1::3]
        big = np.zeros(co.size * 2 + 1)
        big[1::2] = co
        return big[1::2]
    raise ValueError(form)


# =========================================================================================== keystone apertures
def _run_keystone(ctx):
    from prysm.segmented import CompositeKeystoneAperture
    rng = ctx.rng('c18-key')
    grids = [(96, 96), (97, 97), (128, 129), (160, 160), (201, 201), (256, 256), (257, 257)]
    if not ctx.quick:
        grids += [(300, 301), (384, 384), (385, 385), (512, 512), (513, 513)]
    total_cases = ctx.pick(160, 5500)
    for k in range(total_cases):
        sub = ctx.subseed(rng)
        if not ctx.mine(k):
            continue
        r = np.random.default_rng(sub)
        n0, n1 = grids[k % len(grids)] if k < 2 * len(grids) else grids[int(r.integers(len(grids)))]
        rings = 1 + k % 3
        ext = [8.0, 2.0, 0.5][int(r.integers(3))]
        dx = ext / max(n0, n1)
        half = min(n0, n1) * dx / 2
        fill = float(r.uniform(0.6, 0.97)) if r.random() < 0.85 else float(r.uniform(1.05, 1.3))
        ccd = float(r.uniform(0.2, 0.45)) * 2 * half * fill
        rgap = float(r.uniform(0.5, 3.0)) * dx
        u = r.random()
        agap = None if u < 0.35 else float(r.uniform(0.5, 4.0)) * dx if u < 0.75 else float(r.uniform(6.0, 12.0)) * dx
        if k % 6 == 5:
            # both gaps wide, azimuthal < 2 * radial: a gap of the wrong width is visible to the area law in this class
            rgap = float(r.uniform(4.0, 6.0)) * dx
            agap = float(r.uniform(1.5, 1.95)) * rgap
        wide_az = (k % 10 == 3)
        if wide_az:
            # azimuthal gap much wider than the radial gap, aperture inside the grid, 8..12 segments: in every tier
            fill = min(fill, 0.95)
            rgap = float(r.uniform(0.5, 2.0)) * dx
            agap = float(r.uniform(8.0, 12.0)) * dx
        ring_w = (half * fill - ccd / 2) / rings - rgap
        if ring_w < 5 * dx:
            ctx.skip('keystone: ring narrower than 5 samples for this grid/ring count (not generated)')
            continue
        rot_mode = ['default', 'zero', 'scalar', 'list', 'outside-0..180'][(k // 4) % 5]
        if wide_az and rot_mode == 'outside-0..180':
            rot_mode = 'zero'
        lo_n = 2 if rot_mode == 'outside-0..180' else 1
        spr_mode = ['scalar', 'list'][k % 2]
        if spr_mode == 'scalar':
            spr = int(r.integers(lo_n, 13)) if k % 14 != 6 else 1          # a ring made of one segment, in every tier
            if wide_az:
                spr = int(r.integers(8, 13))
            spr_list = [spr] * rings
        else:
            base_n = int(r.integers(2, 9))
            spr_list = [base_n * (j + 1) if r.random() < 0.6 else int(r.integers(lo_n, 16)) for j in range(rings)]
            spr = list(spr_list)
        rr_mode = ['scalar', 'list'][(k // 2) % 2]
        if rr_mode == 'scalar':
            ring_radius = ring_w
            rr_list = [ring_w] * rings
        else:
            wts = r.uniform(0.6, 1.4, rings)
            rr_list = [float(v) for v in ring_w * rings * wts / wts.sum()]
            ring_radius = list(rr_list)
        rotation = {'default': None, 'zero': 0.0, 'scalar': float(r.uniform(0, 180)),
                    'list': [float(v) for v in r.uniform(0, 180, rings)],
                    'outside-0..180': [float(r.uniform(-180, -1)), float(r.uniform(181, 400))][int(r.integers(2))]}[rot_mode]
        desc = {'wl': 'keystone', 'grid': (n0, n1), 'dx': dx, 'center_circle_diameter': ccd, 'rings': rings, 'ring_radius': ring_radius,
                'segments_per_ring': spr, 'radial_gap': rgap, 'azimuthal_gap': agap, 'rotation_per_ring': rotation, 'seed': sub,
                'class': f'keystone:{grid_class(n0, n1)}:rings={rings}:spr={spr_mode}:rr={rr_mode}:rot={rot_mode}:'
                         f'agap={"default" if agap is None else "given" if agap < 5 * dx else "wide"}:{"fits" if fill < 1 else "overfills"}'}
        # effective ring rotation (None -> 360/n, prysm's documented default) outside [0, 180] degrees is its own class
        rl = rotation if isinstance(rotation, list) else [rotation] * rings
        eff = [360.0 / n if v is None else v for v, n in zip(rl, spr_list)]
        desc['kclass'] = '/rot=outside-0..180' if any(v < 0 or v > 180 for v in eff) else ''
        if desc['kclass'] and agap is not None and agap > 1.8 * rgap:
            # keep the two classes with a defect of their own on the pinned tree disjoint (wide azimuthal gap | rotation range)
            agap = 1.8 * rgap
            desc['azimuthal_gap'] = agap
            desc['class'] = desc['class'].replace('agap=wide', 'agap=given')
        desc['class'] += ':' + ('n=1' if min(spr_list) == 1 else 'n<=3' if min(spr_list) <= 3 else 'n<=6' if min(spr_list) <= 6 else 'n>6')
        ctx.case(desc)
        x, y = grid(n0, n1, dx)
        with ctx.guard('C18/keystone' + desc['kclass'], desc):
            ap = CompositeKeystoneAperture(x, y, center_circle_diameter=ccd, rings=rings, ring_radius=ring_radius,
                                           segments_per_ring=spr, radial_gap=rgap, azimuthal_gap=agap, rotation_per_ring=rotation)
            _check_keystone(ctx, ap, r, x, y, dx, ccd, rings, rr_list, spr_list, rgap, rgap if agap is None else agap, desc)


def _keystone_clip_diagnosis(ap, s, polar, ri, ro, shape):
    """'clipped-by-window' when the samples that are missing from segment s (annulus ri<r<=ro restricted to the angular
    hull of the segment's own samples) lie outside the segment's window; '' otherwise."""
    rr, tt = polar
    w = ap.segment_windows[s]
    full = _full(shape, w, ap.segment_masks[s])
    if not full.any():
        return ''
    ang = np.sort(tt[full])
    gaps = np.diff(np.concatenate([ang, ang[:1] + 2 * np.pi]))
    g = int(np.argmax(gaps))
    start = ang[(g + 1) % ang.size]                      # the hull starts after the largest empty gap
    span = 2 * np.pi - gaps[g]
    hull = np.mod(tt - start, 2 * np.pi) <= span
    expected = (rr > ri) & (rr <= ro) & hull
    missing = expected & ~full
    inwin = np.zeros(shape, dtype=bool)
    inwin[w] = True
    clipped = missing & ~inwin
    return 'clipped-by-window' if clipped.sum() > 0 and clipped.sum() >= 0.5 * missing.sum() else ''


def _keystone_gap_diagnosis(ap, s, polar, trans, agap, dx, shape):
    """True when segment s still transmits samples that are clearly (more than one sample) inside the gap strip of half
    width agap/2 along one of its own two radial edges (the edges are taken from the angular hull of the segment's mask)."""
    rr, tt = polar
    w = ap.segment_windows[s]
    full = _full(shape, w, ap.segment_masks[s])
    if not full.any():
        return False
    ang = np.sort(tt[full])
    gaps = np.diff(np.concatenate([ang, ang[:1] + 2 * np.pi]))
    g = int(np.argmax(gaps))
    start = ang[(g + 1) % ang.size]
    end = ang[g]
    T = _full(shape, w, trans)
    left = 0
    for edge in (start, end):
        d = tt - edge
        perp = rr * np.abs(np.sin(d))
        left += int((T & (np.cos(d) > 0) & (perp < agap / 2 - dx)).sum())
    return left > 0


def _check_keystone(ctx, ap, r, x, y, dx, ccd, rings, rr_list, spr_list, rgap, agap, desc):
    shape = x.shape
    want = int(sum(spr_list))
    nseg = len(ap.segment_ids)
    ok = nseg == want == len(ap.segment_windows) == len(ap.segment_masks)
    ctx.require('keystone.count', ok and [int(i) for i in ap.segment_ids] == list(range(want)), 'C18/keystone/segment-count',
                'number of keystone segments != sum(segments_per_ring) (or ids are not 0..N-1)', desc, got=nseg, want=want)
    if not ok:
        return
    amp = np.asarray(ap.amp) != 0
    kc = desc.get('kclass', '')
    # a keystone segment is the transmitting part of its mask (the azimuthal gaps are cut out of amp only)
    wins = [ap.center_window] + list(ap.segment_windows)
    trans = [amp[w] & np.asarray(m) for w, m in zip(wins, [ap.center_mask] + list(ap.segment_masks))]
    cover = _scatter(shape, wins, trans)
    ctx.require('keystone.no-overlap', int((cover > 1).sum()) == 0, 'C18/keystone/overlap' + kc, 'a transmitting sample belongs to two '
                'segments', desc, samples=int((cover > 1).sum()))
    orphan = amp & ~(cover > 0)
    ctx.require('keystone.amp-in-union', not orphan.any(), 'C18/keystone/amp-sample-in-no-segment' + kc,
                'a transmitting sample of amp belongs to no segment', desc, samples=int(orphan.sum()))
    # --- areas
    xlo, xhi, ylo, yhi = abs(x[0, 0]), x[0, -1], abs(y[0, 0]), y[-1, 0]
    room = min(xlo, xhi, ylo, yhi)
    Rc = ccd / 2
    if Rc <= room:
        N = int(trans[0].sum())
        ctx.require('keystone.area', abs(N * dx * dx - sh.circle_area(Rc)) <= sh.circle_perimeter(Rc) * dx, 'C18/keystone/centre-area',
                    'area of the centre disc differs from pi R^2 by more than perimeter*dx', desc, got=N * dx * dx, want=sh.circle_area(Rc))
    ro = Rc
    s = 0
    polar = None
    rfull = np.hypot(x, y)
    for ring, (nseg_r, w) in enumerate(zip(spr_list, rr_list)):
        ri = ro + rgap
        ro = ri + w
        A = sh.keystone_area(ri, ro, nseg_r, agap)
        P = sh.keystone_perimeter(ri, ro, nseg_r)
        for _ in range(nseg_r):
            # documented ring geometry: ring j spans (previous outer radius + radial_gap, + ring_radius]
            rw = rfull[ap.segment_windows[s]]
            stray = np.asarray(ap.segment_masks[s]) & ((rw < ri - bw(ro, rfull)) | (rw > ro + bw(ro, rfull)))
            ctx.require('keystone.radial-extent', not stray.any(), 'C18/keystone/segment-outside-its-ring' + kc,
                        'a keystone segment contains a sample outside the annulus [inner, outer] of its ring', desc,
                        ring=ring, segment=s, samples=int(stray.sum()))
            if ro <= room:
                N = int(trans[s + 1].sum())
                if A <= P * dx:
                    ctx.skip('keystone.area: azimuthal gap leaves less than the raster bound of the segment (not compared)')
                elif nseg_r > 2 and 2 * math.asin(min(1.0, (agap / 2) / ri)) >= 2 * math.pi / nseg_r:
                    # the two gap strips of a segment meet at its inner edge: the closed-form area would subtract the
                    # common part twice
                    ctx.skip('keystone.area: gap strips of the two sides meet inside the segment (not compared)')
                else:
                    ctx.observe('keystone.area')
                    if abs(N * dx * dx - A) > P * dx:
                        if polar is None:
                            polar = (np.hypot(x, y), np.arctan2(y, x))
                        # a *deficit* is diagnosed (arc cut by the window); anything else keeps the label of its class
                        if N * dx * dx > A:
                            mech = ''
                            if agap > 2 * rgap and _keystone_gap_diagnosis(ap, s, polar, trans[s + 1], agap, dx, shape):
                                mech = 'azimuthal-gap>2*radial-gap/gap-not-fully-cut'
                        else:
                            mech = _keystone_clip_diagnosis(ap, s, polar, ri, ro, shape)
                        ctx.violation('C18/keystone/segment-area' + (('/' + mech) if mech else kc),
                                      'transmitting area of a keystone segment differs from (sector - gap strips) by more than '
                                      'perimeter*dx' + (' (the outer arc bulges out of the segment window and is cut off)'
                                                        if mech == 'clipped-by-window' else
                                                        ' (the gap strip between segments is cut narrower than azimuthal_gap)' if mech else ''),
                                      desc, ring=ring, segment=s, got=N * dx * dx, want=A, bound=P * dx)
            else:
                ctx.skip('keystone.area: ring cut by the edge of the grid (area not compared)')
            s += 1
    # --- OPD
    if any(min(np.asarray(m).shape) < 2 for m in list(ap.segment_masks) + [ap.center_mask]):
        # prysm normalises a segment's coordinates by the extent of its window; a window clamped to nothing or to a
        # single row/column by the edge of the grid has no extent (overfilling apertures only)
        ctx.skip('keystone.opd: a segment window is empty or one sample wide (segment off the grid); OPD bases not prepared')
        return False
    spec = _keystone_spec(r)
    _keystone_opd_cycle(ctx, ap, r, shape, spec, desc)
    mode, zn, xn = spec
    return {'zernike/zernike': (len(zn), len(zn)), 'zernike/xy': (len(zn), len(xn)), 'xy/zernike': (len(xn), len(zn))}[mode]


KEY_Z = [(0, 0), (1, 1), (1, -1), (2, 0), (2, 2), (2, -2), (3, 1)]
KEY_X = [(0, 0), (1, 0), (0, 1), (1, 1), (2, 0), (0, 2)]


def _keystone_spec(r, mode=None, nz=None, nx=None, hi=4):
    mode = mode or ['zernike/zernike', 'zernike/xy', 'xy/zernike'][int(r.integers(3))]
    nz = nz or int(r.integers(1, hi + 1))
    nx = nx or int(r.integers(1, hi + 1))
    return mode, KEY_Z[:nz], KEY_X[:nx]


def _keystone_prepare(ap, mode, zn, xn):
    from prysm.polynomials import zernike_nm_seq, xy_seq
    if mode == 'zernike/zernike':
        ap.prepare_opd_bases(zernike_nm_seq, zn, zernike_nm_seq, zn)
        return len(zn), len(zn)
    if mode == 'zernike/xy':
        ap.prepare_opd_bases(zernike_nm_seq, zn, xy_seq, xn, rotate_xyaxes=True, segment_basis_kwargs={'cartesian_grid': False})
        return len(zn), len(xn)
    ap.prepare_opd_bases(xy_seq, xn, zernike_nm_seq, zn, center_basis_kwargs={'cartesian_grid': False})
    return len(xn), len(zn)


def _keystone_opd_cycle(ctx, ap, r, shape, spec, desc, tag='', fresh=None, coef_form='ndarray'):
    mode, zn, xn = spec
    nseg = len(ap.segment_ids)
    desc2 = dict(desc, basis=mode, nz=len(zn), nx=len(xn), **{'class': desc['class'] + f':{mode}'})
    with ctx.guard(f'C18/keystone/opd/{mode}{tag}', desc2):
        nc, ns = _keystone_prepare(ap, mode, zn, xn)
        segs = [_full(shape, ap.center_window, ap.center_mask)] + [_full(shape, w, m) for w, m in zip(ap.segment_windows, ap.segment_masks)]
        pick = sorted(set([0, 1, nseg] + [int(v) for v in r.integers(0, nseg + 1, 4)]))
        for p in pick:
            cc = np.zeros(nc)
            sc = np.zeros((nseg, ns))
            if p == 0:
                cc[0] = 1.0
            else:
                sc[p - 1, 0] = 1.0
            opd = ap.compose_opd(_coef_form(cc, coef_form), _coef_form(sc, coef_form))
            okc = np.array_equal(opd != 0, segs[p])
            ctx.require('keystone.piston-confined', okc, f'C18/keystone/piston-not-confined/{mode}{tag}',
                        'a unit piston on one segment changes a sample outside that segment, or not every sample inside it', desc2,
                        segment=p - 1, outside=int(((opd != 0) & ~segs[p]).sum()), missing=int(((opd == 0) & segs[p]).sum()))
        a1, a2 = r.standard_normal(nc), r.standard_normal(nc)
        b1, b2 = r.standard_normal((nseg, ns)), r.standard_normal((nseg, ns))
        al, be = float(r.uniform(-2, 2)), float(r.uniform(-2, 2))
        lhs = ap.compose_opd(_coef_form(al * a1 + be * a2, coef_form), _coef_form(al * b1 + be * b2, coef_form))
        o1 = ap.compose_opd(_coef_form(a1, coef_form), _coef_form(b1, coef_form))
        rhs = al * o1 + be * ap.compose_opd(_coef_form(a2, coef_form), _coef_form(b2, coef_form))
        ctx.close('keystone.linear', lhs, rhs, f'C18/keystone/compose_opd-nonlinear/{mode}{tag}', 'compose_opd is not linear in the coefficients',
                  desc2, rtol=1e-10, scale=max(float(np.abs(rhs).max()), 1e-300))
        union = np.zeros(shape, dtype=bool)
        for sg in segs:
            union |= sg
        ctx.require('keystone.piston-confined', bool(np.all(lhs[~union] == 0)), f'C18/keystone/opd-outside-segments/{mode}{tag}',
                    'compose_opd is non-zero outside every segment', desc2)
        if fresh is not None:
            ap2 = fresh()
            _keystone_prepare(ap2, mode, zn, xn)
            ctx.close('keystone.opd-vs-fresh-aperture', o1, ap2.compose_opd(a1.copy(), b1.copy()),
                      f'C18/keystone/opd-differs-from-fresh-aperture/{mode}{tag}',
                      'compose_opd on an aperture that went through earlier prepare/compose cycles differs from a fresh aperture '
                      'with the same geometry, basis and coefficients', desc2, rtol=1e-12, scale=max(float(np.abs(o1).max()), 1e-300))
        return o1, a1, b1


# =========================================================================================== hardening workloads
class Tagged:
    """View of the run context that appends a class label to every violation key raised through it (configuration
    workloads: a defect that exists only under precision 32 / only after a 32 -> 64 switch gets its own key)."""

    def __init__(self, ctx, suffix):
        self._ctx = ctx
        self._suffix = suffix

    def __getattr__(self, k):
        return getattr(self._ctx, k)

    def violation(self, key, what, desc=None, **detail):
        self._ctx.violation(key + self._suffix, what, desc, **detail)

    close = Ctx.close
    equal = Ctx.equal
    require = Ctx.require
    guard = Ctx.guard


class driving:
    """with driving(ctx, wl=...): the contracts report to ctx and carry the workload label in their witnesses."""

    def __init__(self, ctx, **labels):
        self.ctx, self.labels = ctx, labels

    def __enter__(self):
        global CTX
        self.old = (CTX, dict(WL))
        CTX = self.ctx
        WL.clear()
        WL.update(self.labels)
        return self.ctx

    def __exit__(self, *a):
        global CTX
        CTX = self.old[0]
        WL.clear()
        WL.update(self.old[1])


def _hex_geometry(r, n0, n1, rings, overfill=False):
    """Random hexagonal-aperture parameters that fit the grid (None when the segments would be under 6 samples)."""
    ext = [8.0, 2.0, 0.3][int(r.integers(3))]
    dx = ext / max(n0, n1)
    fill = float(r.uniform(1.05, 1.4)) if overfill else float(r.uniform(0.6, 0.97))
    gap = float(r.uniform(0.5, 3.0)) * dx
    pitch = fill * (min(n0, n1) * dx) / (2 * rings + 1)
    d = pitch - gap
    if d < 6 * dx:
        return None
    return dx, d, gap


def _keystone_geometry(r, n0, n1, rings):
    ext = [8.0, 2.0, 0.5][int(r.integers(3))]
    dx = ext / max(n0, n1)
    half = min(n0, n1) * dx / 2
    fill = float(r.uniform(0.7, 0.95))
    ccd = float(r.uniform(0.2, 0.4)) * 2 * half * fill
    rgap = float(r.uniform(0.5, 2.5)) * dx
    agap = None if r.random() < 0.4 else float(r.uniform(0.5, 1.9)) * rgap
    ring_w = (half * fill - ccd / 2) / rings - rgap
    if ring_w < 5 * dx:
        return None
    spr = [int(r.integers(2, 9)) * (j + 1) if r.random() < 0.5 else int(r.integers(2, 13)) for j in range(rings)]
    rot = [None, 0.0, float(r.uniform(0, 180))][int(r.integers(3))]
    return dx, dict(center_circle_diameter=ccd, rings=rings, ring_radius=ring_w, segments_per_ring=spr, radial_gap=rgap,
                    azimuthal_gap=agap, rotation_per_ring=rot)


def _hex_spec(r, kind, nterm, nrad=None):
    from prysm.polynomials import zernike_nm_seq, xy_seq
    if kind == 'zernike':
        pool = [(0, 0), (1, 1), (1, -1), (2, 0), (2, 2), (2, -2), (3, 1), (3, -1), (4, 0), (3, 3), (3, -3), (4, 2)]
        return ('zernike', zernike_nm_seq, pool[:nterm], {'norm': bool(r.random() < 0.5)}, True, nrad)
    pool = [(0, 0), (1, 0), (0, 1), (1, 1), (2, 0), (0, 2), (2, 1), (1, 2), (3, 0)]
    return ('xy', xy_seq, pool[:nterm], {'cartesian_grid': False}, False, nrad)


HIST_KINDS = ['alternate-basis', 'low-then-high-order', 'high-then-low-order', 'same-basis-again', 'normalization-radius-changes']
COEF_FORMS = ['ndarray', 'list', 'tuple', 'list-of-ndarray', 'F-order', 'strided']


def _hex_specs_for(r, kind, ncyc, vtov):
    out = []
    for c in range(ncyc):
        if kind == 'alternate-basis':
            out.append(_hex_spec(r, ['zernike', 'xy'][c % 2], int(r.integers(1, 8))))
        elif kind == 'low-then-high-order':
            out.append(_hex_spec(r, 'zernike', min(12, 1 + 3 * c + int(r.integers(0, 2)))))
        elif kind == 'high-then-low-order':
            out.append(_hex_spec(r, ['zernike', 'xy'][int(r.integers(2))], max(1, 9 - 3 * c)))
        elif kind == 'same-basis-again':
            out.append(_hex_spec(np.random.default_rng(5), 'zernike', 4))
        else:
            nrad = [None, vtov / 2 * float(r.uniform(0.7, 1.5)), (vtov * 0.6, vtov * 0.8)][c % 3]
            out.append(_hex_spec(r, ['xy', 'zernike'][c % 2] if not isinstance(nrad, tuple) else 'xy', int(r.integers(1, 6)), nrad))
    return out


def _run_opd_histories(ctx):
    """Several prepare_opd_bases / compose_opd cycles on ONE aperture object (different bases, orders, normalisation radii and
    coefficients), each judged for confinement and linearity and against a fresh aperture of the same geometry."""
    from prysm.segmented import CompositeHexagonalAperture, CompositeKeystoneAperture
    rng = ctx.rng('c18-opd-history')
    grids = [(64, 64), (65, 65), (96, 97), (129, 128), (128, 128)] + ([] if ctx.quick else [(200, 201), (256, 256), (257, 257)])
    with driving(ctx, wl='opd-history'):
        for k in range(ctx.pick(36, 3200)):
            sub = ctx.subseed(rng)
            if not ctx.mine(k):
                continue
            r = np.random.default_rng(sub)
            family = ['hex', 'keystone'][k % 2]
            kind = HIST_KINDS[(k // 2) % len(HIST_KINDS)]
            ncyc = 2 + (k // 10) % ctx.pick(3, 6)
            n0, n1 = grids[(k // 2) % len(grids)] if k < 4 * len(grids) else grids[int(r.integers(len(grids)))]
            rings = 1 + (k // 4) % 3
            x, y = grid(n0, n1, 1.0)
            if family == 'hex':
                geo = _hex_geometry(r, n0, n1, rings)
                if geo is None:
                    ctx.skip('hex: segment smaller than 6 samples for this grid/ring count (not generated)')
                    continue
                dx, d, gap = geo
                x, y = grid(n0, n1, dx)
                angle = [90, 0][(k // 2) % 2]
                total = sh.hex_count(rings)
                excl = _exclusion(r, ['none', 'centre', 'random'][(k // 6) % 3], total)
                desc = {'wl': 'opd-history', 'family': 'hex', 'grid': (n0, n1), 'dx': dx, 'rings': rings, 'segment_diameter': d,
                        'segment_separation': gap, 'segment_angle': angle, 'exclude': list(excl), 'sequence': kind, 'cycles': ncyc,
                        'seed': sub, 'class': f'history:hex:{kind}:cycles={ncyc}'}
                ctx.case(desc)

                def mk():
                    return CompositeHexagonalAperture(x.copy(), y.copy(), rings, d, gap, segment_angle=angle, exclude=excl)
                with ctx.guard('C18/hex', desc):
                    ap = mk()
                    ids = [int(i) for i in ap.segment_ids]
                    cover = _scatter(x.shape, ap.windows, ap.local_masks)
                    for ci, spec in enumerate(_hex_specs_for(r, kind, ncyc, 2 * d / math.sqrt(3))):
                        tag = '' if ci == 0 else '/after-earlier-cycle'
                        form = COEF_FORMS[(k + ci) % len(COEF_FORMS)]
                        got = _hex_opd_cycle(ctx, ap, r, x.shape, cover, ids, spec, dict(desc, cycle=ci, coef_form=form), tag=tag,
                                             fresh=mk if ci else None, coef_form=form)
                        if ci:
                            ctx.observe('hex.opd-history')
                        if got is not None:
                            o1, c1 = got
                            out = np.zeros_like(x)
                            res = ap.compose_opd(c1, out=out)
                            ctx.close('hex.opd-out-keyword', res, o1, 'C18/hex/compose_opd/out=zeros-differs' + tag,
                                      'compose_opd(coefs, out=zeros) differs from compose_opd(coefs)', dict(desc, cycle=ci),
                                      rtol=1e-12, scale=max(float(np.abs(o1).max()), 1e-300))
            else:
                geo = _keystone_geometry(r, n0, n1, rings)
                if geo is None:
                    ctx.skip('keystone: ring narrower than 5 samples for this grid/ring count (not generated)')
                    continue
                dx, kw = geo
                x, y = grid(n0, n1, dx)
                desc = {'wl': 'opd-history', 'family': 'keystone', 'grid': (n0, n1), 'dx': dx, 'sequence': kind, 'cycles': ncyc, 'seed': sub,
                        'class': f'history:keystone:{kind}:cycles={ncyc}', **{k2: v for k2, v in kw.items()}}
                ctx.case(desc)

                def mk():
                    return CompositeKeystoneAperture(x.copy(), y.copy(), **kw)
                with ctx.guard('C18/keystone', desc):
                    ap = mk()
                    if any(min(np.asarray(m).shape) < 2 for m in list(ap.segment_masks) + [ap.center_mask]):
                        ctx.skip('keystone.opd: a segment window is empty or one sample wide (segment off the grid); OPD bases not prepared')
                        continue
                    modes = ['zernike/zernike', 'zernike/xy', 'xy/zernike']
                    for ci in range(ncyc):
                        if kind == 'alternate-basis':
                            spec = _keystone_spec(r, modes[(k // 2 + ci) % 3], hi=6)
                        elif kind == 'low-then-high-order':
                            spec = _keystone_spec(r, modes[int(r.integers(3))], nz=min(7, 1 + 2 * ci), nx=min(6, 1 + 2 * ci))
                        elif kind == 'high-then-low-order':
                            spec = _keystone_spec(r, modes[int(r.integers(3))], nz=max(1, 7 - 3 * ci), nx=max(1, 6 - 2 * ci))
                        elif kind == 'same-basis-again':
                            spec = _keystone_spec(r, modes[(k // 2) % 3], nz=3, nx=3)
                        else:
                            spec = _keystone_spec(r, modes[ci % 3], hi=5)
                        tag = '' if ci == 0 else '/after-earlier-cycle'
                        form = COEF_FORMS[(k + ci) % len(COEF_FORMS)]
                        got = _keystone_opd_cycle(ctx, ap, r, x.shape, spec, dict(desc, cycle=ci, coef_form=form), tag=tag,
                                                  fresh=mk if ci else None, coef_form=form)
                        if ci:
                            ctx.observe('keystone.opd-history')
                        if got is not None:
                            o1, a1, b1 = got
                            res = ap.compose_opd(a1, b1, out=np.zeros_like(x))
                            ctx.close('keystone.opd-out-keyword', res, o1, 'C18/keystone/compose_opd/out=zeros-differs' + tag,
                                      'compose_opd(.., out=zeros) differs from compose_opd(..)', dict(desc, cycle=ci),
                                      rtol=1e-12, scale=max(float(np.abs(o1).max()), 1e-300))


def _run_opd_args(ctx):
    """Class A for the apertures: the same x, y grid objects passed to two consecutive constructors (the later aperture is
    judged against pristine copies), coefficient arguments in every container / dtype / layout and re-used across calls."""
    from prysm.segmented import CompositeHexagonalAperture, CompositeKeystoneAperture
    rng = ctx.rng('c18-opd-args')
    grids = [(64, 65), (96, 96), (97, 97), (128, 129)] + ([] if ctx.quick else [(200, 200), (257, 256)])
    with driving(ctx, wl='opd-args'):
        for k in range(ctx.pick(20, 1500)):
            sub = ctx.subseed(rng)
            if not ctx.mine(k):
                continue
            r = np.random.default_rng(sub)
            family = ['hex', 'keystone'][k % 2]
            n0, n1 = grids[(k // 2) % len(grids)]
            rings = 1 + (k // 2) % 3
            if family == 'hex':
                g1, g2 = _hex_geometry(r, n0, n1, rings), _hex_geometry(r, n0, n1, 1 + (rings % 3))
                if g1 is None or g2 is None:
                    ctx.skip('hex: segment smaller than 6 samples for this grid/ring count (not generated)')
                    continue
                dx = g1[0]
                x, y = grid(n0, n1, dx)
                x0, y0 = x.copy(), y.copy()
                angle = [90, 0][(k // 2) % 2]
                d2 = g2[1] * dx / g2[0]
                gap2 = g2[2] * dx / g2[0]
                desc = {'wl': 'opd-args', 'family': 'hex', 'grid': (n0, n1), 'dx': dx, 'rings': rings, 'segment_diameter': g1[1],
                        'segment_separation': g1[2], 'segment_angle': angle, 'exclude': [], 'seed': sub,
                        'class': f'args:hex:{grid_class(n0, n1)}:rings={rings}:angle={angle}:excl=none:fits'}
                ctx.case(desc)
                with ctx.guard('C18/hex', desc):
                    first = CompositeHexagonalAperture(x, y, 1 + (rings % 3), d2, gap2, segment_angle=angle)
                    first.prepare_opd_bases(*_hex_spec(r, 'xy', 3)[1:3], basis_func_kwargs={'cartesian_grid': False})
                    first.compose_opd(r.standard_normal((len(first.segment_ids), 3)))
                    ap = CompositeHexagonalAperture(x, y, rings, g1[1], g1[2], segment_angle=angle)     # same x, y objects
                    ctx.observe('hex.grid-arrays-reused')
                    got = _check_hex(ctx, ap, r, x0, y0, dx, rings, g1[1], g1[2], angle, (), desc)
                    if got is None:
                        continue
                    _coef_laws(ctx, 'hex', lambda *c: ap.compose_opd(*c), [(len(ap.segment_ids), got[1])], r, desc)
            else:
                g1, g2 = _keystone_geometry(r, n0, n1, rings), _keystone_geometry(r, n0, n1, 1 + (rings % 3))
                if g1 is None or g2 is None:
                    ctx.skip('keystone: ring narrower than 5 samples for this grid/ring count (not generated)')
                    continue
                dx, kw = g1
                kw2 = {k2: (v * dx / g2[0] if k2 in ('center_circle_diameter', 'ring_radius', 'radial_gap') or (k2 == 'azimuthal_gap' and v is not None) else v)
                       for k2, v in g2[1].items()}
                x, y = grid(n0, n1, dx)
                x0, y0 = x.copy(), y.copy()
                rl = kw['rotation_per_ring']
                desc = {'wl': 'opd-args', 'family': 'keystone', 'grid': (n0, n1), 'dx': dx, 'seed': sub, 'kclass': '',
                        'class': f'args:keystone:{grid_class(n0, n1)}:rings={rings}', **kw}
                ctx.case(desc)
                with ctx.guard('C18/keystone', desc):
                    first = CompositeKeystoneAperture(x, y, **kw2)
                    ap = CompositeKeystoneAperture(x, y, **kw)                                         # same x, y objects
                    ctx.observe('keystone.grid-arrays-reused')
                    agap = kw['radial_gap'] if kw['azimuthal_gap'] is None else kw['azimuthal_gap']
                    ok = _check_keystone(ctx, ap, r, x0, y0, dx, kw['center_circle_diameter'], rings, [kw['ring_radius']] * rings,
                                         list(kw['segments_per_ring']), kw['radial_gap'], agap, desc)
                    if not ok:
                        continue
                    nseg = len(ap.segment_ids)
                    _coef_laws(ctx, 'keystone', lambda *c: ap.compose_opd(*c), [(ok[0],), (nseg, ok[1])], r, desc)
                    del first, rl


def _coef_laws(ctx, fam, compose, shapes, r, desc):
    """compose_opd with the same coefficient values in every container / layout / dtype, and with the same objects again."""
    cs = [r.standard_normal(s) for s in shapes]
    base = np.array(compose(*[c.copy() for c in cs]))
    scale = max(float(np.abs(base).max()), 1e-300)
    for form in COEF_FORMS[1:]:
        got = compose(*[_coef_form(c, form) for c in cs])
        ctx.close(f'{fam}.coef-forms', got, base, f'C18/{fam}/compose_opd/coefficient-container/{form}',
                  'compose_opd gives a different map for the same coefficients passed in another container / memory layout',
                  dict(desc, coef_form=form), rtol=1e-12, scale=scale)
    # other dtypes: the same *values* (rounded to the narrow type first)
    c32 = [c.astype(np.float32) for c in cs]
    ref32 = np.array(compose(*[c.astype(np.float64) for c in c32]))
    ctx.close(f'{fam}.coef-forms', compose(*c32), ref32, f'C18/{fam}/compose_opd/coefficient-dtype/float32',
              'compose_opd with float32 coefficients differs from the same values in float64', dict(desc, coef_form='float32'),
              rtol=1e-5, scale=max(float(np.abs(ref32).max()), 1e-300))
    ci = [np.round(c * 3).astype(np.int64) for c in cs]
    refi = np.array(compose(*[c.astype(np.float64) for c in ci]))
    ctx.close(f'{fam}.coef-forms', compose(*ci), refi, f'C18/{fam}/compose_opd/coefficient-dtype/int64',
              'compose_opd with integer coefficients differs from the same values in float64', dict(desc, coef_form='int64'),
              rtol=1e-12, scale=max(float(np.abs(refi).max()), 1e-300))
    # the same coefficient objects again, after all of the above
    again = compose(*cs)
    ctx.close(f'{fam}.coef-repeat', again, base, f'C18/{fam}/compose_opd/repeat/same-coefficient-objects',
              'compose_opd called again with the same coefficient arrays gives a different map', desc, rtol=1e-12, scale=scale)
    # linearity judged on this later call, the operands being the re-used objects
    c2 = [r.standard_normal(s) for s in shapes]
    lhs = compose(*[2.0 * a - 0.5 * b for a, b in zip(cs, c2)])
    rhs = 2.0 * np.array(compose(*cs)) - 0.5 * np.array(compose(*c2))
    ctx.close(f'{fam}.linear', lhs, rhs, f'C18/{fam}/compose_opd-nonlinear/coefficients-reused', 'compose_opd is not linear in the '
              'coefficients (coefficient arrays re-used across calls)', desc, rtol=1e-10, scale=max(float(np.abs(rhs).max()), 1e-300))


# ---- primitives: coordinate arrays re-used, memory layouts, coordinate dtypes ------------------------------------------
COORD_LAYOUTS = ['C', 'F', 'strided-slice', 'transposed-view']
COORD_DTYPES = ['float64', 'float32', 'int64']


def _lay(a, how):
    if how == 'C':
        return np.ascontiguousarray(a)
    if how == 'F':
        return np.asfortranarray(a)
    if how == 'transposed-view':
        return np.ascontiguousarray(a.T).T
    big = np.zeros((a.shape[0] * 2 + 1, a.shape[1] * 3 + 2), dtype=a.dtype)
    big[1::2, 2::3] = a
    return big[1::2, 2::3]


def _prim_calls(g, r, half, dx, integer):
    """One parameter set per primitive as (name, call(x, y, rr), size) ; sizes snap to the grid for integer coordinates."""
    def q(v):
        return float(max(1, round(v / dx)) * dx) if integer else float(v)
    R = q(r.uniform(0.3, 0.8) * half)
    rin = q(R * r.uniform(0.2, 0.7))
    if integer and rin >= R:
        rin = R - dx
    c = (q(r.uniform(-0.3, 0.3) * half + dx) - dx, q(r.uniform(-0.3, 0.3) * half + dx) - dx)
    sides = int(r.integers(3, 10))
    rot = [0.0, 90.0, 30.0, float(r.uniform(-180, 180))][int(r.integers(4))]
    w, h = q(r.uniform(0.2, 0.7) * half), q(r.uniform(0.2, 0.7) * half)
    A = q(r.uniform(0.4, 0.8) * half)
    B = q(A * r.uniform(0.3, 0.9))
    vanes = int(r.integers(1, 7))
    vw = q(r.uniform(1.5, 6) * dx)
    return [
        ('circle', lambda x, y, rr: g.circle(R, rr), R),
        ('annulus', lambda x, y, rr: g.annulus(rin, R, rr), R),
        ('offset_circle', lambda x, y, rr: g.offset_circle(R * 0.6, x, y, c), R * 0.6),
        ('regular_polygon', lambda x, y, rr: g.regular_polygon(sides, R, x, y, center=c, rotation=rot), R),
        ('rectangle', lambda x, y, rr: g.rectangle(w, x, y, height=h, angle=rot), max(w, h)),
        ('rotated_ellipse', lambda x, y, rr: g.rotated_ellipse(A, B, x, y, major_axis_angle=rot), A),
        ('spider', lambda x, y, rr: g.spider(vanes, vw, x, y, rotation=rot, center=c), half),
    ]


def _run_primitive_forms(ctx):
    """The same coordinate array objects go through all seven primitives, twice; coordinates in every memory layout and as
    float64 / float32 / integer arrays.  Contracts judge every call against a snapshot of what was passed in."""
    from prysm import geometry as g
    rng = ctx.rng('c18-prim-forms')
    sizes = [(16, 17), (33, 33), (64, 64), (65, 48)] + ([] if ctx.quick else [(128, 129), (200, 160), (257, 257), (300, 301)])
    reps = ctx.pick(1, 30)
    k = -1
    with driving(ctx, wl='primitive-forms'):
        for rep in range(reps):
            for (n0, n1) in sizes:
                for layout in COORD_LAYOUTS:
                    for dt in COORD_DTYPES:
                        k += 1
                        if not ctx.mine(k):
                            ctx.subseed(rng)
                            continue
                        sub = ctx.subseed(rng)
                        r = np.random.default_rng(sub)
                        integer = dt == 'int64'
                        dx = 1.0 if integer else [2.0, 1.0, 0.05][int(r.integers(3))] / max(n0, n1)
                        x0, y0 = grid(n0, n1, dx)
                        half = min(n0, n1) * dx / 2
                        x, y = _lay(x0.astype(dt), layout), _lay(y0.astype(dt), layout)
                        rr = _lay(np.hypot(x0, y0).astype('float64' if integer else dt), layout)
                        xr, yr, rrr = np.array(x, dtype=float), np.array(y, dtype=float), np.array(rr, dtype=float)
                        desc = {'wl': 'primitive-forms', 'grid': (n0, n1), 'dx': dx, 'layout': layout, 'coord_dtype': dt, 'seed': sub,
                                'class': f'forms:{layout}:{dt}:{grid_class(n0, n1)}'}
                        ctx.case(desc)
                        calls = _prim_calls(g, r, half, dx, integer)
                        first, bands = {}, {}
                        for rnd in (0, 1):
                            for name, call, size in calls:
                                with ctx.guard(f'C18/{name}/coords={dt}/{layout}', dict(desc, prim=name)):
                                    m = np.asarray(call(x, y, rr)) != 0
                                    if rnd == 0:
                                        first[name] = m
                                        # reference: the same values as pristine C-ordered float64 arrays
                                        ref = np.asarray(call(xr.copy(), yr.copy(), rrr.copy())) != 0
                                        bands[name] = band = _edge_band(ref) if ref.shape == m.shape else None
                                        ctx.observe('primitive.layout')
                                        bad = ((m != ref) & ~band) if band is not None else np.ones(1, dtype=bool)
                                        if m.shape != ref.shape or bad.any():
                                            ctx.violation(f'C18/{name}/coordinate-form/{layout if dt == "float64" else dt}',
                                                          f'{name} gives a different mask for the same coordinates passed in another memory '
                                                          'layout / dtype (outside the boundary band)', dict(desc, prim=name),
                                                          samples=int(bad.sum()) if m.shape == ref.shape else -1)
                                    else:
                                        ctx.observe('primitive.repeat')
                                        band = bands.get(name)
                                        if band is None:
                                            continue
                                        if name in first and (m.shape != first[name].shape or ((m != first[name]) & ~band).any()):
                                            ctx.violation(f'C18/{name}/repeat/same-coordinate-arrays',
                                                          f'{name} called again with the same coordinate arrays (after the other primitives '
                                                          'used them) gives a different mask', dict(desc, prim=name))


def _edge_band(m):
    """Samples that touch (8-neighbourhood) a transition of the mask: the rasterised boundary, not compared between forms
    (float32 coordinates round differently; the joggled triangulation may decide an on-edge sample either way)."""
    b = np.zeros(m.shape, dtype=bool)
    for a0, a1 in (((slice(1, None), slice(None)), (slice(None, -1), slice(None))),
                   ((slice(None), slice(1, None)), (slice(None), slice(None, -1))),
                   ((slice(1, None), slice(1, None)), (slice(None, -1), slice(None, -1))),
                   ((slice(1, None), slice(None, -1)), (slice(None, -1), slice(1, None)))):
        d = m[a0] != m[a1]
        b[a0] |= d
        b[a1] |= d
    return b


# ---- configuration: precision 32, then 64 --------------------------------------------------------------------------------
def _run_precision(ctx):
    """config.precision = 32 (regular_polygon builds its vertices in that precision) for primitives with float64 and float32
    coordinates, hexagonal and keystone apertures; then the same under precision 64 at the normal band."""
    from prysm import geometry as g
    from prysm.segmented import CompositeHexagonalAperture, CompositeKeystoneAperture
    from ..util import precision
    rng = ctx.rng('c18-precision')
    prims = ['circle', 'annulus', 'offset_circle', 'regular_polygon', 'rectangle', 'rotated_ellipse', 'spider']
    sizes = [(32, 33), (64, 64), (65, 65)] + ([] if ctx.quick else [(128, 129), (200, 200), (257, 257)])
    t32, t64 = Tagged(ctx, '/precision=32'), Tagged(ctx, '/after-precision-32')
    k = -1
    for rep in range(ctx.pick(2, 100)):
        for (n0, n1) in sizes:
            k += 1
            sub = ctx.subseed(rng)
            if not ctx.mine(k):
                continue
            for phase, tctx in (('precision=32', t32), ('after-precision-32', t64)):
                r = np.random.default_rng(sub)
                cm = precision(32) if phase == 'precision=32' else _Null()
                with cm, driving(tctx, wl=phase):
                    ctx.observe('precision32.cases' if phase == 'precision=32' else 'precision32-then-64.cases')
                    for cdt in ('float64', 'float32'):
                        ext = [2.0, 1.0, 10.0][int(r.integers(3))]
                        dx = ext / max(n0, n1)
                        x, y = grid(n0, n1, dx)
                        x, y = x.astype(cdt), y.astype(cdt)
                        for prim in prims:
                            base = {'wl': 'precision', 'phase': phase, 'prim': prim, 'grid': (n0, n1), 'dx': dx, 'coords': cdt, 'seed': sub}
                            _primitive_case(tctx, g, r, prim, x, y, n0, n1, dx, ext / 2, base)
                    # one hexagonal and one keystone aperture per case
                    rings = 1 + k % 3
                    geo = _hex_geometry(r, n0, n1, rings)
                    if geo is not None and min(n0, n1) >= 64:
                        dx, d, gap = geo
                        x, y = grid(n0, n1, dx)
                        angle = [90, 0][k % 2]
                        excl = _exclusion(r, ['none', 'centre', 'random'][k % 3], sh.hex_count(rings))
                        desc = {'wl': 'precision', 'phase': phase, 'grid': (n0, n1), 'dx': dx, 'rings': rings, 'segment_diameter': d,
                                'segment_separation': gap, 'segment_angle': angle, 'exclude': list(excl), 'seed': sub,
                                'class': f'{phase}:hex:{grid_class(n0, n1)}:rings={rings}:angle={angle}'}
                        ctx.case(desc)
                        with tctx.guard('C18/hex', desc):
                            ap = CompositeHexagonalAperture(x, y, rings, d, gap, segment_angle=angle, exclude=excl)
                            _check_hex(tctx, ap, r, x, y, dx, rings, d, gap, angle, excl, desc)
                    geo = _keystone_geometry(r, n0, n1, rings)
                    if geo is not None and min(n0, n1) >= 64:
                        dx, kw = geo
                        x, y = grid(n0, n1, dx)
                        desc = {'wl': 'precision', 'phase': phase, 'grid': (n0, n1), 'dx': dx, 'seed': sub, 'kclass': '',
                                'class': f'{phase}:keystone:{grid_class(n0, n1)}:rings={rings}', **kw}
                        ctx.case(desc)
                        with tctx.guard('C18/keystone', desc):
                            ap = CompositeKeystoneAperture(x, y, **kw)
                            agap = kw['radial_gap'] if kw['azimuthal_gap'] is None else kw['azimuthal_gap']
                            _check_keystone(tctx, ap, r, x, y, dx, kw['center_circle_diameter'], rings, [kw['ring_radius']] * rings,
                                            list(kw['segments_per_ring']), kw['radial_gap'], agap, desc)


class _Null:
    def __enter__(self):
        return None

    def __exit__(self, *a):
        return False


# ---- numeric regimes: many rings, many sides, extreme aspect ratios ------------------------------------------------------
def _run_regimes(ctx):
    from prysm import geometry as g
    from prysm.segmented import CompositeHexagonalAperture, CompositeKeystoneAperture
    rng = ctx.rng('c18-regimes')
    with driving(ctx, wl='regimes'):
        # hexagonal apertures with 4..6 (quick) / 4..9 (thorough) rings
        cases = [(4, (200, 201)), (5, (257, 257)), (6, (300, 301)), (5, (256, 300))]
        if not ctx.quick:
            cases += [(r_, gsz) for r_ in (4, 5, 6, 7, 8, 9) for gsz in ((384, 385), (513, 513), (512, 600))] * 2
        for k, (rings, (n0, n1)) in enumerate(cases):
            sub = ctx.subseed(rng)
            if not ctx.mine(k):
                continue
            r = np.random.default_rng(sub)
            geo = _hex_geometry(r, n0, n1, rings)
            if geo is None:
                ctx.skip('hex: segment smaller than 6 samples for this grid/ring count (not generated)')
                continue
            dx, d, gap = geo
            x, y = grid(n0, n1, dx)
            angle = [90, 0][k % 2]
            ecls = ['none', 'random', 'centre', 'all-but-one'][k % 4]
            excl = _exclusion(r, ecls, sh.hex_count(rings))
            desc = {'wl': 'regimes', 'grid': (n0, n1), 'dx': dx, 'rings': rings, 'segment_diameter': d, 'segment_separation': gap,
                    'segment_angle': angle, 'exclude': list(excl), 'seed': sub,
                    'class': f'hex:{grid_class(n0, n1)}:rings={rings}:angle={angle}:excl={ecls}:fits'}
            ctx.case(desc)
            ctx.observe('regime.hex-rings>=4')
            with ctx.guard('C18/hex', desc):
                ap = CompositeHexagonalAperture(x, y, rings, d, gap, segment_angle=angle, exclude=excl)
                _check_hex(ctx, ap, r, x, y, dx, rings, d, gap, angle, excl, desc)
        # keystone apertures with 4..5 (quick) / 4..8 rings
        cases = [(4, (257, 257)), (5, (300, 300))] + ([] if ctx.quick else [(r_, gsz) for r_ in (4, 5, 6, 7, 8) for gsz in ((385, 385), (512, 512))] * 2)
        for k, (rings, (n0, n1)) in enumerate(cases):
            sub = ctx.subseed(rng)
            if not ctx.mine(k + 1):
                continue
            r = np.random.default_rng(sub)
            geo = _keystone_geometry(r, n0, n1, rings)
            if geo is None:
                ctx.skip('keystone: ring narrower than 5 samples for this grid/ring count (not generated)')
                continue
            dx, kw = geo
            x, y = grid(n0, n1, dx)
            desc = {'wl': 'regimes', 'grid': (n0, n1), 'dx': dx, 'seed': sub, 'kclass': '',
                    'class': f'keystone:{grid_class(n0, n1)}:rings={rings}', **kw}
            ctx.case(desc)
            ctx.observe('regime.keystone-rings>=4')
            with ctx.guard('C18/keystone', desc):
                ap = CompositeKeystoneAperture(x, y, **kw)
                agap = kw['radial_gap'] if kw['azimuthal_gap'] is None else kw['azimuthal_gap']
                _check_keystone(ctx, ap, r, x, y, dx, kw['center_circle_diameter'], rings, [kw['ring_radius']] * rings,
                                list(kw['segments_per_ring']), kw['radial_gap'], agap, desc)
        # polygons with many sides; grids with extreme aspect ratios for every primitive
        k = -1
        for sides in ([13, 16, 24, 50] if ctx.quick else list(range(13, 41)) + [50, 64, 100, 128]):
            for (n0, n1) in ((64, 65), (129, 129)):
                k += 1
                if not ctx.mine(k):
                    continue
                dx = 2.0 / max(n0, n1)
                x, y = grid(n0, n1, dx)
                rot = [0.0, 90.0, 11.0][k % 3]
                c = [(0.0, 0.0), (0.21, -0.13)][k % 2]
                desc = {'wl': 'regimes', 'grid': (n0, n1), 'sides': sides, 'rotation': rot, 'center': c,
                        'class': f'regular_polygon:sides>12:{grid_class(n0, n1)}'}
                with ctx.guard('C18/regular_polygon/sides>12', desc):
                    m = g.regular_polygon(sides, 0.7, x, y, center=c, rotation=rot)
                    ctx.case(desc, nontrivial=_nontrivial(m))
                    ctx.observe('regime.polygon-sides>12')
        prims = ['circle', 'annulus', 'offset_circle', 'regular_polygon', 'rectangle', 'rotated_ellipse', 'spider']
        aspect = [(4, 64), (64, 5), (8, 300), (301, 9)] + ([] if ctx.quick else [(3, 1000), (1001, 4), (16, 2048), (2049, 12)])
        for rep in range(ctx.pick(2, 30)):
            for (n0, n1) in aspect:
                for prim in prims:
                    k += 1
                    sub = ctx.subseed(rng)
                    if not ctx.mine(k):
                        continue
                    r = np.random.default_rng(sub)
                    # the long side sets the sampling; sizes are drawn against the *short* half extent so the shape is cut by
                    # the grid on some cases and inside it on others
                    dx = 1.0 / max(n0, n1)
                    x, y = grid(n0, n1, dx)
                    half = max(float(r.uniform(0.6, 4.0)) * min(n0, n1) * dx / 2, 8 * dx)
                    base = {'wl': 'aspect', 'prim': prim, 'grid': (n0, n1), 'dx': dx, 'seed': sub}
                    ctx.observe('regime.aspect')
                    _primitive_case(ctx, g, r, prim, x, y, n0, n1, dx, half, base)


# =========================================================================================== class E: argument forms
FORMS_NOTE = ('accepted forms established by running the current tree (/repo @ faa8443): exclude as tuple / list / range / ndarray '
              '(int64, int32, uint8, float64) / set / frozenset / dict keys view / list of numpy integers, in any order, all give '
              'the aperture of the sorted tuple; a generator is consumed by the centre-segment test and None / a bare int raise: out '
              'of domain.  Keystone: segments_per_ring int / numpy int / list / tuple / ndarray / range; ring_radius float / numpy '
              'float / list / tuple / ndarray; rotation_per_ring None / int / float / numpy float / list / tuple / ndarray / list of '
              'None; radial_gap, azimuthal_gap, center_circle_diameter python or numpy scalars (a list for a gap raises today: out '
              'of domain; so does a 0-d array for ring_radius).  Primitives: sizes as python int / float, numpy float64 / float32 / '
              '0-d array; sides / vanes as numpy integers; angles as int / float / numpy scalars at every multiple of 45 degrees in '
              '[-720, 720]; centres as tuple / list / ndarray / tuple of numpy scalars; 1-D x, y only for offset_circle (its docstring '
              'does not ask for 2-D arrays and it returns the outer grid); regular_polygon / spider raise for 1-D input')
EXCLUDE_FORMS = ['tuple', 'list', 'tuple-unsorted', 'ndarray-int64', 'ndarray-int32', 'ndarray-uint8', 'ndarray-float64',
                 'ndarray-unsorted', 'set', 'frozenset', 'dict-keys', 'list-of-numpy-ints', 'range']
HASH_CONTAINERS = ('set', 'frozenset', 'dict-keys')
SCALAR_FORMS = ['python-float', 'numpy-float64', 'numpy-float32', '0d-float64']
INT_FORMS = ['python-int', 'numpy-int64', 'numpy-int32', 'numpy-uint8']
SEQ_FORMS = ['list', 'tuple', 'ndarray', 'list-of-numpy-scalars']


def exclude_form(ex, form, r):
    ex = sorted(int(v) for v in ex)
    sh_ = list(ex)
    if len(sh_) > 1:
        sh_ = [sh_[i] for i in r.permutation(len(sh_))]
        if sh_ == ex:
            sh_ = sh_[::-1]
    if form == 'tuple':
        return tuple(ex)
    if form == 'list':
        return list(ex)
    if form == 'tuple-unsorted':
        return tuple(sh_)
    if form.startswith('ndarray-') and form != 'ndarray-unsorted':
        return np.array(ex, dtype=form.split('-')[1])
    if form == 'ndarray-unsorted':
        return np.array(sh_, dtype=int)
    if form == 'set':
        return set(sh_)
    if form == 'frozenset':
        return frozenset(sh_)
    if form == 'dict-keys':
        return {v: None for v in sh_}.keys()
    if form == 'list-of-numpy-ints':
        return [[np.int64, np.int32, np.uint8, np.intp][i % 4](v) for i, v in enumerate(ex)]
    if form == 'range':
        return range(ex[0], ex[-1] + 1) if ex and ex == list(range(ex[0], ex[-1] + 1)) else None
    raise ValueError(form)


def scalar_form(v, form):
    if form == 'python-float':
        return float(v)
    if form == 'numpy-float64':
        return np.float64(v)
    if form == 'numpy-float32':
        return np.float32(v)
    if form == '0d-float64':
        return np.array(float(v))
    if form == 'python-int':
        return int(v)
    if form == 'numpy-int64':
        return np.int64(v)
    if form == 'numpy-int32':
        return np.int32(v)
    if form == 'numpy-uint8':
        return np.uint8(v)
    raise ValueError(form)


def seq_form(vals, form):
    if form == 'list':
        return list(vals)
    if form == 'tuple':
        return tuple(vals)
    if form == 'ndarray':
        return np.array(vals)
    if form == 'list-of-numpy-scalars':
        return [np.asarray(v)[()] for v in vals]
    if form == 'range':
        return vals
    raise ValueError(form)


def snap(v, dx=1 / 64):
    """A value that float32 holds exactly (multiples of 1/64 below 2**17)."""
    return max(1, round(float(v) / dx)) * dx


def _segment_edges(amp, windows, masks):
    """Samples touching the rasterised edge of amp or of any single segment (a gap narrower than one sample leaves no
    transition in amp, but the segments on either side still end there)."""
    band = _edge_band(amp)
    for w, m in zip(windows, masks):
        m = np.asarray(m) != 0
        if m.size:
            band[w] |= _edge_band(np.pad(m, 1))[1:-1, 1:-1]
    return band


def _same_hex(ctx, monitor, ap, ref, key, what, desc, band_only=False):
    """Two hexagonal apertures are the same segmentation: ids, windows, per-segment masks, amp."""
    ctx.observe(monitor)
    ids, ids0 = [int(i) for i in ap.segment_ids], [int(i) for i in ref.segment_ids]
    if ids != ids0 or len(ap.windows) != len(ref.windows) or len(ap.local_masks) != len(ref.local_masks):
        ctx.violation(key, what + ' (segment ids / number of segments differ)', desc, got=ids[:24], want=ids0[:24],
                      n_windows=len(ap.windows), n_masks=len(ap.local_masks))
        return False
    a, a0 = np.asarray(ap.amp) != 0, np.asarray(ref.amp) != 0
    if a.shape != a0.shape:
        ctx.violation(key, what + ' (amp has another shape)', desc)
        return False
    band = _segment_edges(a0, ref.windows, ref.local_masks) if band_only else np.zeros(a0.shape, dtype=bool)
    bad = int(((a != a0) & ~band).sum())
    if not band_only:
        for w, w0, m, m0 in zip(ap.windows, ref.windows, ap.local_masks, ref.local_masks):
            if w != w0 or not np.array_equal(np.asarray(m), np.asarray(m0)):
                bad += 1
    if bad:
        ctx.violation(key, what + ' (amp / a segment window / a segment mask differs)', desc, differing=bad)
        return False
    return True


def _same_keystone(ctx, monitor, ap, ref, key, what, desc, band_only=False):
    ctx.observe(monitor)
    ids, ids0 = [int(i) for i in ap.segment_ids], [int(i) for i in ref.segment_ids]
    if ids != ids0 or len(ap.segment_windows) != len(ref.segment_windows) or len(ap.segment_masks) != len(ref.segment_masks):
        ctx.violation(key, what + ' (segment ids / number of segments differ)', desc, got=len(ids), want=len(ids0))
        return False
    a, a0 = np.asarray(ap.amp) != 0, np.asarray(ref.amp) != 0
    band = (_segment_edges(a0, [ref.center_window] + list(ref.segment_windows), [ref.center_mask] + list(ref.segment_masks))
            if band_only else np.zeros(a0.shape, dtype=bool))
    bad = int(((a != a0) & ~band).sum()) if a.shape == a0.shape else 1
    if not band_only and not bad:
        for w, w0, m, m0 in zip([ap.center_window] + list(ap.segment_windows), [ref.center_window] + list(ref.segment_windows),
                                [ap.center_mask] + list(ap.segment_masks), [ref.center_mask] + list(ref.segment_masks)):
            if w != w0 or not np.array_equal(np.asarray(m), np.asarray(m0)):
                bad += 1
    if bad:
        ctx.violation(key, what + ' (amp / a segment window / a segment mask differs)', desc, differing=bad)
        return False
    return True


def _run_forms(ctx):
    from prysm import geometry as g
    from prysm.segmented import CompositeHexagonalAperture as Hex, CompositeKeystoneAperture as Key
    rng = ctx.rng('c18-forms')
    with driving(ctx, wl='forms'):
        _forms_hex(ctx, Hex, rng)
        _forms_keystone(ctx, Key, rng)
        _forms_primitives(ctx, g, rng)


def _forms_hex(ctx, Hex, rng):
    grids = [(64, 64), (65, 65), (96, 97), (81, 64)] + ([] if ctx.quick else [(128, 128), (129, 160), (200, 201), (257, 257)])
    ecls_all = ['ring-ids', 'centre+ring', 'outer-ring', 'contiguous', 'single-ring-id', 'all-but-one']
    k = -1
    for rep in range(ctx.pick(1, 12)):
        for gi, (n0, n1) in enumerate(grids):
            for rings in (1, 2, 3) if ctx.quick else (1, 2, 3, 4):
                for ei, ecls in enumerate(ecls_all):
                    k += 1
                    sub = ctx.subseed(rng)
                    if not ctx.mine(k):
                        continue
                    if ctx.quick and (gi + rings + ei) % 2:
                        continue
                    r = np.random.default_rng(sub)
                    dx = [1 / 8, 1 / 32, 1 / 4][int(r.integers(3))]
                    fill = float(r.uniform(0.6, 0.97))
                    gap = snap(float(r.uniform(0.5, 3.0)) * dx, dx / 8)
                    d = snap(fill * (min(n0, n1) * dx) / (2 * rings + 1) - gap, dx / 8)
                    if d < 6 * dx:
                        ctx.skip('hex: segment smaller than 6 samples for this grid/ring count (not generated)')
                        continue
                    total = sh.hex_count(rings)
                    ring_ids = list(range(1, total))
                    if ecls == 'ring-ids':
                        ex = sorted(int(v) for v in r.choice(ring_ids, size=int(r.integers(1, max(2, len(ring_ids) // 2))), replace=False))
                    elif ecls == 'centre+ring':
                        ex = [0] + sorted(int(v) for v in r.choice(ring_ids, size=int(r.integers(1, max(2, len(ring_ids) // 2))), replace=False))
                    elif ecls == 'outer-ring':
                        ex = list(range(sh.hex_count(rings - 1), total))
                        ex = ex[:: int(r.integers(1, 3))]
                    elif ecls == 'contiguous':
                        lo = int(r.integers(0, total - 1))
                        ex = list(range(lo, min(total, lo + int(r.integers(1, 6)))))
                    elif ecls == 'single-ring-id':
                        ex = [int(r.integers(1, total))]
                    else:
                        keep = int(r.integers(total))
                        ex = [i for i in range(total) if i != keep]
                    angle = [90, 0][k % 2]
                    x, y = grid(n0, n1, dx)
                    desc = {'wl': 'form-hex', 'grid': (n0, n1), 'dx': dx, 'rings': rings, 'segment_diameter': d, 'segment_separation': gap,
                            'segment_angle': angle, 'exclude': ex, 'seed': sub, 'class': f'form:hex:exclude:{ecls}:rings={rings}'}
                    ctx.case(desc)
                    ref = None
                    with ctx.guard('C18/hex/form:exclude=tuple', desc):
                        ref = Hex(x, y, rings, d, gap, segment_angle=angle, exclude=tuple(ex))
                    if ref is None:
                        continue
                    want = [i for i in range(total) if i not in ex]
                    for form in EXCLUDE_FORMS:
                        exf = exclude_form(ex, form, r)
                        if exf is None:
                            continue
                        d2 = dict(desc, exclude_form=form)
                        # one defect, one key: containers numpy cannot look into (np.isin wraps them as a 0-d object array) are one class
                        fc = 'hash-container' if form in HASH_CONTAINERS else form
                        with ctx.guard(f'C18/hex/form:exclude={fc}', d2):
                            ap = Hex(x, y, rings, d, gap, segment_angle=angle, exclude=exf)
                            ids = [int(i) for i in ap.segment_ids]
                            ok = ctx.require('form.hex-exclude', ids == want and len(ap.windows) == len(want) == len(ap.local_masks)
                                             == len(ap.local_coords), f'C18/hex/form:exclude={fc}',
                                             f'with exclude given as a {form} the aperture does not consist of '
                                             'exactly the segments whose id is not excluded', d2, got=ids[:24], want=want[:24])
                            if ok:
                                _same_hex(ctx, 'form.hex-exclude', ap, ref, f'C18/hex/form:exclude={fc}',
                                          f'with exclude given as a {form} the aperture differs from the one built with the sorted tuple', d2)
                                cover = _scatter(x.shape, ap.windows, ap.local_masks)
                                ctx.require('hex.no-overlap', int((cover > 1).sum()) == 0, f'C18/hex/form:exclude={fc}/overlap',
                                            'a sample belongs to two segments', d2)
                                ctx.require('hex.amp==union', np.array_equal(cover > 0, np.asarray(ap.amp) != 0),
                                            f'C18/hex/form:exclude={fc}/amp!=union', 'amp is not the union of the segment masks', d2)
                                # all_centers[k] is the centre of segment_ids[k] (the documentation zips the two lists)
                                ctx.observe('form.hex-exclude')
                                ca = [tuple(float(v) for v in c) for c in ap.all_centers]
                                c0 = [tuple(float(v) for v in c) for c in ref.all_centers]
                                if ca != c0:
                                    ring_excluded = len([i for i in ex if i >= 1])
                                    mech = ('all_centers-lists-excluded-segments' if len(ca) == len(c0) + ring_excluded and
                                            all(c in ca for c in c0) else 'all_centers-differ')
                                    ctx.violation(f'C18/hex/form:exclude={fc}/{mech}', f'with exclude given as a {form}, all_centers is not '
                                                  'the list of the centres of segment_ids (as it is for the sorted tuple)'
                                                  + (': it also lists the centres of the excluded ring segments' if 'lists' in mech else ''),
                                                  d2, n_centres=len(ca), n_segments=len(ids))
    # ---- scalar / grid forms of the other constructor arguments
    k = -1
    for rep in range(ctx.pick(1, 10)):
        for (n0, n1) in grids:
            for rings in (1, 2, 3):
                k += 1
                sub = ctx.subseed(rng)
                if not ctx.mine(k):
                    continue
                r = np.random.default_rng(sub)
                dx = [1 / 8, 1 / 32, 1 / 4][int(r.integers(3))]
                gap = snap(float(r.uniform(0.5, 3.0)) * dx, dx / 8)
                d = snap(float(r.uniform(0.6, 0.97)) * (min(n0, n1) * dx) / (2 * rings + 1) - gap, dx / 8)
                if d < 6 * dx:
                    ctx.skip('hex: segment smaller than 6 samples for this grid/ring count (not generated)')
                    continue
                angle = [90, 0][k % 2]
                ex = (0,) if k % 3 else tuple(sorted(set([0, int(r.integers(1, sh.hex_count(rings)))])))
                x, y = grid(n0, n1, dx)
                desc = {'wl': 'form-hex-args', 'grid': (n0, n1), 'dx': dx, 'rings': rings, 'segment_diameter': d, 'segment_separation': gap,
                        'segment_angle': angle, 'exclude': list(ex), 'seed': sub, 'class': f'form:hex:args:rings={rings}:angle={angle}'}
                ctx.case(desc)
                with ctx.guard('C18/hex', desc):
                    ref = Hex(x, y, rings, d, gap, segment_angle=angle, exclude=ex)
                    variants = []
                    for f in INT_FORMS[1:]:
                        variants.append((f'rings={f}', lambda f=f: Hex(x, y, scalar_form(rings, f), d, gap, segment_angle=angle, exclude=ex), False))
                    for f in SCALAR_FORMS[1:]:
                        # a float32 scalar may legitimately pull vertex arithmetic into single precision: compared off the edge
                        variants.append((f'segment_diameter={f}', lambda f=f: Hex(x, y, rings, scalar_form(d, f), gap, segment_angle=angle, exclude=ex), 'float32' in f))
                        variants.append((f'segment_separation={f}', lambda f=f: Hex(x, y, rings, d, scalar_form(gap, f), segment_angle=angle, exclude=ex), 'float32' in f))
                    for f in ('python-float', 'numpy-float64', 'numpy-int64', 'numpy-float32'):
                        variants.append((f'segment_angle={f}', lambda f=f: Hex(x, y, rings, d, gap, segment_angle=scalar_form(angle, f), exclude=ex), 'float32' in f))
                    variants.append(('call=all-keywords', lambda: Hex(x=x, y=y, rings=rings, segment_diameter=d, segment_separation=gap,
                                                                       segment_angle=angle, exclude=ex), False))
                    variants.append(('call=all-positional', lambda: Hex(x, y, rings, d, gap, angle, ex), False))
                    variants.append(('x,y=F-order', lambda: Hex(np.asfortranarray(x), np.asfortranarray(y), rings, d, gap, segment_angle=angle, exclude=ex), False))
                    variants.append(('x,y=strided-view', lambda: Hex(_lay(x, 'strided-slice'), _lay(y, 'strided-slice'), rings, d, gap, segment_angle=angle, exclude=ex), False))
                    variants.append(('x,y=read-only', lambda: Hex(_ro(x), _ro(y), rings, d, gap, segment_angle=angle, exclude=ex), False))
                    variants.append(('x,y=float32', lambda: Hex(x.astype(np.float32), y.astype(np.float32), rings, d, gap, segment_angle=angle, exclude=ex), True))
                    # omitted optional arguments == the documented defaults (segment_angle=90, every segment included), also
                    # right after a call that passed other values
                    ref_def = Hex(x, y, rings, d, gap, segment_angle=90, exclude=())
                    Hex(x, y, rings, d, gap, segment_angle=0, exclude=(1,))
                    with ctx.guard('C18/hex/form:segment_angle,exclude=omitted', desc):
                        _same_hex(ctx, 'form.hex-args', Hex(x, y, rings, d, gap), ref_def, 'C18/hex/form:segment_angle,exclude=omitted',
                                  'CompositeHexagonalAperture without segment_angle / exclude differs from segment_angle=90, exclude=() '
                                  '(the documented defaults)', desc)
                    for label, make, band_only in variants:
                        d2 = dict(desc, form=label)
                        with ctx.guard(f'C18/hex/form:{label}', d2):
                            _same_hex(ctx, 'form.hex-args', make(), ref, f'C18/hex/form:{label}',
                                      f'CompositeHexagonalAperture with {label} differs from the canonical call with the same values', d2,
                                      band_only=band_only)


def _ro(a):
    b = a.copy()
    b.setflags(write=False)
    return b


def _forms_keystone(ctx, Key, rng):
    grids = [(96, 96), (97, 97), (128, 129)] + ([] if ctx.quick else [(160, 160), (201, 201), (256, 257)])
    k = -1
    for rep in range(ctx.pick(2, 16)):
        for (n0, n1) in grids:
            for rings in (1, 2, 3):
                k += 1
                sub = ctx.subseed(rng)
                if not ctx.mine(k):
                    continue
                r = np.random.default_rng(sub)
                dx = [1 / 16, 1 / 64, 1 / 4][int(r.integers(3))]
                q = dx / 8
                half = min(n0, n1) * dx / 2
                fill = float(r.uniform(0.7, 0.95))
                ccd = snap(float(r.uniform(0.2, 0.4)) * 2 * half * fill, q)
                rgap = snap(float(r.uniform(0.5, 2.5)) * dx, q)
                ring_w = snap((half * fill - ccd / 2) / rings - rgap, q)
                if ring_w < 5 * dx:
                    ctx.skip('keystone: ring narrower than 5 samples for this grid/ring count (not generated)')
                    continue
                spr = [int(r.integers(2, 9)) * (j + 1) if r.random() < 0.5 else int(r.integers(2, 13)) for j in range(rings)]
                wts = r.uniform(0.7, 1.3, rings)
                rr = [snap(v, q) for v in ring_w * rings * wts / wts.sum()]
                rot = [float(snap(v, 1 / 4)) for v in r.uniform(0, 180, rings)]
                agap = snap(float(r.uniform(0.5, 1.9)) * rgap, q)
                x, y = grid(n0, n1, dx)
                base = dict(center_circle_diameter=ccd, rings=rings, ring_radius=rr, segments_per_ring=spr, radial_gap=rgap,
                            azimuthal_gap=agap, rotation_per_ring=rot)
                desc = {'wl': 'form-keystone', 'grid': (n0, n1), 'dx': dx, 'seed': sub, 'class': f'form:keystone:rings={rings}', **base}
                ctx.case(desc)

                def mk(**kw):
                    return Key(x, y, **dict(base, **kw))
                with ctx.guard('C18/keystone', desc):
                    ref = mk()
                    ctx.require('keystone.count', len(ref.segment_ids) == sum(spr), 'C18/keystone/segment-count',
                                'number of keystone segments != sum(segments_per_ring)', desc, got=len(ref.segment_ids), want=sum(spr))
                    uni = dict(ring_radius=rr[0], segments_per_ring=spr[0], rotation_per_ring=rot[0])      # the scalar forms
                    ref_u = mk(**uni)
                    ref_none = mk(rotation_per_ring=None)
                    ref_ag = mk(azimuthal_gap=None)
                    variants = []
                    for f in SEQ_FORMS:
                        variants.append((f'segments_per_ring={f}', lambda f=f: mk(segments_per_ring=seq_form(spr, f)), ref))
                        variants.append((f'ring_radius={f}', lambda f=f: mk(ring_radius=seq_form(rr, f)), ref))
                        variants.append((f'rotation_per_ring={f}', lambda f=f: mk(rotation_per_ring=seq_form(rot, f)), ref))
                    steps = {b - a for a, b in zip(spr, spr[1:])}
                    if len(spr) == 1 or (len(steps) == 1 and min(steps) > 0):
                        step = steps.pop() if steps else 1
                        variants.append(('segments_per_ring=range', lambda: mk(segments_per_ring=range(spr[0], spr[-1] + 1, step)), ref))
                    variants.append(('ring_radius=ndarray-float32', lambda: mk(ring_radius=np.array(rr, dtype=np.float32)), ref))
                    variants.append(('segments_per_ring=ndarray-int32', lambda: mk(segments_per_ring=np.array(spr, dtype=np.int32)), ref))
                    variants.append(('segments_per_ring=ndarray-uint8', lambda: mk(segments_per_ring=np.array(spr, dtype=np.uint8)), ref))
                    variants.append(('rotation_per_ring=list-of-ints', lambda: mk(rotation_per_ring=[int(v) for v in rot]),
                                     mk(rotation_per_ring=[float(int(v)) for v in rot])))
                    variants.append(('rotation_per_ring=list-of-None', lambda: mk(rotation_per_ring=[None] * rings), ref_none))
                    variants.append(('rotation_per_ring=omitted', lambda: Key(x, y, ccd, rings, rr, spr, rgap, agap), ref_none))
                    variants.append(('azimuthal_gap=omitted', lambda: Key(x, y, ccd, rings, rr, spr, rgap, rotation_per_ring=rot), ref_ag))
                    variants.append(('azimuthal_gap=radial_gap-explicit', lambda: mk(azimuthal_gap=rgap), ref_ag))
                    variants.append(('call=all-positional', lambda: Key(x, y, ccd, rings, rr, spr, rgap, agap, rot), ref))
                    variants.append(('call=all-keywords', lambda: Key(x=x, y=y, **base), ref))
                    for f in INT_FORMS[1:]:
                        variants.append((f'rings={f}', lambda f=f: mk(rings=scalar_form(rings, f)), ref))
                        variants.append((f'segments_per_ring=scalar:{f}', lambda f=f: mk(**dict(uni, segments_per_ring=scalar_form(spr[0], f))), ref_u))
                    for f in SCALAR_FORMS[1:]:
                        if f != '0d-float64':
                            variants.append((f'ring_radius=scalar:{f}', lambda f=f: mk(**dict(uni, ring_radius=scalar_form(rr[0], f))), ref_u))
                            variants.append((f'rotation_per_ring=scalar:{f}', lambda f=f: mk(**dict(uni, rotation_per_ring=scalar_form(rot[0], f))), ref_u))
                        if f != '0d-float64':       # a 0-d array for radial_gap raises today: out of domain
                            variants.append((f'radial_gap={f}', lambda f=f: mk(radial_gap=scalar_form(rgap, f)), ref))
                        variants.append((f'azimuthal_gap={f}', lambda f=f: mk(azimuthal_gap=scalar_form(agap, f)), ref))
                        variants.append((f'center_circle_diameter={f}', lambda f=f: mk(center_circle_diameter=scalar_form(ccd, f)), ref))
                    variants.append(('rotation_per_ring=scalar:python-int', lambda: mk(**dict(uni, rotation_per_ring=int(rot[0]))),
                                     mk(**dict(uni, rotation_per_ring=float(int(rot[0]))))))
                    variants.append(('x,y=F-order', lambda: Key(np.asfortranarray(x), np.asfortranarray(y), **base), ref))
                    variants.append(('x,y=strided-view', lambda: Key(_lay(x, 'strided-slice'), _lay(y, 'strided-slice'), **base), ref))
                    variants.append(('x,y=read-only', lambda: Key(_ro(x), _ro(y), **base), ref))
                    variants.append(('x,y=float32', lambda: Key(x.astype(np.float32), y.astype(np.float32), **base), 'band'))
                    # the per-ring lists are the caller's: a constructor must not consume / change them
                    spr_l, rr_l, rot_l = list(spr), list(rr), list(rot)
                    variants.append(('lists-reused-by-a-second-constructor',
                                     lambda: (Key(x, y, ccd, rings, rr_l, spr_l, rgap, agap, rot_l), Key(x, y, ccd, rings, rr_l, spr_l, rgap, agap, rot_l))[1], ref))
                    rot_n = [None] * rings
                    spr_other = [n + 1 + j for j, n in enumerate(spr)]
                    variants.append(('rotation_per_ring=list-of-None-reused-with-other-segments_per_ring',
                                     lambda: (Key(x, y, ccd, rings, rr, spr_other, rgap, agap, rot_n), Key(x, y, ccd, rings, rr, spr, rgap, agap, rot_n))[1],
                                     ref_none))
                    for label, make, want in variants:
                        d2 = dict(desc, form=label)
                        with ctx.guard(f'C18/keystone/form:{label}', d2):
                            band_only = isinstance(want, str)
                            _same_keystone(ctx, 'form.keystone-args', make(), ref if band_only else want, f'C18/keystone/form:{label}',
                                           f'CompositeKeystoneAperture with {label} differs from the canonical call with the same values', d2,
                                           band_only=band_only)
                    ctx.require('form.keystone-args', spr_l == list(spr) and rr_l == list(rr) and rot_l == list(rot) and rot_n == [None] * rings,
                                'C18/keystone/form:lists-modified', 'the constructor changed the caller\'s per-ring lists', desc)


ANGLE_STEPS = list(range(-16, 17))        # multiples of 45 degrees in [-720, 720]


def _forms_primitives(ctx, g, rng):
    """Scalar, angle and centre forms of the primitives; the analytic contracts judge every call, and every form must give
    the mask of the canonical (python float / tuple) form off the rasterised edge."""
    sizes = [(32, 33), (48, 48), (65, 40)] + ([] if ctx.quick else [(96, 97), (128, 128), (129, 200)])
    k = -1
    for rep in range(ctx.pick(1, 12)):
        for (n0, n1) in sizes:
            # ---- every multiple of 45 degrees, as int / float / numpy scalars, for every primitive with an angle
            for step in ANGLE_STEPS:
                k += 1
                sub = ctx.subseed(rng)
                if not ctx.mine(k):
                    continue
                r = np.random.default_rng(sub)
                dx = 1 / 16
                x, y = grid(n0, n1, dx)
                half = min(n0, n1) * dx / 2
                ang = 45 * step
                cls = 'multiple-of-180' if ang % 180 == 0 else 'multiple-of-90' if ang % 90 == 0 else 'multiple-of-45'
                sign = 'negative' if ang < 0 else 'positive' if ang > 0 else 'zero'
                desc = {'wl': 'form-angle', 'grid': (n0, n1), 'dx': dx, 'angle': ang, 'seed': sub, 'class': f'form:angle:{cls}:{sign}'}
                ctx.case(desc)
                w = (int(r.integers(3, int(half / dx) - 2)) + 0.37) * dx
                h = w * float(r.uniform(0.3, 0.8))
                c = (float(r.uniform(-0.3, 0.3)) * half, float(r.uniform(-0.3, 0.3)) * half)
                sides = int(r.integers(3, 9))
                vanes = int(r.integers(1, 7))
                vw = float(r.uniform(1.5, 4)) * dx
                calls = {
                    'rectangle': lambda a: g.rectangle(w, x, y, height=h, angle=a),
                    'rotated_ellipse': lambda a: g.rotated_ellipse(w, h, x, y, major_axis_angle=a),
                    'regular_polygon': lambda a: g.regular_polygon(sides, w, x, y, center=c, rotation=a),
                    'spider': lambda a: g.spider(vanes, vw, x, y, rotation=a, center=c),
                    'spider-rad': lambda a: g.spider(vanes, vw, x, y, rotation=np.radians(a) if not isinstance(a, int) else math.radians(a),
                                                     center=c, rotation_is_rad=True),
                }
                for name, call in calls.items():
                    prim = name.split('-')[0]
                    d2 = dict(desc, prim=name)
                    with ctx.guard(f'C18/{prim}/form:angle={cls}', d2):
                        ref = np.asarray(call(float(ang))) != 0
                        band = _edge_band(ref)
                        forms = {'python-int': int(ang), 'numpy-float64': np.float64(ang), 'numpy-int64': np.int64(ang),
                                 'numpy-float32': np.float32(ang), '0d-float64': np.array(float(ang))}
                        for f, a in forms.items():
                            if name == 'spider-rad' and f in ('numpy-float32', 'numpy-int64'):
                                continue          # radians of these are not the same number
                            ctx.observe('form.angle')
                            m = np.asarray(call(a)) != 0
                            if m.shape != ref.shape or ((m != ref) & ~band).any():
                                ctx.violation(f'C18/{prim}/form:angle={f}/{cls}', f'{name} with the angle given as a {f} differs from the '
                                              'same angle as a python float (off the rasterised edge)', dict(d2, angle_form=f))
                        # the shape turned by angle and by angle +- 360 is the same shape
                        for off in (360, -360):
                            ctx.observe('form.angle')
                            m = np.asarray(call(float(ang + off))) != 0
                            if ((m != ref) & ~band).any():
                                ctx.violation(f'C18/{prim}/form:angle+360/{cls}', f'{name} turned by angle and by angle {off:+d} degrees '
                                              'differ (off the rasterised edge)', dict(d2, offset=off))
            # ---- size / count / centre forms
            for prim in ('circle', 'annulus', 'offset_circle', 'regular_polygon', 'rectangle', 'rotated_ellipse', 'spider'):
                k += 1
                sub = ctx.subseed(rng)
                if not ctx.mine(k):
                    continue
                r = np.random.default_rng(sub)
                dx = 1 / 16
                x, y = grid(n0, n1, dx)
                rr = np.hypot(x, y)
                half = min(n0, n1) * dx / 2
                desc = {'wl': 'form-primitive-args', 'prim': prim, 'grid': (n0, n1), 'dx': dx, 'seed': sub, 'class': f'form:primitive:{prim}'}
                ctx.case(desc)
                R = snap(float(r.uniform(0.4, 0.9)) * half, dx / 8) + dx / 16        # float32-exact, off the grid lines
                R2 = snap(R * float(r.uniform(0.3, 0.8)), dx / 8) + dx / 16
                c = (snap(float(r.uniform(0.05, 0.3)) * half, dx / 8), -snap(float(r.uniform(0.05, 0.3)) * half, dx / 8))
                sides, vanes = int(r.integers(3, 10)), int(r.integers(1, 7))
                rot = [0.0, 30.0, -75.0, 90.0][int(r.integers(4))]
                S = scalar_form
                variants = []
                if prim == 'circle':
                    canon = lambda: g.circle(R, rr)
                    variants = [(f'radius={f}', lambda f=f: g.circle(S(R, f), rr)) for f in SCALAR_FORMS[1:]]
                    variants += [('call=keywords', lambda: g.circle(radius=R, r=rr)), ('radius=python-int', None)]
                elif prim == 'annulus':
                    canon = lambda: g.annulus(R2, R, rr)
                    variants = [(f'rin,rout={f}', lambda f=f: g.annulus(S(R2, f), S(R, f), rr)) for f in SCALAR_FORMS[1:]]
                    variants += [('call=keywords', lambda: g.annulus(rin=R2, rout=R, r=rr))]
                elif prim == 'offset_circle':
                    canon = lambda: g.offset_circle(R2, x, y, c)
                    variants = [(f'radius={f}', lambda f=f: g.offset_circle(S(R2, f), x, y, c)) for f in SCALAR_FORMS[1:]]
                    variants += [(f'center={f}', lambda f=f: g.offset_circle(R2, x, y, seq_form(c, f))) for f in SEQ_FORMS]
                    variants += [('center=ndarray-float32', lambda: g.offset_circle(R2, x, y, np.array(c, dtype=np.float32))),
                                 ('call=keywords', lambda: g.offset_circle(radius=R2, x=x, y=y, center=c)),
                                 ('x,y=1d', lambda: g.offset_circle(R2, x[0, :].copy(), y[:, 0].copy(), c)),
                                 ('x,y=row+column', lambda: g.offset_circle(R2, x[:1, :].copy(), y[:, :1].copy(), c))]
                elif prim == 'regular_polygon':
                    canon = lambda: g.regular_polygon(sides, R, x, y, center=c, rotation=rot)
                    variants = [(f'radius={f}', lambda f=f: g.regular_polygon(sides, S(R, f), x, y, center=c, rotation=rot)) for f in SCALAR_FORMS[1:]]
                    variants += [(f'sides={f}', lambda f=f: g.regular_polygon(S(sides, f), R, x, y, center=c, rotation=rot)) for f in INT_FORMS[1:]]
                    variants += [(f'center={f}', lambda f=f: g.regular_polygon(sides, R, x, y, center=seq_form(c, f), rotation=rot)) for f in SEQ_FORMS]
                    variants += [('call=all-positional', lambda: g.regular_polygon(sides, R, x, y, c, rot)),
                                 ('call=all-keywords', lambda: g.regular_polygon(sides=sides, radius=R, x=x, y=y, center=c, rotation=rot))]
                elif prim == 'rectangle':
                    canon = lambda: g.rectangle(R, x, y, height=R2, angle=rot)
                    variants = [(f'width,height={f}', lambda f=f: g.rectangle(S(R, f), x, y, height=S(R2, f), angle=rot)) for f in SCALAR_FORMS[1:]]
                    variants += [('call=all-positional', lambda: g.rectangle(R, x, y, R2, rot)),
                                 ('call=all-keywords', lambda: g.rectangle(width=R, x=x, y=y, height=R2, angle=rot))]
                elif prim == 'rotated_ellipse':
                    canon = lambda: g.rotated_ellipse(R, R2, x, y, major_axis_angle=rot)
                    variants = [(f'widths={f}', lambda f=f: g.rotated_ellipse(S(R, f), S(R2, f), x, y, major_axis_angle=rot)) for f in SCALAR_FORMS[1:]]
                    variants += [('call=all-positional', lambda: g.rotated_ellipse(R, R2, x, y, rot)),
                                 ('call=all-keywords', lambda: g.rotated_ellipse(width_major=R, width_minor=R2, x=x, y=y, major_axis_angle=rot))]
                else:
                    vw = snap(float(r.uniform(1.5, 5)) * dx, dx / 8) + dx / 16
                    canon = lambda: g.spider(vanes, vw, x, y, rotation=rot, center=c)
                    variants = [(f'width={f}', lambda f=f: g.spider(vanes, S(vw, f), x, y, rotation=rot, center=c)) for f in SCALAR_FORMS[1:]]
                    variants += [(f'vanes={f}', lambda f=f: g.spider(S(vanes, f), vw, x, y, rotation=rot, center=c)) for f in INT_FORMS[1:]]
                    variants += [(f'center={f}', lambda f=f: g.spider(vanes, vw, x, y, rotation=rot, center=seq_form(c, f))) for f in SEQ_FORMS]
                    variants += [('call=all-positional', lambda: g.spider(vanes, vw, x, y, rot, c, False)),
                                 ('rotation_is_rad=omitted', lambda: (g.spider(vanes, vw, x, y, math.radians(rot), c, True), g.spider(vanes, vw, x, y, rot, c))[1]),
                                 ('call=all-keywords', lambda: g.spider(vanes=vanes, width=vw, x=x, y=y, rotation=rot, center=c, rotation_is_rad=False))]
                with ctx.guard(f'C18/{prim}', desc):
                    ref = np.asarray(canon()) != 0
                    band = _edge_band(ref)
                    for label, make in variants:
                        if make is None:
                            continue
                        d2 = dict(desc, form=label)
                        with ctx.guard(f'C18/{prim}/form:{label}', d2):
                            ctx.observe('form.primitive-args')
                            m = np.asarray(make()) != 0
                            if m.shape != ref.shape or ((m != ref) & ~band).any():
                                ctx.violation(f'C18/{prim}/form:{label}', f'{prim} with {label} gives a different mask than the canonical '
                                              'call with the same values (off the rasterised edge)', d2,
                                              got_shape=list(m.shape), want_shape=list(ref.shape))
                    # integer-valued sizes: python int == float
                    Ri = float(max(1, int(half * 0.7)))
                    if prim in ('circle', 'rectangle', 'regular_polygon') and Ri >= 1:
                        pair = {'circle': (lambda v: g.circle(v, rr)), 'rectangle': (lambda v: g.rectangle(v, x, y, angle=rot)),
                                'regular_polygon': (lambda v: g.regular_polygon(sides, v, x, y, rotation=rot))}[prim]
                        a, b = np.asarray(pair(Ri)) != 0, np.asarray(pair(int(Ri))) != 0
                        ctx.observe('form.primitive-args')
                        if a.shape != b.shape or ((a != b) & ~_edge_band(a)).any():
                            ctx.violation(f'C18/{prim}/form:size=python-int', f'{prim} with an integer size differs from the same size as a float',
                                          dict(desc, size=Ri))


# =========================================================================================== class F: foreign traffic
def _run_foreign(ctx):
    """Other public consumers of the helpers the primitives and apertures share (cart_to_polar, polar_to_cart,
    optimize_xy_separable, make_xy_grid, config.precision) run first with hostile arguments — grids they return are edited in
    place, the same calls under precision 32, polynomial bases evaluated on the very grid objects — then primitives and one
    aperture of each family are judged as usual."""
    from prysm import coordinates, geometry as g
    from prysm.segmented import CompositeHexagonalAperture as Hex, CompositeKeystoneAperture as Key
    from ..util import precision
    rng = ctx.rng('c18-foreign')
    prims = ['circle', 'annulus', 'offset_circle', 'regular_polygon', 'rectangle', 'rotated_ellipse', 'spider']
    sizes = [(64, 64), (65, 80), (97, 96)] + ([] if ctx.quick else [(128, 129), (200, 160), (257, 257)])
    k = -1
    for rep in range(ctx.pick(1, 24)):
        for (n0, n1) in sizes:
            for hostile in ('grids-edited-in-place', 'precision-32-consumers', 'polynomials-on-the-same-grids'):
                k += 1
                sub = ctx.subseed(rng)
                if not ctx.mine(k):
                    continue
                r = np.random.default_rng(sub)
                dx = [2.0, 1.0, 0.3][int(r.integers(3))] / max(n0, n1)
                x, y = grid(n0, n1, dx)           # ONE grid: the prelude and everything judged afterwards use these values
                desc = {'wl': 'foreign', 'grid': (n0, n1), 'dx': dx, 'prelude': hostile, 'seed': sub, 'class': f'foreign:{hostile}'}
                ctx.case(desc)
                ctx.observe('foreign.cases')
                try:
                    _foreign_prelude(hostile, coordinates, g, precision, x, y, dx, r)
                except Exception as e:
                    ctx.skip(f'foreign prelude raised {type(e).__name__}')
                tctx = Tagged(ctx, f'/after-foreign:{hostile}')
                with driving(tctx, wl='foreign:' + hostile):
                    half = min(n0, n1) * dx / 2
                    # echo: the helper calls of the prelude, now made by the primitives themselves (origin-centred, unrotated
                    # spider -> polar_to_cart(hypot, arctan2); rotated rectangle / keystone -> cart_to_polar(x, y)); the
                    # analytic contracts judge them
                    d1 = dict(desc, echo=True)
                    with tctx.guard('C18/spider', d1):
                        g.spider(int(r.integers(1, 7)), float(r.uniform(1.5, 5)) * dx, x, y)
                    with tctx.guard('C18/rectangle', d1):
                        g.rectangle(0.5 * half, x, y, height=0.3 * half, angle=float(r.uniform(5, 85)))
                        g.rectangle(0.45 * half, x, y, height=0.3 * half)
                    with tctx.guard('C18/offset_circle', d1):
                        g.offset_circle(0.6 * half, x, y, (0.0, 0.0))
                        g.offset_circle(0.4 * half, x, y, (dx, -2 * dx))
                    with tctx.guard('C18/circle', d1):
                        g.circle(0.7 * half, np.hypot(x, y))
                    for prim in prims:
                        base = {'wl': 'foreign', 'prelude': hostile, 'prim': prim, 'grid': (n0, n1), 'dx': dx, 'seed': sub}
                        _primitive_case(tctx, g, r, prim, x, y, n0, n1, dx, half, base)
                    rings = 1 + k % 2
                    geo = _hex_geometry(r, n0, n1, rings)
                    if geo is not None:
                        dxh, d, gap = geo
                        d, gap = d * dx / dxh, gap * dx / dxh
                        excl = _exclusion(r, ['random', 'centre'][k % 2], sh.hex_count(rings))
                        d2 = dict(desc, rings=rings, segment_diameter=d, segment_separation=gap, segment_angle=90, exclude=list(excl),
                                  **{'class': f'foreign:{hostile}:hex'})
                        with tctx.guard('C18/hex', d2):
                            ap = Hex(x, y, rings, d, gap, segment_angle=90, exclude=list(excl) if k % 3 == 0 else excl)
                            _check_hex(tctx, ap, r, x, y, dx, rings, d, gap, 90, excl, d2)
                    geo = _keystone_geometry(r, n0, n1, rings)
                    if geo is not None:
                        dxk, kw = geo
                        kw = {k2: (v * dx / dxk if k2 in ('center_circle_diameter', 'ring_radius', 'radial_gap') or
                                   (k2 == 'azimuthal_gap' and v is not None) else v) for k2, v in kw.items()}
                        d2 = dict(desc, kclass='', **kw)
                        d2['class'] = f'foreign:{hostile}:keystone'
                        with tctx.guard('C18/keystone', d2):
                            ap = Key(x, y, **kw)
                            agap = kw['radial_gap'] if kw['azimuthal_gap'] is None else kw['azimuthal_gap']
                            _check_keystone(tctx, ap, r, x, y, dx, kw['center_circle_diameter'], rings, [kw['ring_radius']] * rings,
                                            list(kw['segments_per_ring']), kw['radial_gap'], agap, d2)


def _foreign_prelude(hostile, coordinates, g, precision, x, y, dx, r):
    from prysm._richdata import RichData
    shape = x.shape
    if hostile == 'grids-edited-in-place':
        for kw in ({'dx': dx}, {'diameter': dx * shape[1]}, {'dx': dx, 'grid': False}):
            gx, gy = coordinates.make_xy_grid(shape, **kw)
            gx[...] = 9.0
            gy[...] = -9.0
        rr, tt = coordinates.cart_to_polar(x.copy(), y.copy())
        rr[...] = 0.0
        tt += 1.0
        for c0 in ((0.0, 0.0), (dx, -2 * dx)):
            rr, tt = coordinates.cart_to_polar(x - c0[0], y - c0[1])
            xx, yy = coordinates.polar_to_cart(rr, tt)
            xx[...] = 0.0
            yy[...] = 0.0
            rr[...] = 0.0
            tt[...] = 0.0
        rr, tt = coordinates.cart_to_polar(x[0, :].copy(), y[:, 0].copy())
        rr *= 0.0
        xx, yy = coordinates.polar_to_cart(np.hypot(x, y), np.arctan2(y, x))
        xx[...] = 0.0
        yy[...] = 0.0
        ox, oy = coordinates.optimize_xy_separable(x.copy(), y.copy())
        ox[...] = 1.0
        oy[...] = 1.0
        g.gaussian(dx * 5, x[0, :].copy(), y[:, 0].copy(), center=(dx, -dx))
        c = RichData(r.random(shape), dx, 0.5)
        c.x[...] = 1.0
        c.r[...] = 2.0
        c.t[...] = 3.0
    elif hostile == 'precision-32-consumers':
        with precision(32):
            gx, gy = coordinates.make_xy_grid(shape, dx=dx)
            rr, tt = coordinates.cart_to_polar(gx, gy)
            coordinates.polar_to_cart(rr, tt)
            g.regular_polygon(6, dx * 10, gx, gy, rotation=30)
            g.regular_polygon(5, dx * 10, x, y, center=(dx, dx))
            g.spider(3, dx * 2, gx, gy, rotation=10)
            g.rectangle(dx * 8, gx, gy, angle=20)
            g.gaussian(dx * 5, gx, gy)
    else:
        from prysm.polynomials import zernike_nm_seq, xy_seq, hopkins
        rr, tt = coordinates.cart_to_polar(x, y)
        rn = rr / float(rr.max())
        for m in zernike_nm_seq([(2, 0), (3, 1), (4, 4)], rn, tt):
            m *= 0.0
        for m in xy_seq([(1, 0), (2, 1)], x / float(np.abs(x).max()), y / float(np.abs(y).max())):
            m += 1.0
        hopkins(1, 1, 1, rn, tt, 0.5)
        tt += np.pi
        rn *= 2.0


# =========================================================================================== hardening pass 3 (HARDENING3.md)
# H  exact coincidences: keystone apertures whose rings abut (radial_gap == 0, also gaps of exactly 1 or 2 samples) with azimuthal gap
#    0 / default / a whole number of samples, on grids whose samples land exactly on the ring radii (sample pitch a binary or decimal
#    fraction, every radius a whole number of samples: on-axis samples and Pythagorean triples have r == radius to the last bit).
#    The statement decides these samples: no sample in two segments, every transmitting sample in exactly one, pistons confined, the
#    unit piston on every segment is the 0/1 indicator of the union.  Established on /repo @ c2c1d7f: the tree satisfies all of it
#    (ring j is inner < r <= outer, the centre disc r <= R, seams are open on both sides and never transmit).
#    Hexagonal apertures with segment_separation == 0 stay out of domain (ASSUMPTIONS: closed hexagons share their edge samples).
# G  magnitudes / units: compose_opd is homogeneous of degree one for factors 1e-12 ... 1e12, a segment with tiny coefficients among
#    O(1) neighbours still gets its own OPD, a 5e-9 piston is confined like a unit piston; an aperture described in other units
#    (grid and every length multiplied by k = 2**-30 ... 1e9) is the same segmentation.
EXACT_DX = [1 / 32, 1 / 16, 0.025, 1 / 64, 0.05, 0.125, 0.1]
OPD_FACTORS = [('tiny', 1e-12), ('tiny', 1e-9), ('tiny', 5e-9), ('small', 1e-6), ('large', 1e6), ('huge', 1e12)]
UNIT_FACTORS = [2.0 ** -30, 2.0 ** 30, 1e-9, 1e-6, 1e6, 1e9]


def _p3_keystone_coincidence(ctx, Key, rng):
    t = Tagged(ctx, '/special:gap=0')
    sizes = [128, 129, 160, 192, 200, 256, 257, 320] if ctx.quick else [128, 129, 160, 192, 200, 256, 257, 320, 384, 400, 512, 513]
    with driving(t, wl='keystone-coincidence'):
        for k in range(ctx.pick(32, 1600)):
            sub = ctx.subseed(rng)
            if not ctx.mine(k):
                continue
            r = np.random.default_rng(sub)
            dx = EXACT_DX[k % len(EXACT_DX)]
            n0 = sizes[(k // 2) % len(sizes)]
            n1 = n0 if (k // 7) % 3 else n0 + [1, -1, 16][(k // 21) % 3]
            halfs = min(n0, n1) // 2 - 2
            rings = 1 + k % 3
            gs = [0, 0, 0, 1, 2][(k // 3) % 5]             # radial gap in samples: 0 in three cases of five
            a = int(r.integers(6, max(8, halfs // 3)))
            bmax = (halfs - a - rings * gs) // rings
            if bmax < 5:
                ctx.skip('keystone coincidence: ring narrower than 5 samples (not generated)')
                continue
            widths = [int(r.integers(5, bmax + 1)) for _ in range(rings)]
            if k % 4 == 1:
                widths = [widths[0]] * rings
            ag = [0.0, None, 1.0, 2.0, 0.0][(k // 2) % 5]
            agap = None if ag is None else ag * dx
            spr = [int(r.integers(1, 13)) if r.random() < 0.5 else int(r.integers(2, 7)) * (j + 1) for j in range(rings)]
            rot = [None, 0.0, 17.0, [float(v) for v in np.round(r.uniform(0, 180, rings), 1)], 45.0, float(np.round(r.uniform(0, 180), 2))][(k // 5) % 6]
            ccd = 2 * (a * dx)
            rr_list = [w * dx for w in widths]
            rgap = gs * dx
            kw = dict(center_circle_diameter=ccd, rings=rings, ring_radius=rr_list if k % 4 != 1 else rr_list[0],
                      segments_per_ring=spr, radial_gap=rgap, azimuthal_gap=agap, rotation_per_ring=rot)
            desc = {'wl': 'keystone-coincidence', 'grid': (n0, n1), 'dx': dx, 'centre_radius_samples': a, 'ring_width_samples': widths,
                    'radial_gap_samples': gs, 'seed': sub, 'kclass': '',
                    'class': f'special:keystone:radial_gap={"0" if gs == 0 else "whole-samples"}:agap={"default" if ag is None else "0" if ag == 0 else "whole-samples"}'
                             f':rings={rings}:{grid_class(n0, n1)}', **kw}
            x, y = grid(n0, n1, dx)
            rfull = np.hypot(x, y)
            with t.guard('C18/keystone', desc):
                ap = Key(x, y, **kw)
                amp = np.asarray(ap.amp) != 0
                # samples exactly on a radius two neighbours share (gap 0) or on any ring edge (gap > 0)
                radii, ro = [], a * dx
                for w in widths:
                    radii.append(ro)
                    ri = ro + rgap
                    radii.append(ri)
                    ro = ri + w * dx
                radii.append(ro)
                on = np.zeros(x.shape, dtype=bool)
                for R in radii:
                    on |= (rfull == R)
                desc['samples_exactly_on_ring_radii'] = int(on.sum())
                desc['of_which_transmit'] = int((on & amp).sum())
                ctx.case(desc, nontrivial=bool((on & amp).any()))
                if (on & amp).any():
                    ctx.observe('special.keystone-gap0')
                else:
                    ctx.skip('keystone coincidence: no transmitting sample exactly on a ring radius (every such sample is on a seam)')
                ok = _check_keystone(t, ap, r, x, y, dx, ccd, rings, rr_list, spr, rgap, rgap if agap is None else agap, desc)
                if not ok:
                    continue
                # the unit piston on every segment at once is the 0/1 indicator of the union of the segments
                _keystone_prepare(ap, 'zernike/zernike', [(0, 0)], [(0, 0)])
                nseg = len(ap.segment_ids)
                opd = np.asarray(ap.compose_opd(np.ones(1), np.ones((nseg, 1))))
                union = _scatter(x.shape, [ap.center_window] + list(ap.segment_windows),
                                 [np.asarray(ap.center_mask)] + [np.asarray(m) for m in ap.segment_masks]) > 0
                vals = np.unique(opd)
                t.require('special.keystone-piston-sum', bool(np.array_equal(opd, union.astype(opd.dtype))), 'C18/keystone/unit-piston-sum-not-0/1',
                          'a unit piston on every segment is not 1 on the union of the segments and 0 elsewhere (a sample is composed '
                          'twice or not at all)', desc, values=[float(v) for v in vals[:6]])


def _p3_opd_case(ctx, fam, compose, shapes, segs, unit, r, desc):
    """Class G laws of compose_opd.  `shapes`: shapes of the coefficient arguments (keystone: centre, segments), `segs`: full-grid mask
    of the segment each coefficient row drives, as [(argument index, row index or None, mask)]."""
    mon = f'scale.{fam}-opd'
    cs = [r.standard_normal(sh_) for sh_ in shapes]
    base = np.array(compose(*[c.copy() for c in cs]))
    bmax = max(float(np.abs(base).max()), 1e-300)
    for lab, f in OPD_FACTORS:
        got = compose(*[f * c for c in cs])
        ctx.close(mon, got, f * base, f'C18/{fam}/compose_opd/scale:{lab}', f'compose_opd(s c) != s compose_opd(c) for s = {f:g}', dict(desc, factor=f),
                  rtol=1e-10, scale=f * bmax)
    # one segment tiny among O(1) neighbours: inside that segment the map is the map of that segment alone
    for f in (1e-10, 3e-9):
        ai, ri, mask = segs[int(r.integers(len(segs)))]
        mixed = [c.copy() for c in cs]
        only = [np.zeros_like(c) for c in cs]
        if ri is None:
            mixed[ai] *= f
            only[ai][...] = cs[ai]
        else:
            mixed[ai][ri] *= f
            only[ai][ri] = cs[ai][ri]
        got = np.asarray(compose(*mixed))
        ref = f * np.asarray(compose(*only))          # composed at O(1), then scaled: the reference never sees tiny coefficients
        sc = float(np.abs(ref[mask]).max()) if mask.any() else 0.0
        if sc == 0.0:
            ctx.skip(f'{fam} opd magnitudes: the chosen segment has no sample / no response')
            continue
        ctx.close(mon, got[mask], ref[mask], f'C18/{fam}/compose_opd/scale:one-segment-tiny', 'a segment whose coefficients are tiny next to '
                  'O(1) coefficients on its neighbours does not get the OPD of its own coefficients', dict(desc, factor=f), rtol=1e-10, scale=sc)
    # a 5 nm piston in metres, a 1e-12 piston: confined like a unit piston
    for amp_ in (5e-9, 1e-12):
        ai, ri, mask = segs[int(r.integers(len(segs)))]
        co = [np.zeros(sh_) for sh_ in shapes]
        if ri is None:
            co[ai][0] = amp_
        else:
            co[ai][ri, 0] = amp_
        opd = np.asarray(compose(*co))
        okc = np.array_equal(opd != 0, mask) and (not unit or bool(np.all(opd[mask] == amp_)))
        ctx.require(mon, okc, f'C18/{fam}/piston-not-confined/scale:tiny', f'a piston of {amp_:g} on one segment does not change exactly the '
                    'samples of that segment', dict(desc, piston=amp_), outside=int(((opd != 0) & ~mask).sum()), missing=int(((opd == 0) & mask).sum()))


def _p3_magnitudes(ctx, Hex, Key, rng):
    from prysm.polynomials import zernike_nm_seq
    grids = [(64, 64), (65, 65), (96, 97), (81, 64), (128, 128)] + ([] if ctx.quick else [(129, 160), (200, 201), (257, 257)])
    with driving(ctx, wl='magnitudes'):
        for k in range(ctx.pick(24, 1600)):
            sub = ctx.subseed(rng)
            if not ctx.mine(k // 2):          # both families of one index on the same shard: every shard sees both
                continue
            r = np.random.default_rng(sub)
            fam = ['hex', 'keystone'][k % 2]
            n0, n1 = grids[(k // 2) % len(grids)]
            rings = 1 + (k // 2) % 3
            uk = UNIT_FACTORS[(k // 2) % len(UNIT_FACTORS)]
            exact = uk in (2.0 ** -30, 2.0 ** 30)
            if fam == 'hex':
                geo = _hex_geometry(r, n0, n1, rings)
                if geo is None:
                    ctx.skip('hex: segment smaller than 6 samples for this grid/ring count (not generated)')
                    continue
                dx, d, gap = geo
                x, y = grid(n0, n1, dx)
                angle = [90, 0][(k // 2) % 2]
                excl = _exclusion(r, ['none', 'centre', 'random'][(k // 6) % 3], sh.hex_count(rings))
                desc = {'wl': 'magnitudes', 'family': 'hex', 'grid': (n0, n1), 'dx': dx, 'rings': rings, 'segment_diameter': d,
                        'segment_separation': gap, 'segment_angle': angle, 'exclude': list(excl), 'unit_factor': uk, 'seed': sub,
                        'class': f'scale:hex:rings={rings}:angle={angle}'}
                ctx.case(desc)
                with ctx.guard('C18/hex/scale', desc):
                    ap = Hex(x, y, rings, d, gap, segment_angle=angle, exclude=excl)
                    apk = Hex(x * uk, y * uk, rings, d * uk, gap * uk, segment_angle=angle, exclude=excl)
                    _same_hex(ctx, 'scale.hex-units', apk, ap, 'C18/hex/scale:units', 'the same hexagonal aperture described in other units '
                              '(grid, diameter and separation multiplied by one factor) is another segmentation', desc, band_only=True)
                    if any(min(np.asarray(m).shape) < 2 for m in ap.local_masks):
                        ctx.skip('hex.opd: a segment window is empty or one sample wide (segment off the grid); OPD bases not prepared')
                        continue
                    spec = _hex_spec(r, ['zernike', 'xy'][(k // 4) % 2], int(r.integers(1, 6)))
                    ap.prepare_opd_bases(spec[1], spec[2], basis_func_kwargs=spec[3])
                    nseg, nt = len(ap.segment_ids), len(spec[2])
                    segs = [(0, j, _full(x.shape, ap.windows[j], ap.local_masks[j])) for j in range(nseg)]
                    _p3_opd_case(ctx, 'hex', lambda c: ap.compose_opd(c), [(nseg, nt)], segs, spec[4], r, desc)
            else:
                geo = _keystone_geometry(r, n0, n1, rings)
                if geo is None:
                    ctx.skip('keystone: ring narrower than 5 samples for this grid/ring count (not generated)')
                    continue
                dx, kw = geo
                x, y = grid(n0, n1, dx)
                desc = {'wl': 'magnitudes', 'family': 'keystone', 'grid': (n0, n1), 'dx': dx, 'unit_factor': uk, 'seed': sub,
                        'class': f'scale:keystone:rings={rings}', **kw}
                ctx.case(desc)
                with ctx.guard('C18/keystone/scale', desc):
                    ap = Key(x, y, **kw)
                    kwk = {k2: (v * uk if k2 in ('center_circle_diameter', 'ring_radius', 'radial_gap') or (k2 == 'azimuthal_gap' and v is not None) else v)
                           for k2, v in kw.items()}
                    apk = Key(x * uk, y * uk, **kwk)
                    _same_keystone(ctx, 'scale.keystone-units', apk, ap, 'C18/keystone/scale:units', 'the same keystone aperture described in '
                                   'other units (grid and every length multiplied by one factor) is another segmentation', desc, band_only=not exact)
                    if any(min(np.asarray(m).shape) < 2 for m in list(ap.segment_masks) + [ap.center_mask]):
                        ctx.skip('keystone.opd: a segment window is empty or one sample wide (segment off the grid); OPD bases not prepared')
                        continue
                    mode, zn, xn = _keystone_spec(r, ['zernike/zernike', 'zernike/xy', 'xy/zernike'][(k // 4) % 3])
                    nc, ns = _keystone_prepare(ap, mode, zn, xn)
                    nseg = len(ap.segment_ids)
                    segs = [(0, None, _full(x.shape, ap.center_window, ap.center_mask))] + \
                           [(1, j, _full(x.shape, ap.segment_windows[j], ap.segment_masks[j])) for j in range(nseg)]
                    _p3_opd_case(ctx, 'keystone', lambda a_, b_: ap.compose_opd(a_, b_), [(nc,), (nseg, ns)], segs, mode == 'zernike/zernike', r, desc)
    del zernike_nm_seq


def _run_pass3(ctx):
    from prysm.segmented import CompositeHexagonalAperture as Hex, CompositeKeystoneAperture as Key
    rng = ctx.rng('c18-pass3')
    _p3_keystone_coincidence(ctx, Key, rng)
    _p3_magnitudes(ctx, Hex, Key, rng)


# ---- hardening pass 5: class H again -- exact coincidences in coefficient rows ------------------------------------------------------
# Rows that are non-zero but whose entries sum / dot / average to exactly 0.0, rows with a single non-zero entry in a non-first mode,
# rows of one sign, all-zero rows between non-zero ones; whole arrays whose grand total / column sums are exactly 0.  Judged by the
# explicit sum over the prepared bases (windows, masks and opd_bases of the aperture object), by linearity (split by sign, split by
# mode) and in the out= form, for both aperture classes (keystone: the centre coefficients too).
ROW_PATTERNS = ['cancel-pair', 'cancel-pair-random', 'cancel-int', 'dot-zero', 'alternating', 'single-nonfirst', 'single-last',
                'first-zero', 'one-zero-inside', 'negative-only', 'partial-cancel', 'zero', 'random', 'unit-first']
ARRANGEMENTS = ['mixed', 'mixed-with-zero-rows', 'every-row-cancels', 'rows-alternate-sign', 'columns-cancel', 'only-last-row',
                'only-one-inner-row', 'every-row-single-nonfirst', 'all-zero', 'integer-valued']


def _p5_row(r, nt, pat):
    """One coefficient row of the named pattern (float64; patterns needing >= 2 modes degrade to their one-mode reading)."""
    c = np.zeros(nt)
    if pat == 'zero':
        return c
    if pat == 'random':
        return r.standard_normal(nt)
    if pat == 'unit-first':
        c[0] = 1.0
        return c
    if pat == 'negative-only':
        return -np.abs(r.standard_normal(nt)) - 0.25
    if nt == 1:
        c[0] = [1.0, -1.0, 0.5, float(r.standard_normal())][int(r.integers(4))]
        return c
    i, j = [int(v) for v in r.choice(nt, 2, replace=False)]
    if pat == 'cancel-pair':
        a = [1.0, 0.5, 2.0, 3.0][int(r.integers(4))]
        c[i], c[j] = a, -a
    elif pat == 'cancel-pair-random':
        a = float(r.standard_normal())
        c[i], c[j] = a, -a
    elif pat == 'cancel-int':
        c[:] = r.integers(-3, 4, nt)
        c[j] -= c.sum()
        if not c.any():
            c[i], c[j] = 1.0, -1.0
    elif pat == 'dot-zero':                         # orthogonal to (1, 2, 3, ...) and to nothing else in particular
        w = np.arange(1.0, nt + 1)
        c[i], c[j] = w[j], -w[i]
    elif pat == 'alternating':
        c[:] = [(-1.0) ** q for q in range(nt)]
        if nt % 2:
            c[-1] = 0.0
    elif pat == 'single-nonfirst':
        c[int(r.integers(1, nt))] = [1.0, -1.0, float(r.standard_normal())][int(r.integers(3))]
    elif pat == 'single-last':
        c[-1] = 1.0
    elif pat == 'first-zero':
        c[1:] = r.standard_normal(nt - 1)
    elif pat == 'one-zero-inside':
        c[:] = r.standard_normal(nt)
        c[int(r.integers(nt))] = 0.0
    elif pat == 'partial-cancel':
        c[i], c[j] = 1.0, -1.0
        if nt > 2:
            c[[q for q in range(nt) if q not in (i, j)][0]] = 0.3
    else:
        raise ValueError(pat)
    return c


def _p5_array(r, nrow, nt, arr):
    """A (nrow, nt) coefficient array of the named arrangement and the pattern of each row."""
    pats = [ROW_PATTERNS[int(r.integers(len(ROW_PATTERNS)))] for _ in range(nrow)]
    if arr == 'mixed-with-zero-rows':
        pats = [('zero' if q % 2 else p if p != 'zero' else 'cancel-pair') for q, p in enumerate(pats)]
        pats[0] = 'zero' if r.random() < 0.5 else pats[0]
    elif arr == 'every-row-cancels':
        pats = [['cancel-pair', 'cancel-pair-random', 'cancel-int', 'alternating'][int(r.integers(4))] for _ in range(nrow)]
    elif arr == 'only-last-row':
        pats = ['zero'] * (nrow - 1) + [pats[-1] if pats[-1] != 'zero' else 'cancel-pair']
    elif arr == 'only-one-inner-row':
        q = int(r.integers(nrow))
        pats = ['zero'] * nrow
        pats[q] = ['cancel-pair', 'single-nonfirst', 'cancel-int', 'random'][int(r.integers(4))]
    elif arr == 'every-row-single-nonfirst':
        pats = ['single-nonfirst'] * nrow
    elif arr == 'all-zero':
        pats = ['zero'] * nrow
    elif arr == 'integer-valued':
        pats = [['cancel-int', 'cancel-pair', 'alternating', 'single-last', 'unit-first', 'zero'][int(r.integers(6))] for _ in range(nrow)]
    co = np.array([_p5_row(r, nt, p) for p in pats]).reshape(nrow, nt)
    if arr == 'integer-valued':
        co = np.round(co)
    if arr == 'rows-alternate-sign':                # the grand total and every column sum are exactly 0, no row is
        v = r.standard_normal(nt)
        co = np.array([v if q % 2 == 0 else -v for q in range(nrow)])
        if nrow % 2:
            co[-1] = 0.0
        pats = ['+v/-v'] * nrow
    elif arr == 'columns-cancel' and nrow >= 2:
        co[-1] = -co[:-1].sum(axis=0)
        co[-1] -= co.sum(axis=0)                    # second pass removes the rounding residue where it can
        pats[-1] = 'minus-sum-of-the-others'
    return co, pats


def _p5_rows_case(ctx, fam, compose, blocks, shape, shapes, r, desc, kcase):
    """`blocks`: [(argument index, row index or None, window, mask, base)] -- the prepared pieces of the aperture object;
    `shapes`: shapes of the coefficient arguments (keystone: centre (nc,), segments (nseg, ns))."""
    mon = f'coincidence.{fam}-opd'
    union = np.zeros(shape, dtype=bool)
    full = []
    for _, _, win, mask, _ in blocks:
        f = _full(shape, win, mask)
        full.append(f)
        union |= f

    def explicit(cs):
        ref = np.zeros(shape)
        for ai, ri, win, mask, base in blocks:
            c = cs[ai] if ri is None else cs[ai][ri]
            tile = np.zeros(np.asarray(mask).shape)
            for q in range(len(c)):
                tile = tile + float(c[q]) * np.asarray(base[q], dtype=np.float64)
            ref[win] += tile * (np.asarray(mask) != 0)
        return ref

    for na, arr in enumerate(ARRANGEMENTS):
        cs, pats = [], []
        for sh_ in shapes:
            if len(sh_) == 1:
                pat = 'zero' if arr == 'all-zero' else ROW_PATTERNS[int(r.integers(len(ROW_PATTERNS)))] if arr != 'every-row-cancels' else 'cancel-pair'
                c = _p5_row(r, sh_[0], pat)
                cs.append(np.round(c) if arr == 'integer-valued' else c)
                pats.append([pat])
            else:
                c, p = _p5_array(r, sh_[0], sh_[1], arr)
                cs.append(c)
                pats.append(p)
        form = COEF_FORMS[(kcase + na) % len(COEF_FORMS)]
        d2 = dict(desc, arrangement=arr, coef_form=form, coefficients=[np.asarray(c).tolist() for c in cs], row_patterns=pats)
        ref = explicit(cs)
        scale = max(float(np.abs(ref).max()), 1.0)
        nrows_sum0 = sum(int(np.sum((np.atleast_2d(c).sum(axis=1) == 0) & np.atleast_2d(c).any(axis=1))) for c in cs)
        ctx.event('coincidence.rows-nonzero-with-sum-exactly-0', nrows_sum0)
        key = f'C18/{fam}/compose_opd/rows:{arr}'
        got = np.array(compose(*[_coef_form(c, form) for c in cs]))
        ctx.close(mon, got, ref, key + '/explicit-sum', 'compose_opd differs from the explicit sum of coefficient x prepared basis over '
                  'each segment (coefficient rows with exact coincidences: cancelling / single non-first mode / zero rows between others)',
                  d2, rtol=1e-10, scale=scale)
        ctx.require(mon, bool(np.all(got[~union] == 0)), key + '/outside-segments', 'compose_opd is non-zero outside every segment', d2)
        for (ai, ri, _, _, _), f in zip(blocks, full):
            row = cs[ai] if ri is None else cs[ai][ri]
            if not np.any(row) and np.any(got[f] != 0):
                ctx.violation(key + '/zero-row-not-zero', 'a segment whose coefficients are all zero has a non-zero OPD', d2, segment_row=ri)
                break
        if arr == 'integer-valued':
            goti = np.array(compose(*[c.astype(np.int64) for c in cs]))
            ctx.close(mon, goti, ref, key + '/int64/explicit-sum', 'compose_opd with integer coefficients differs from the explicit sum',
                      d2, rtol=1e-10, scale=scale)
        out = np.zeros(shape)
        res = compose(*[c.copy() for c in cs], out=out)
        ctx.close(mon, res, ref, key + '/out=zeros/explicit-sum', 'compose_opd(.., out=zeros) differs from the explicit sum of coefficient x '
                  'prepared basis over each segment', d2, rtol=1e-10, scale=scale)
        ctx.require(mon, res is out, key + '/out=zeros/not-returned', 'compose_opd(.., out=a) does not return a', d2)
        # linearity: the positive and the negative entries composed separately (no part has a cancelling row), and mode by mode
        # (every part is a single-mode row)
        pos = np.array(compose(*[np.where(c > 0, c, 0.0) for c in cs]))
        neg = np.array(compose(*[np.where(c < 0, c, 0.0) for c in cs]))
        ctx.close(mon, got, pos + neg, key + '/nonlinear/split-by-sign', 'compose_opd(c) != compose_opd(positive part of c) + '
                  'compose_opd(negative part of c)', d2, rtol=1e-10, scale=scale)
        nt = max(sh_[-1] for sh_ in shapes)
        acc = np.zeros(shape)
        for q in range(nt):
            part = []
            for c in cs:
                pq = np.zeros_like(c)
                if q < c.shape[-1]:
                    pq[..., q] = c[..., q]
                part.append(pq)
            if any(p_.any() for p_ in part):
                acc = acc + np.array(compose(*part))
        ctx.close(mon, got, acc, key + '/nonlinear/split-by-mode', 'compose_opd(c) != sum over modes of compose_opd(c restricted to that '
                  'mode)', d2, rtol=1e-10, scale=scale)


def _p5_coincidence_rows(ctx, Hex, Key, rng):
    grids = [(64, 64), (65, 65), (96, 97), (81, 64), (128, 128)] + ([] if ctx.quick else [(129, 160), (200, 201)])
    with driving(ctx, wl='coefficient-coincidences'):
        for k in range(ctx.pick(24, 600)):
            sub = ctx.subseed(rng)
            if not ctx.mine(k // 2):
                continue
            r = np.random.default_rng(sub)
            fam = ['hex', 'keystone'][k % 2]
            n0, n1 = grids[(k // 2) % len(grids)]
            rings = 1 + (k // 2) % 3
            if fam == 'hex':
                geo = _hex_geometry(r, n0, n1, rings)
                if geo is None:
                    ctx.skip('hex: segment smaller than 6 samples for this grid/ring count (not generated)')
                    continue
                dx, d, gap = geo
                x, y = grid(n0, n1, dx)
                angle = [90, 0][(k // 2) % 2]
                excl = _exclusion(r, ['none', 'centre', 'random'][(k // 6) % 3], sh.hex_count(rings))
                nterm = [2, 3, 4, 6, 2, 1, 5][(k // 2) % 7]
                spec = _hex_spec(r, ['zernike', 'xy'][(k // 4) % 2], nterm)
                desc = {'wl': 'coefficient-coincidences', 'family': 'hex', 'grid': (n0, n1), 'dx': dx, 'rings': rings, 'segment_diameter': d,
                        'segment_separation': gap, 'segment_angle': angle, 'exclude': list(excl), 'basis': spec[0], 'nterms': nterm,
                        'basis_kwargs': spec[3], 'seed': sub, 'class': f'coincidence:hex:rings={rings}:{spec[0]}:nterms={nterm}'}
                ctx.case(desc)
                with ctx.guard('C18/hex/coincidence', desc):
                    ap = Hex(x, y, rings, d, gap, segment_angle=angle, exclude=excl)
                    if any(min(np.asarray(m).shape) < 2 for m in ap.local_masks):
                        ctx.skip('hex.opd: a segment window is empty or one sample wide (segment off the grid); OPD bases not prepared')
                        continue
                    ap.prepare_opd_bases(spec[1], spec[2], basis_func_kwargs=spec[3])
                    nseg = len(ap.segment_ids)
                    blocks = [(0, j, ap.windows[j], ap.local_masks[j], ap.opd_bases[j]) for j in range(nseg)]
                    _p5_rows_case(ctx, 'hex', lambda c, out=None: ap.compose_opd(c) if out is None else ap.compose_opd(c, out=out),
                                  blocks, x.shape, [(nseg, nterm)], r, desc, k // 2)
            else:
                geo = _keystone_geometry(r, n0, n1, rings)
                if geo is None:
                    ctx.skip('keystone: ring narrower than 5 samples for this grid/ring count (not generated)')
                    continue
                dx, kw = geo
                x, y = grid(n0, n1, dx)
                mode = ['zernike/zernike', 'zernike/xy', 'xy/zernike'][(k // 2) % 3]
                nz, nx = [(2, 3), (3, 2), (4, 4), (1, 2), (2, 1), (4, 3)][(k // 2) % 6]
                mode, zn, xn = _keystone_spec(r, mode, nz=nz, nx=nx)
                desc = {'wl': 'coefficient-coincidences', 'family': 'keystone', 'grid': (n0, n1), 'dx': dx, 'basis': mode, 'nz': nz, 'nx': nx,
                        'seed': sub, 'class': f'coincidence:keystone:rings={rings}:{mode}:nz={nz}:nx={nx}', **kw}
                ctx.case(desc)
                with ctx.guard('C18/keystone/coincidence', desc):
                    ap = Key(x, y, **kw)
                    if any(min(np.asarray(m).shape) < 2 for m in list(ap.segment_masks) + [ap.center_mask]):
                        ctx.skip('keystone.opd: a segment window is empty or one sample wide (segment off the grid); OPD bases not prepared')
                        continue
                    nc, ns = _keystone_prepare(ap, mode, zn, xn)
                    nseg = len(ap.segment_ids)
                    blocks = [(0, None, ap.center_window, ap.center_mask, ap.opd_bases[0])] + \
                             [(1, j, ap.segment_windows[j], ap.segment_masks[j], ap.opd_bases[1 + j]) for j in range(nseg)]
                    _p5_rows_case(ctx, 'keystone',
                                  lambda a_, b_, out=None: ap.compose_opd(a_, b_) if out is None else ap.compose_opd(a_, b_, out=out),
                                  blocks, x.shape, [(nc,), (nseg, ns)], r, desc, k // 2)


def _run_pass5(ctx):
    from prysm.segmented import CompositeHexagonalAperture as Hex, CompositeKeystoneAperture as Key
    _p5_coincidence_rows(ctx, Hex, Key, ctx.rng('c18-pass5'))


# =========================================================================================== run
def run(ctx):
    global CTX
    CTX = ctx
    SENSE.clear()
    install()
    try:
        _run_precision(ctx)          # first: the 32-bit phase must precede every 64-bit use of the same routines
        _run_primitives(ctx)
        _run_rejections(ctx)
        _run_hex(ctx)
        _run_keystone(ctx)
        _run_primitive_forms(ctx)
        _run_opd_histories(ctx)
        _run_opd_args(ctx)
        _run_regimes(ctx)
        _run_forms(ctx)
        _run_foreign(ctx)
        _run_pass3(ctx)
        _run_pass5(ctx)
        ctx.note('rotation_sense', {k: ('+' if v > 0 else '-') for k, v in SENSE.items()})
    finally:
        detach_all()


def install_monitors(ctx):
    """For vp/pytest_monitors.py: the geometry contracts on the repository's own test traffic."""
    global CTX
    CTX = ctx
    SENSE.clear()
    WL.clear()
    WL['wl'] = 'pytest'
    install()


def replay(ctx, rec):
    run(ctx)
