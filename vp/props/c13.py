"""C13 — PSD is power-normalised and aligned with its frequency axes; band-limited RMS adds up; synthesis hits its RMS.

Contract attached to the real `prysm.interferogram.psd` (so the calls made by `Interferogram.psd`,
`Interferogram.bandlimited_rms` are seen too), evaluated on every call with finite input:

  psd.parseval       sum(psd)*dfx*dfy == sum((h*w)^2)/sum(w^2), w = the window `make_window` yields for the same arguments
  psd.axes           ux[0,:] == (arange(n1)-n1//2)/(n1*dx) (= fftshift(fftfreq)), uy[:,0] likewise, both of data shape
  psd.alignment      the whole array equals |explicit DFT of h*w evaluated AT the axis frequencies|^2 * dx^2/sum(w^2)
                     (an independent dense DFT, no FFT, no shifts); a mismatch that is a one-sample roll is labelled
                     'misaligned-with-axes' with the parity of the rolled axes
Workload-driven law monitors:
  psd.tone-bins      a real sinusoid with exactly k cycles along one axis puts its power in the two bins whose axis value
                     is +-k/(n*dx) and whose other-axis value is 0 (design's tone test; every parity of both axes)
  blrms.*            through the public `bandlimited_rms` function and `Interferogram.bandlimited_rms` method, edges
                     strictly between sample radii: additivity in quadrature, monotonicity, full band within the rim
                     weight of the windowed mean square, period interface == frequency interface (two- and one-sided)
  synth.rms          render_synthetic_surface / Interferogram.render_from_psd: RMS over finite samples == requested

Hardening pass (HARDENING.md classes A-D):
  A  the psd() contract judges against snapshots of `height` and `window` taken BEFORE the call; every map is passed to
     psd() twice as the SAME objects (height in C / F / transposed-view / strided layout, user window by keyword) and the
     second result must be bit-identical (psd.repeat-call); one `r` array and one PSD array are re-used for every
     bandlimited_rms call of a map and the full band is asked again at the end (blrms.repeat-call); integer height maps,
     dx as python / numpy float64 / numpy float32 / int;
  B  history.Interferogram.psd: on ONE Interferogram psd() / bandlimited_rms() are interleaved with remove_piston,
     remove_tiptilt, latcal, strip_latcal, pad, fill, data re-binding, in-place pokes, filter, recenter, copy; every later
     psd() is judged against the function form on the CURRENT data and dx (and by the psd() contract);
  C  precision-32 passes (float32 heights, float32 user windows, float32 axes; float32 thresholds >= 3 decades above the
     measured round-off, which is reported in the notes), mixed dtypes under either configuration, and the 32 -> 64
     switch: the precision-32 run of a map / synthesis comes immediately before the float64 run on the same (n, dx);
  D  1xN, Nx1, 2xN, 3x200 ... maps (psd contract; band laws where the window is not degenerate), dx over nine decades
     in the thorough tier.

Hardening pass 2 (HARDENING2.md classes E, F):
  E  `psd_forms` / `synth_forms`: the table of forms the current tree accepts as the same input is the comment above W_KINDS.  Window
     ARRAYS of dtype bool, uint8, uint16, int8, int16, int32, int64, float32 (integer-valued, each square fits the window's dtype while
     the SUM of squares exceeds it for the 8 / 16-bit kinds), C / F / strided, by keyword or positionally, under float64 and float32 heights,
     are judged by the psd() contract (Parseval / alignment, keys `.../window=array:<kind>`) and against the float64 window; window names in
     any letter case, None vs omitted, all-keyword call; heights of dtype int8 .. int64, uint8 / uint16, float16, float32 with named /
     user / automatic windows; dx as numpy float64 / float32 / int32 / int64 / python int / 0-d array (function and Interferogram method);
     bandlimited_rms edges as numpy scalars / 0-d arrays / float32, positional, periods positional, F-ordered / strided r and psd, method
     positional / keyword / periods; synthesis with mask arrays of five dtype kinds, rms / size / model parameters in six scalar forms,
     samples as numpy int, psd_fcn omitted / partial / lambda, all-positional, render_from_psd mask omitted / array — same random state, same
     surface, requested RMS.  A form finding is recorded only when the psd() contract has not already refuted that call.
  F  vp/foreign.py (shifted matrix-DFT / chirp-Z propagations, render_synthetic_surface at dx = 1, 0.37, 12.5, in-place edits of the
     vectors forward_ft_unit / make_xy_grid / fftrange handed out, Interferogram.latcal / recenter / pad, precision 32) runs on the same
     axis lengths before one enumerated map in four, half of the form shapes, one history in six and one synthesis in five.

Hardening pass 3 (HARDENING3.md classes G, H, I):
  G  `scale_laws`: the same map in other units.  dx -> K dx for K in {1e-9, 1e-6, 1e-3, 1e3, 1e6, 1e7, 1e9} with every band edge rescaled
     (frequencies / K, periods * K) selects exactly the same frequency samples: PSD = K^2 * reference on axes / K, every band-limited RMS
     (function: frequency and period form; Interferogram method) unchanged, adjacent bands still add in quadrature and a band that contains
     no frequency sample has no power; heights * s for s in {1e-12 .. 1e12}: PSD * s^2, band-limited RMS * s.  The ORDINARY monitors (psd()
     contract, band laws through function and method, tone bins) also run on maps whose dx is 3.7e-10 .. 1.25e10.  `synth_units`: the same
     surface described with size * K (model rescaled) and the same random state is the same surface on coordinates * K; `synth_special`:
     requested RMS 1e-300, 1e-12, 1e12, 1e150 (RMS computed without under / overflow) and homogeneity in the requested RMS.
  H  `synth_special`: requested RMS exactly 0 (python int / float, numpy float64): every valid sample must be exactly 0 and the valid set
     that of the rms = 1 call, with mask None / array (float, bool) through render_synthetic_surface (keyword and positional) and
     Interferogram.render_from_psd (mask None / array / the default 'circle' string omitted and explicit).
  I  prime and awkward FFT sizes >= 64 with wrap-around content through every monitor of one_map and the tone test ((67,67), (64,101),
     (127,65), (129,74), (5,257), (71,2); thorough up to (257,257), (211,64), (1,127)); synthesis at 67, 101 (thorough 74, 127, 129, 257).

Hardening pass 4 (HARDENING4.md class M):
  M  `synth_callables`: psd_fcn given as a USER callable in 24 forms (lambdas with the library's parameter names, other names or no parameters,
     functools.partial of ab_psd / abc_psd, plain and wrapping functions, functools.wraps, a copy of ab_psd, callable objects, a bound method;
     18 models singular at zero frequency - power laws, K-correlation, logarithmic - and 6 finite there), mask None / array / 'circle' string,
     through render_synthetic_surface (keyword, positional) and Interferogram.render_from_psd, precision 64 and 32: finite on exactly the valid
     set, requested RMS, and the same surface as the library model computing the same numbers from the same random state.
"""
import contextlib

import numpy as np

from ..contracts import attach, detach_all, quiet
from ..core import parity
from ..foreign import foreign_traffic

RULE = ('height maps by class: every pairing of axis lengths from a size list (all four parity classes, square and '
        'non-square, smallest first), extreme aspect ratios (1xN, Nx1, 2xN, 3x200 ...) plus seeded random shapes; dx log-uniform in '
        '[1e-3, 1e2] (thorough [1e-5, 1e4]) or from {1, 0.37, 12.5, 2}; content = low-pass noise + integer-cycle tones (band laws), '
        'white noise, or pure tones; window class cycled over {auto, welch, hann, user random positive, all-ones}; memory layout of '
        'the heights cycled over {C, F, transposed view, strided view}; height dtype over {float64, float32, int16, int64}; dx passed '
        'as python float / numpy float64 / numpy float32 / int; configuration over {precision 64, precision 32 with float32 or '
        'float64 data}, the precision-32 run of a map immediately before its float64 run; band partitions of 2-5 bands with edges at '
        'midpoints between distinct sample radii; edges given as frequencies, periods, one-sided; histories on one Interferogram = '
        'seeded random sequences of 1..6 (thorough 12) mutators out of 13, each followed by psd() / bandlimited_rms(); synthesis: '
        'samples 3.. both parities x {abc, ab} model x mask class {none, circle-string, circular array, random array}; '
        'argument forms (class E): window-array / height dtype kinds, window names, dx / band-edge / mask / scalar forms on a fixed list of '
        'shapes of every parity class (4x5 .. 40x33, thorough up to 100x7 / 81x80), each against the canonical float64 / python-float call; '
        'foreign-traffic preludes (class F) on the same axis lengths before a fixed share of the maps / histories / syntheses; unit / magnitude regimes '
        '(class G): dx * K and heights * s twins of a map with rescaled band edges, the ordinary laws on maps with dx 3.7e-10 .. 1.25e10, synthesis with size * K; '
        'special values (class H): requested RMS exactly 0 / 1e-300 / 1e-12 / 1e12 / 1e150 x mask class x form; prime sizes >= 64 (class I); '
        'user callables as psd_fcn (class M): 24 callable forms (18 singular at zero frequency) x 3 of 7 (route, mask) variants per sample count in '
        '{3 .. 67} (thorough 3 .. 40, 64 .. 129), random rms / size / model parameters, one sample count in three first under precision 32. A map is '
        'non-trivial when it is non-constant with >= 2 non-zero samples; distinct = distinct descriptor (workload, shape, dx, window '
        'class, content seed, layout, dtype, precision, parameters / full op list)')
ASSUMPTIONS = ['"the window actually used" is what prysm.interferogram.make_window returns for the same (signal, dx, window) '
               'arguments (checked independently for hann / user / all-ones windows)',
               'frequency axes of the data sampling are fftshift(fftfreq(n, dx)) = (arange(n)-n//2)/(n dx)',
               'the outermost-sample weight of the full-band law is the sum of the PSD over the first/last row and column times dfx*dfy '
               '(what the trapezoid rule half-weights)',
               'band edges are never within 1e-6 (relative to the largest radius) of a sample radius, so < vs <= at an edge cannot matter',
               'when numpy has no `trapz` (numpy >= 2) and bandlimited_rms raises AttributeError, the violation is recorded and the call '
               'is repeated with numpy.trapz temporarily aliased to numpy.trapezoid (the identical function) so that the band laws '
               'can still be monitored; the alias is removed immediately after each such call',
               'numpy.random is seeded from VERIF_SEED for the synthesis workload and its state restored afterwards',
               'psd() and bandlimited_rms() are deterministic: the same argument objects give bit-identical results on a second call',
               'float32 regime (float32 product height*window, axes built under precision 32, or a float32 dx): thresholds 1e-4 (axes), '
               '1e-3 (Parseval, alignment, band laws), 1e-4 (synthesis RMS); band edges then keep 1e-4 of the largest radius away from '
               'every sample radius',
               'a map whose window (as make_window yields it) is not finite or has zero energy (1xN / 2xN with the automatic or Welch '
               'window) is excluded and counted',
               'the set of argument forms treated as the same mathematical input was fixed from the current tree (/repo @ faa8443, table in the '
               'module above W_KINDS): list / tuple / complex / float16 windows, list heights, list masks (silently ignored today) and '
               'narrow-integer heights times narrow-integer windows are out of domain; integer windows keep every w^2 inside their own dtype',
               'render_synthetic_surface is deterministic given numpy.random\'s state (seeded per call, restored afterwards)',
               'unit invariance: rescaled band edges sit between the same sample radii (edges keep 1e-6 of the largest radius away from every sample radius, a '
               'rescaling moves them by 1e-16); tolerances 1e-10 (PSD values), 1e-12 (axes), 1e-9 (band-limited RMS), all relative',
               'a requested RMS of exactly 0 is in domain (the current tree returns zeros on the valid samples); "exactly that RMS" is then read literally: every '
               'valid sample is 0; tiny / huge requested RMS are judged with an RMS evaluated after normalising by the largest magnitude (no under / overflow)',
               'a PSD model that is singular at zero frequency is in domain for render_synthetic_surface / render_from_psd in every callable form: the current '
               'tree (/repo @ 66c5405) moves the zero-frequency sample off 0 for whatever callable it is given and returns a finite surface with the requested '
               'RMS for each of the 24 forms of psd_fcn_forms (a callable returning a python list raises today: out of domain, not driven); a user model that, '
               'evaluated by the monitor on the grid\'s frequency radii, is not finite, non-negative and somewhere positive has no surface to normalise and is '
               'excluded and counted']
REQUIRED = ['psd.parseval', 'psd.axes', 'psd.alignment(reference-dft)', 'psd.tone-bins', 'blrms.returns', 'blrms.additivity',
            'blrms.monotone', 'blrms.full-band', 'blrms.period-interface', 'synth.rms',
            'psd.repeat-call', 'blrms.repeat-call', 'history.Interferogram.psd', 'history.Interferogram.bandlimited_rms',
            'history.synth-then-psd', 'precision32.psd', 'precision32.synth',
            'forms.psd', 'forms.bandlimited_rms', 'forms.synth',
            'scale.psd', 'scale.bandlimited_rms', 'scale.additivity', 'scale.synth', 'synth.special-rms', 'synth.user-psd_fcn']
UNREACHABLE = ['numpy 1.x runtime half of the configuration quantifier: only numpy 2.5.3 is installed and nothing can be fetched, so '
               'neither the behaviour of bandlimited_rms on a real numpy 1.x nor the numpy-1.x fallback branch of the proposed '
               'trapz->trapezoid repair is exercised by this check (the fallback was exercised once by hand with numpy.trapezoid '
               'deleted, see mutants/C13.md); everything reported is for numpy 2.x only']

CTX = None
CUR = {'desc': None, 'wclass': '?'}


# ------------------------------------------------------------------------------------------ reference models
def faxis(n, dx):
    return (np.arange(n) - n // 2) / (n * float(dx))


def ref_psd(h, w, dx):
    """|DFT(h*w)|^2 dx^2 / sum(w^2) evaluated at the frequencies faxis(n0,dx) x faxis(n1,dx) by dense matrices."""
    n0, n1 = h.shape
    g = np.asarray(h, dtype=float) * np.asarray(w, dtype=float)
    F0 = np.exp(-2j * np.pi * np.outer(np.arange(n0) - n0 // 2, np.arange(n0)) / n0)
    F1 = np.exp(-2j * np.pi * np.outer(np.arange(n1) - n1 // 2, np.arange(n1)) / n1)
    G = F0 @ g @ F1.T
    return (G.real ** 2 + G.imag ** 2) * (float(dx) ** 2) / float((np.asarray(w, dtype=float) ** 2).sum())


def parity_label(shape, axes):
    ps = sorted(set('odd' if shape[a] % 2 else 'even' for a in axes))
    return '+'.join(ps) + '-length-axis'


def shape_label(shape):
    return ('square' if shape[0] == shape[1] else 'nonsquare') + ':' + parity(shape[0]) + parity(shape[1])


# ------------------------------------------------------------------------------------------ contract on psd()
RO = {}     # measured float32 round-off per monitor (max err / scale), reported as a note


def ro(name, val):
    v = float(val)
    if v == v and v > RO.get(name, 0.0):
        RO[name] = v


def _psd_args(args, kwargs):
    a = dict(zip(['height', 'dx', 'window'], args))
    a.update(kwargs)
    return a['height'], a['dx'], a.get('window', None)


def pre_psd(args, kwargs):
    """Snapshot of the array arguments BEFORE the call: the result is judged against what the caller passed."""
    h, dx, window = _psd_args(args, kwargs)
    return (h.copy() if isinstance(h, np.ndarray) else h, window.copy() if isinstance(window, np.ndarray) else window)


def low_precision(h, dx, w):
    """(axes_low, data_low): which parts of a psd() call are legitimately computed in single precision."""
    from prysm.conf import config
    axes_low = config.precision is np.float32 or isinstance(dx, np.float32)
    wd = np.asarray(w).dtype if w is not None else np.dtype(float)
    single = (np.dtype('float32'), np.dtype('float16'))
    # a float32 window has its energy sum(w^2) accumulated in float32 even when the heights are float64
    data_low = np.asarray(h).dtype in single or wd in single or isinstance(dx, np.float32)
    return axes_low, data_low


def post_psd(token, args, kwargs, result):
    from prysm.interferogram import make_window
    ctx = CTX
    h, dx, window = _psd_args(args, kwargs)
    if token is not None:
        h, window = token
    if h.ndim != 2 or not np.isfinite(h).all() or not dx > 0:
        ctx.skip('psd contract: non-finite input or dx<=0 (out of domain)')
        return
    w = make_window(h, dx, window)
    axes_low, data_low = low_precision(h, dx, w)
    if axes_low or data_low:
        ctx.observe('precision32.psd')
    w = np.broadcast_to(np.asarray(w, dtype=float), h.shape)
    h = np.asarray(h, dtype=float)
    S2 = float((w * w).sum())
    if not (np.isfinite(w).all() and S2 > 0):
        ctx.skip('psd contract: degenerate window')
        return
    desc = dict(CUR['desc'] or {}, shape=list(h.shape), dx=float(dx))
    wclass = CUR['wclass']
    ux, uy, P = result
    n0, n1 = h.shape
    # --- axes
    ctx.observe('psd.axes')
    fx, fy = faxis(n1, dx), faxis(n0, dx)
    bad_axes = []
    okshape = tuple(np.shape(ux)) == (n0, n1) and tuple(np.shape(uy)) == (n0, n1) and tuple(np.shape(P)) == (n0, n1)
    if not okshape:
        ctx.violation('C13/psd/frequency-axes/shape', f'psd() returned arrays of shapes {np.shape(ux)},{np.shape(uy)},{np.shape(P)} for data {h.shape}', desc)
        return
    at = 1e-4 if axes_low else 1e-12
    ex = float(np.abs(ux - fx[None, :]).max()) / max(float(np.abs(fx).max()), 1e-300) if n1 > 1 else float(np.abs(ux).max())
    ey = float(np.abs(uy - fy[:, None]).max()) / max(float(np.abs(fy).max()), 1e-300) if n0 > 1 else float(np.abs(uy).max())
    if axes_low:
        ro('psd.axes', max(ex, ey))
    if not ex <= at:
        bad_axes.append(1)
    if not ey <= at:
        bad_axes.append(0)
    if bad_axes:
        ctx.violation(f'C13/psd/frequency-axes/{parity_label(h.shape, bad_axes)}', 'frequency axes returned by psd() are not fftshift(fftfreq(n, dx)) of the data sampling',
                      desc, axes=bad_axes)
    # --- Parseval
    ctx.observe('psd.parseval')
    g = h * w
    target = float((g * g).sum()) / S2
    lhs = float(np.asarray(P, dtype=float).sum()) / (n0 * n1 * float(dx) ** 2)
    pt = 1e-3 if data_low else 1e-10
    if data_low and target > 0:
        ro('psd.parseval', abs(lhs - target) / target)
    if not abs(lhs - target) <= pt * target:
        ctx.violation(f'C13/psd/parseval/window={wclass}', f'sum(psd)*dfx*dfy = {lhs:.6g} but the window-weighted mean square is {target:.6g}', desc,
                      ratio=lhs / target if target else None)
    # --- alignment against the dense DFT evaluated at the axis frequencies
    ctx.observe('psd.alignment(reference-dft)')
    ref = ref_psd(h, w, dx)
    sc = float(ref.max())
    alt = 1e-3 if data_low else 1e-9
    if data_low and sc > 0:
        ro('psd.alignment', float(np.abs(P - ref).max()) / sc)
    if sc > 0 and not float(np.abs(P - ref).max()) <= alt * sc:
        rolled = None
        for s0 in (0, 1, -1):
            for s1 in (0, 1, -1):
                if (s0 or s1) and float(np.abs(np.roll(P, (s0, s1), axis=(0, 1)) - ref).max()) <= alt * sc:
                    rolled = (s0, s1)
                    break
            if rolled:
                break
        ratio = float(P.sum() / ref.sum()) if ref.sum() else None
        if rolled:
            axes = [k for k, s in enumerate(rolled) if s]
            ctx.violation(f'C13/psd/misaligned-with-axes/{parity_label(h.shape, axes)}',
                          'the PSD array is rolled by one sample against the frequency axes returned with it', desc, roll=list(rolled))
        elif ratio is not None and abs(ratio - 1) <= alt:
            ctx.violation('C13/psd/values-misplaced', 'PSD has the right total power but its samples do not sit at the frequencies of its axes', desc)
        # a pure scale error is the Parseval violation already recorded; anything else:
        elif abs(lhs - target) <= pt * target:
            ctx.violation('C13/psd/values', 'PSD differs from |DFT(h w)|^2 dx^2/sum(w^2) at the axis frequencies', desc)


# ------------------------------------------------------------------------------------------ helpers
@contextlib.contextmanager
def trapz_alias():
    import numpy
    had = hasattr(numpy, 'trapz')
    if not had:
        numpy.trapz = numpy.trapezoid
    try:
        yield
    finally:
        if not had:
            try:
                delattr(numpy, 'trapz')
            except AttributeError:
                pass


def call_blrms(desc, form, fn, **kw):
    """One public bandlimited_rms call.  'Does not raise on in-domain input' is monitor blrms.returns."""
    import numpy
    ctx = CTX
    ctx.observe('blrms.returns')
    try:
        return float(fn(**kw))
    except AttributeError as e:
        if 'trapz' in str(e) and not hasattr(numpy, 'trapz'):
            ctx.violation('C13/bandlimited_rms/raises:AttributeError',
                          f'bandlimited_rms raises AttributeError on the installed numpy ({numpy.__version__}): {str(e)[:120]}', desc, form=form, kwargs=kw)
            ctx.event('numpy.trapz aliased to numpy.trapezoid for one call (looking past the AttributeError)')
            with trapz_alias():
                return float(fn(**kw))
        raise


def lowpass_map(shape, rng, tones=True):
    n0, n1 = shape
    wn = rng.standard_normal(shape)
    f0 = np.fft.fftfreq(n0)[:, None]
    f1 = np.fft.fftfreq(n1)[None, :]
    H = np.exp(-(f0 * f0 + f1 * f1) / (2 * 0.08 ** 2))
    z = np.fft.ifft2(np.fft.fft2(wn) * H).real
    z /= max(np.abs(z).max(), 1e-300)
    if tones:
        i, j = np.indices(shape)
        if n1 >= 6:
            z = z + 0.7 * np.cos(2 * np.pi * int(rng.integers(1, max(2, n1 // 4))) * j / n1 + float(rng.uniform(0, 6)))
        if n0 >= 6:
            z = z + 0.5 * np.cos(2 * np.pi * int(rng.integers(1, max(2, n0 // 4))) * i / n0 + float(rng.uniform(0, 6)))
    return z + float(rng.uniform(-1, 1))


WINDOWS = ['auto', 'welch', 'hann', 'user', 'ones']
LAYOUTS = ['C', 'F', 'T', 'strided']


def relayout(a, layout):
    """The same values in another memory layout (always a fresh buffer)."""
    a = np.array(a, order='C', copy=True)
    if layout == 'F':
        return np.asfortranarray(a)
    if layout == 'T':
        return np.ascontiguousarray(a.T).T
    if layout == 'strided':
        big = np.full((2 * a.shape[0] + 1, 3 * a.shape[1] + 2), 3, dtype=a.dtype)
        v = big[1::2, 2::3][:a.shape[0], :a.shape[1]]
        v[...] = a
        return v
    return a


def dx_container(kind, dx):
    return {'np64': np.float64(dx), 'np32': np.float32(dx), 'int': int(dx)}.get(kind, float(dx))


def window_arg(wclass, shape, rng, dtype='float64'):
    wd = 'float32' if dtype == 'float32' else 'float64'
    if wclass == 'auto':
        return None
    if wclass in ('welch', 'hann'):
        return wclass
    if wclass == 'user':
        return (rng.random(shape) + 0.25).astype(wd)
    return np.ones(shape, dtype=wd)


def nontrivial(z):
    return bool(np.count_nonzero(z) >= 2 and np.ptp(z) > 0)


# ------------------------------------------------------------------------------------------ per-map workload
def one_map(ctx, shape, dx, wclass, seed, content, laws=True, layout='C', dtype='float64', prec=64, dxc='py'):
    from prysm import interferogram as ifg
    from ..util import precision
    rng = np.random.default_rng([int(seed), shape[0], shape[1]])
    n0, n1 = shape
    variant = '' if (layout, dtype, prec, dxc) == ('C', 'float64', 64, 'py') else f'|{layout}|{dtype}|p{prec}|dx:{dxc}'
    desc = {'wl': 'map', 'shape': list(shape), 'dx': dx, 'window': wclass, 'content': content, 'seed': int(seed),
            'layout': layout, 'dtype': dtype, 'prec': prec, 'dx_as': dxc, 'class': f'{shape_label(shape)}|{wclass}|{content}{variant}'}
    dxv = dx_container(dxc, dx)
    dx = float(dxv)                       # the value prysm actually receives
    if content.startswith('white'):
        z = rng.standard_normal(shape) * 3 + 1
    else:
        z = lowpass_map(shape, rng)
    if wclass == 'auto' and content.startswith('lowpass-circ'):
        i, j = np.indices(shape)
        z = np.where(np.hypot(i - n0 // 2, j - n1 // 2) > min(n0, n1) / 2 - 1, 0.0, z)   # zero corners -> the automatic choice is Welch
    warg = window_arg(wclass, shape, rng, dtype)
    with precision(prec):
        if content.endswith('zero-dc'):
            # remove the window-weighted mean so that the DC bin (which sits ON the band edge flow=0) carries no power
            with quiet():
                w0 = np.broadcast_to(np.asarray(ifg.make_window(z, dx, warg), dtype=float), shape)
            ap = (z != 0).astype(float) if content.startswith('lowpass-circ') else np.ones(shape)
            den = float((ap * w0).sum())
            if np.isfinite(w0).all() and abs(den) > 1e-9 * float(np.abs(w0).sum()):
                z = z - ap * (float((z * w0).sum()) / den)
        if np.dtype(dtype).kind in 'iu':
            z = np.round(z * 1000)            # integer height maps (counts)
        z0 = z.astype(dtype)                  # pristine, C-ordered
        zl = relayout(z0, layout)             # what prysm gets
        ctx.case(desc, nontrivial=nontrivial(z0))
        CUR['desc'], CUR['wclass'] = desc, wclass
        try:
            with quiet():
                wa = ifg.make_window(z0, dxv, warg)
            w = np.broadcast_to(np.asarray(wa, dtype=float), shape)
            if not (np.isfinite(w).all() and float((w * w).sum()) > 0):
                ctx.skip('map: degenerate window (not finite / zero energy) for this shape, laws not evaluated')
                laws = False
            lt = any(low_precision(z0, dxv, wa))
            with ctx.guard('C13/psd', desc):
                _, _, P1 = ifg.psd(zl, dxv, window=warg)
                ux, uy, P = ifg.psd(zl, dxv, window=warg)       # the SAME height / window objects again; this call is the one judged
                ctx.observe('psd.repeat-call')
                if not (np.shape(P1) == np.shape(P) and np.array_equal(P1, P, equal_nan=True)):
                    ctx.violation('C13/psd/repeat-call-differs', 'psd() called twice with the same height / dx / window objects returns different arrays', desc)
                # independent knowledge of the simple windows
                if wclass == 'hann':
                    ctx.require('window.model', np.allclose(w, np.outer(np.hanning(n0), np.hanning(n1)), rtol=1e-12, atol=1e-15), 'C13/make_window/hann',
                                "make_window('hann') is not outer(hanning(n0), hanning(n1))", desc)
                elif wclass in ('user', 'ones'):
                    ctx.require('window.model', np.array_equal(w, warg), 'C13/make_window/user', 'a user window array is not used as given', desc)
                if not laws:
                    return
                r = np.hypot(faxis(n1, dx)[None, :], faxis(n0, dx)[:, None])
                zf = z0.astype(float)
                target = float(((zf * w) ** 2).sum() / (w * w).sum())
                r_used = np.hypot(ux, uy)                        # ONE r array and ONE psd array for every call below
                band_laws(ctx, desc, 'function', lambda **kw: ifg.bandlimited_rms(r_used, P, **kw), r, P, target, dx, rng, lt)
            if wclass == 'auto':
                with ctx.guard('C13/Interferogram.psd', desc):
                    itf = ifg.Interferogram(relayout(z0, layout), dx=dxv)
                    p = itf.psd()
                    fx, fy = faxis(n1, dx), faxis(n0, dx)
                    at = 1e-4 if lt else 1e-12
                    okx = tuple(np.shape(p.x)) == shape and np.abs(p.x - fx[None, :]).max() <= at * np.abs(fx).max()
                    oky = tuple(np.shape(p.y)) == shape and np.abs(p.y - fy[:, None]).max() <= at * np.abs(fy).max()
                    ctx.require('Interferogram.psd.axes', okx and oky and np.array_equal(p.data, P), f'C13/Interferogram.psd/axes-or-data/{shape_label(shape)}',
                                'Interferogram.psd() x/y/data differ from psd(data, dx)', desc)
                    band_laws(ctx, desc, 'method', lambda **kw: itf.bandlimited_rms(**kw), r, P, target, dx, rng, lt)
        finally:
            CUR['desc'], CUR['wclass'] = None, '?'


def band_laws(ctx, desc, form, fn, r, P, target, dx, rng, lt=False):
    P = np.asarray(P, dtype=float)
    shape = P.shape
    n0, n1 = shape
    sq = 'square' if n0 == n1 else 'nonsquare'
    rmax = float(r.max())
    rs = np.unique(r.ravel())
    gaps = np.diff(rs)
    gmin = 1e-4 if lt else 1e-6          # float32 radii are only good to ~1e-7 of the largest radius
    mids = ((rs[:-1] + rs[1:]) / 2)[gaps > gmin * rmax]
    mids = mids[mids > gmin * rmax]
    rel, floor = (1e-3, 1e-6) if lt else (1e-10, 1e-14)
    if mids.size < 5:
        ctx.skip('band laws: fewer than 5 usable edges between sample radii')
        return
    top = rmax * 1.01
    total = target
    dfx, dfy = 1 / (n1 * dx), 1 / (n0 * dx)

    # ---- full band within the rim weight
    full = call_blrms(desc, form, fn, flow=0, fhigh=top)
    rim = float(P[0, :].sum() + P[-1, :].sum() + P[:, 0].sum() + P[:, -1].sum()) * dfx * dfy
    ctx.observe('blrms.full-band')
    if rim > 0.05 * total:
        ctx.event('full-band: rim weight > 5% of the total (bound weak for this map)')
    # samples that sit exactly ON an edge the caller cannot avoid (DC at flow=0, the largest radius at the default fhigh):
    # whether the edge is inclusive is not part of the property, so their weight is allowed as ambiguity
    dfm2 = max(dfx, dfy) ** 2
    amb0 = float(P[r <= 1e-9 * rmax].sum()) * dfm2
    ambmax = float(P[r >= rmax * (1 - 1e-9)].sum()) * dfm2
    if amb0 > 1e-6 * total:
        ctx.event('full-band: DC sample (on the edge flow=0) carries > 1e-6 of the power; its weight is allowed as ambiguity')
    err = abs(full * full - total)
    if not err <= rim + amb0 + rel * total:
        ctx.violation(f'C13/bandlimited_rms/full-band-not-windowed-rms/{sq}',
                      f'full-band bandlimited_rms^2 = {full * full:.6g}, windowed mean square = {total:.6g}, allowed rim weight {rim:.3g} '
                      f'(ratio {full * full / total:.4f}; dfy/dfx = {dfy / dfx:.4f})', desc, form=form, ratio=full * full / total, rim=rim / total)

    # ---- additivity and monotonicity over a partition
    m = int(rng.integers(2, 6))
    inner = np.sort(rng.choice(mids, size=m - 1, replace=False))
    lo = 0.0 if rng.random() < 0.6 else float(mids[0])
    inner = inner[inner > lo]
    hi = top if rng.random() < 0.6 else float(mids[-1])
    inner = inner[inner < hi]
    edges = [lo] + [float(e) for e in inner] + [hi]
    if len(edges) >= 3:
        whole = call_blrms(desc, form, fn, flow=edges[0], fhigh=edges[-1])
        parts = [call_blrms(desc, form, fn, flow=a, fhigh=b) for a, b in zip(edges[:-1], edges[1:])]
        ctx.observe('blrms.additivity')
        lhs, rhs = whole * whole, float(sum(p * p for p in parts))
        if lt and total > 0:
            ro('blrms.additivity', abs(lhs - rhs) / total)
        if not abs(lhs - rhs) <= rel * max(lhs, 0.0) + floor * total:
            ctx.violation(f'C13/bandlimited_rms/not-additive-in-quadrature/{form}', f'blrms(a,c)^2 = {lhs:.6g} != sum of adjacent bands {rhs:.6g}', desc,
                          edges=edges, form=form)
        ctx.observe('blrms.monotone')
        prev = 0.0
        for b in edges[1:]:
            cur = call_blrms(desc, form, fn, flow=edges[0], fhigh=b)
            if lt and total > 0:
                ro('blrms.monotone-dip', max(0.0, prev - cur) / np.sqrt(total))
            if not cur >= prev * (1 - (1e-4 if lt else 1e-12)) - (1e-5 if lt else 1e-14) * np.sqrt(total):
                ctx.violation(f'C13/bandlimited_rms/decreases-when-widened/{form}', f'widening the band to fhigh={b:.6g} lowered the result from {prev:.6g} to {cur:.6g}',
                              desc, edges=edges, form=form)
                break
            prev = cur
        if not (whole <= full * (1 + (1e-4 if lt else 1e-12)) + (1e-5 if lt else 1e-14) * np.sqrt(total)):
            ctx.violation(f'C13/bandlimited_rms/decreases-when-widened/{form}', 'a sub-band exceeds the full band', desc, edges=edges, form=form)

    # ---- interfaces: the same band through every way of giving its edges
    a, b = float(mids[mids.size // 3]), float(mids[(2 * mids.size) // 3])
    refs = {'two-sided': call_blrms(desc, form, fn, flow=a, fhigh=b),
            'upper-only': call_blrms(desc, form, fn, flow=0, fhigh=b),
            'lower-only': call_blrms(desc, form, fn, flow=a, fhigh=top)}
    import warnings
    with warnings.catch_warnings():
        warnings.simplefilter('ignore')
        got = {'frequency/upper-only(flow omitted)': ('upper-only', call_blrms(desc, form, fn, fhigh=b)),
               'frequency/lower-only(fhigh omitted)': ('lower-only', call_blrms(desc, form, fn, flow=a)),
               'period/two-sided': ('two-sided', call_blrms(desc, form, fn, wllow=1 / b, wlhigh=1 / a)),
               'period/short-limit-only(wllow)': ('upper-only', call_blrms(desc, form, fn, wllow=1 / b)),
               'period/long-limit-only(wlhigh)': ('lower-only', call_blrms(desc, form, fn, wlhigh=1 / a))}
    for label, (which, val) in got.items():
        ctx.observe('blrms.period-interface')
        ref = refs[which]
        amb = ambmax if which == 'lower-only' else 0.0    # the default upper edge is r.max(), exactly on the outermost sample(s)
        if lt and total > 0:
            ro('blrms.interface', max(0.0, abs(val * val - ref * ref) - amb) / total)
        if not abs(val * val - ref * ref) <= (1e-3 if lt else 2e-10) * ref * ref + floor * total + amb:
            ctx.violation(f'C13/bandlimited_rms/interface/{label}', f'band given as {label} yields {val:.6g}, the same band as flow/fhigh yields {ref:.6g}',
                          desc, form=form, a=a, b=b)
    # ---- repeat: the full band again, after every other call has been made with the same r / psd objects
    full2 = call_blrms(desc, form, fn, flow=0, fhigh=top)
    ctx.observe('blrms.repeat-call')
    if not full2 == full:
        ctx.violation(f'C13/bandlimited_rms/repeat-call-differs/{form}',
                      f'the full band asked again with the same objects yields {full2:.17g}, the first call yielded {full:.17g}', desc, form=form)


def tone_test(ctx, shape, dx, seed, prec=64):
    from ..util import precision
    with precision(prec):
        _tone_test(ctx, shape, dx, seed, prec)


def _tone_test(ctx, shape, dx, seed, prec):
    from prysm import interferogram as ifg
    n0, n1 = shape
    lt = prec == 32
    dt = 'float32' if lt else 'float64' 
    rng = np.random.default_rng([int(seed), 7, n0, n1])
    i, j = np.indices(shape)
    for axis, n in ((1, n1), (0, n0)):
        if n < 4:
            continue
        k = int(rng.integers(1, (n - 1) // 2 + 1)) if (n - 1) // 2 >= 1 else 1
        if 2 * k >= n:   # needs +-k both present and distinct from Nyquist
            continue
        ph = float(rng.uniform(0, 2 * np.pi))
        idx = j if axis == 1 else i
        z = np.cos(2 * np.pi * k * idx / n + ph).astype(dt)
        desc = {'wl': 'tone', 'shape': list(shape), 'dx': dx, 'axis': axis, 'k': k, 'prec': prec, 'class': f'tone:{shape_label(shape)}|axis{axis}' + ('|p32' if lt else '')}
        ctx.case(desc)
        CUR['desc'], CUR['wclass'] = desc, 'ones'
        try:
            with ctx.guard('C13/psd', desc):
                ux, uy, P = ifg.psd(z, dx, window=np.ones(shape, dtype=dt))
                ctx.observe('psd.tone-bins')
                P = np.asarray(P, dtype=float)
                tot = float(P.sum())
                f = k / (n * dx)
                ua, uo = (ux, uy) if axis == 1 else (uy, ux)
                ft, pw = (1e-4, 1e-3) if lt else (1e-9, 1e-9)
                sel = (np.abs(np.abs(ua) - f) <= ft * f) & (np.abs(uo) <= ft * f)
                if lt and tot > 0:
                    ro('tone.leak', 1 - float(P[sel].sum()) / tot)
                if int(sel.sum()) != 2 or not float(P[sel].sum()) >= (1 - pw) * tot:
                    pk = np.unravel_index(int(np.argmax(P)), P.shape)
                    hot = np.argwhere(P > 1e-6 * tot)
                    want = [{n0 // 2}, {n1 // 2}]
                    want[axis] = {n // 2 - k, n // 2 + k}
                    bad = [ax for ax in (0, 1) if set(int(v) for v in hot[:, ax]) != want[ax]]
                    lab = parity_label(shape, bad) if bad else 'power-leak'
                    ctx.violation(f'C13/psd/misaligned-with-axes/{lab}',
                                  f'a {k}-cycle tone along axis {axis} of a {n0}x{n1} map peaks at the bin labelled (fx={float(ux[pk]):.4g}, fy={float(uy[pk]):.4g}), '
                                  f'expected |f|={f:.4g} on that axis and 0 on the other', desc, peak=list(map(int, pk)),
                                  fraction_in_expected_bins=float(P[sel].sum()) / tot if tot else None)
        finally:
            CUR['desc'], CUR['wclass'] = None, '?'


def synth(ctx, samples, model, mclass, seed, prec=64):
    from ..util import precision
    with precision(prec):
        _synth(ctx, samples, model, mclass, seed, prec)


def _synth(ctx, samples, model, mclass, seed, prec):
    from prysm import interferogram as ifg
    rng = np.random.default_rng([int(seed), 11, samples])
    rho = float(10 ** rng.uniform(-2, 2))
    size = float(10 ** rng.uniform(-1, 2))
    if model == 'abc':
        fn, kw = ifg.abc_psd, {'a': float(10 ** rng.uniform(-2, 3)), 'b': float(10 ** rng.uniform(-3, 0)), 'c': float(rng.uniform(1, 4))}
    else:
        fn, kw = ifg.ab_psd, {'a': float(10 ** rng.uniform(-2, 3)), 'b': float(rng.uniform(1, 3))}
    i, j = np.indices((samples, samples))
    if mclass == 'none':
        mask = None
    elif mclass == 'circle-array':
        mask = (np.hypot(i - samples // 2, j - samples // 2) <= samples / 2).astype(float)
    elif mclass == 'random-array':
        mask = rng.random((samples, samples)) > 0.4
        mask[samples // 2, samples // 2] = True
    else:
        mask = 'circle'
    desc = {'wl': 'synth', 'samples': samples, 'model': model, 'mask': mclass, 'rms': rho, 'size': size, 'psd_kwargs': kw, 'seed': int(seed),
            'prec': prec, 'class': f'synth:{parity(samples)}|{model}|{mclass}' + ('|p32' if prec == 32 else '')}
    ctx.case(desc)
    for form in ('render_synthetic_surface', 'Interferogram.render_from_psd'):
        if form == 'render_synthetic_surface' and mclass == 'circle-string':
            continue
        with ctx.guard(f'C13/{form}', desc):
            np.random.seed(int(rng.integers(0, 2 ** 31 - 1)))
            if form == 'render_synthetic_surface':
                _, _, z = ifg.render_synthetic_surface(size, samples, rms=rho, mask=mask, psd_fcn=fn, **kw)
            else:
                args = {} if mclass == 'circle-string' else {'mask': mask}
                z = ifg.Interferogram.render_from_psd(size, samples, rms=rho, psd_fcn=fn, **args, **kw).data
            # history: a surface is synthesised and its PSD taken on the same sampling (the psd() contract judges the
            # axes / normalisation of this later call: shared or cached frequency vectors must not have been disturbed)
            if samples >= 4:
                CUR['desc'] = dict(desc, history=f'{form} -> psd on the same grid')
                CUR['wclass'] = 'auto'
                zz = np.nan_to_num(np.asarray(z, dtype=float))
                if np.isfinite(zz).all() and np.abs(zz).max() > 0:
                    ctx.observe('history.synth-then-psd')
                    ifg.psd(zz, size / (samples - 1))
            v = z[np.isfinite(z)]
            ctx.observe('synth.rms')
            if v.size == 0:
                ctx.violation(f'C13/{form}/no-valid-samples', 'synthesised surface has no finite sample', desc)
                continue
            got = float(np.sqrt((v.astype(float) ** 2).sum() / v.size))
            if prec == 32:
                ctx.observe('precision32.synth')
                ro('synth.rms', abs(got - rho) / rho)
            if not abs(got - rho) <= (1e-4 if prec == 32 else 1e-10) * rho:
                ctx.violation(f'C13/synthesis/rms-not-as-requested/mask={"none" if mclass in ("none", "circle-string") else "array"}',
                              f'{form}(rms={rho:.6g}) has RMS {got:.6g} over its {v.size} valid samples', desc, form=form, got=got)



# ------------------------------------------------------------------------------------------ class E: argument forms
# Forms the CURRENT tree (/repo @ faa8443) accepts and treats as the same mathematical input (established by calling each routine with
# every candidate form and comparing with the canonical form — float64 ndarrays, python float scalars, keyword `window=`):
#   psd window ARRAY of dtype bool, uint8, uint16, int8, int16, int32, int64, float32, float64 holding the same values (each w^2 must fit
#       the window's own dtype: that is what `window**2` needs today; the SUM of squares may exceed it), C- or F-ordered or a strided view;
#       a window given as list / tuple of lists RAISES TypeError today and a complex window raises (out of domain, counted);
#       float16 windows lose their energy sum to float16 overflow today (out of domain);
#   psd window NAME in any letter case ('hann' = 'Hann' = 'HANN' = 'hanning', 'welch' = 'Welch' = 'WELCH'); None == omitted;
#   psd height of dtype int8, int16, int32, int64, uint8 / uint16 (non-negative values), float16, float32, float64 (same values) with a
#       float64 / named / automatic window (narrow-integer heights times a narrow-integer window overflow today: out of domain);
#   dx as python float / int, numpy float64 / float32 / int32 / int64, 0-d array;
#   bandlimited_rms edges as python / numpy float64 / numpy float32 / 0-d array / int, keyword or positional; r / psd C- or F-ordered;
#   render_synthetic_surface / render_from_psd: mask ARRAY of dtype bool, uint8, int64, float32, float64 (a mask given as a nested list
#       is silently ignored today: out of domain); rms / size / model parameters as python float / int, numpy float32 / float64 / int64,
#       0-d array; samples as int / numpy int64; psd_fcn omitted (= abc_psd) / explicit / functools.partial / lambda.
W_KINDS = ['bool', 'uint8', 'uint16', 'int8', 'int16', 'int32', 'int64', 'float32']
H_KINDS = ['int8', 'int16', 'int32', 'int64', 'uint8', 'uint16', 'float16', 'float32']
DX_FORMS = ['np64', 'np32', 'int', 'npint32', 'npint64', '0d']
FORM_SHAPES_Q = [(4, 5), (6, 7), (9, 8), (13, 13), (16, 16), (17, 20), (26, 31), (40, 33)]
FORM_SHAPES_T = FORM_SHAPES_Q + [(5, 4), (7, 7), (8, 8), (12, 21), (21, 12), (32, 32), (33, 33), (3, 64), (64, 3), (48, 64), (63, 50), (64, 64), (2, 40),
                                 (81, 80), (100, 7)]


def int_window(shape, kind, rng):
    """Integer-valued window whose squares fit `kind` while their SUM exceeds it for the 8 / 16-bit kinds (and 32-bit on larger maps)."""
    if kind == 'bool':
        w = (rng.random(shape) > 0.3).astype(float)
        w.flat[0] = 1
        return w
    dt = np.dtype(kind)
    top = int(np.sqrt(np.iinfo(dt).max)) if dt.kind in 'iu' else 4000
    top = min(top, 46340)
    w = rng.integers(0, top + 1, shape).astype(float)
    w.flat[:2] = top
    return w


def scalar_form(kind, v):
    if kind == 'int':
        return int(v)
    if kind == 'npint32':
        return np.int32(v)
    if kind == 'npint64':
        return np.int64(v)
    return {'np64': np.float64(v), 'np32': np.float32(v), '0d': np.array(float(v))}.get(kind, float(v))


def nviol(ctx):
    return sum(v['count'] for v in ctx.violations.values())


def psd_forms(ctx, shape, seed, prelude=False):
    from prysm import interferogram as ifg
    n0, n1 = shape
    rng = np.random.default_rng([int(seed), 17, n0, n1])
    h = np.round(lowpass_map(shape, rng) * 30)            # integer-valued heights within the int8 range (|lowpass_map| < 3.3)
    hpos = h - h.min()
    base = {'wl': 'forms-psd', 'shape': list(shape), 'seed': int(seed)}
    if prelude:
        foreign_traffic(ctx, [n0, n1], heavy=True)
        base['after'] = 'foreign-traffic'

    def compare(desc, routine, form, got, ref, rt):
        """`got` (this form) against `ref` (canonical form): recorded only when the psd() contract has not already refuted the call."""
        ctx.observe('forms.psd')
        ok = all(np.shape(g) == np.shape(r) for g, r in zip(got, ref))
        if ok:
            for g, r, t in zip(got, ref, (rt[0], rt[0], rt[1])):
                sc = float(np.abs(r).max())
                if not float(np.abs(np.asarray(g, dtype=float) - np.asarray(r, dtype=float)).max()) <= t * max(sc, 1e-300):
                    ok = False
        if not ok:
            ctx.violation(f'C13/{routine}/form:{form}/differs-from-canonical-form',
                          f'{routine} with the same input given as {form} differs from the canonical form (float64 arrays, python float dx)', desc)

    # ---- window array dtype kinds
    for dxv in ([1.0, 0.37, 12.5][(n0 + n1) % 3],):
        for kind in W_KINDS:
            w = int_window(shape, kind, rng)
            desc = dict(base, form=f'window={kind}-array', dx=dxv, **{'class': f'forms-psd:window={kind}|{shape_label(shape)}'})
            ctx.case(desc)
            for hk, hh in (('float64', h.astype(float)), ('float32', h.astype('float32'))) if kind != 'float32' else (('float64', h.astype(float)),):
                CUR['desc'], CUR['wclass'] = desc, f'array:{kind}'
                try:
                    with ctx.guard(f'C13/psd/form:window={kind}-array', desc):
                        ref = ifg.psd(hh, dxv, window=w.copy())
                        n_before = nviol(ctx)
                        wk = w.astype(kind)
                        lay = ['C', 'F', 'strided'][(n0 + len(kind)) % 3]
                        got = ifg.psd(hh, dxv, window=relayout(wk, lay)) if (n1 + len(kind)) % 2 else ifg.psd(hh, dxv, relayout(wk, lay))
                        if nviol(ctx) == n_before:
                            lowp = kind == 'float32' or hk == 'float32'
                            compare(desc, 'psd', f'window={kind}-array', got, ref, (1e-12, 1e-4 if lowp else 1e-12))
                finally:
                    CUR['desc'], CUR['wclass'] = None, '?'
        # ---- window names / None / omitted
        desc = dict(base, form='window-name', dx=dxv, **{'class': f'forms-psd:window-name|{shape_label(shape)}'})
        ctx.case(desc)
        hf = h.astype(float)
        CUR['desc'] = desc
        try:
            with ctx.guard('C13/psd/form:window-name', desc):
                for canon, others in (('hann', ('Hann', 'HANN', 'hanning', 'Hanning')), ('welch', ('Welch', 'WELCH'))):
                    CUR['wclass'] = canon
                    ref = ifg.psd(hf, dxv, window=canon)
                    if not np.isfinite(ref[2]).all():
                        ctx.skip('forms: degenerate named window for this shape')
                        continue
                    for nm in others:
                        compare(desc, 'psd', f'window-name={nm}', ifg.psd(hf, dxv, window=nm), ref, (0, 0))
                CUR['wclass'] = 'auto'
                ref = ifg.psd(hf, dxv)
                if np.isfinite(ref[2]).all():
                    compare(desc, 'psd', 'window=None-explicit', ifg.psd(hf, dxv, window=None), ref, (0, 0))
                    compare(desc, 'psd', 'window=None-positional', ifg.psd(hf, dxv, None), ref, (0, 0))
                    compare(desc, 'psd', 'all-keywords', ifg.psd(height=hf, dx=dxv, window=None), ref, (0, 0))
        finally:
            CUR['desc'], CUR['wclass'] = None, '?'
        # ---- height dtype kinds
        wu = rng.random(shape) + 0.25
        for kind in H_KINDS:
            src = hpos if kind.startswith('u') else h
            desc = dict(base, form=f'height={kind}', dx=dxv, **{'class': f'forms-psd:height={kind}|{shape_label(shape)}'})
            ctx.case(desc)
            for wc, warg in (('hann', 'hann'), ('user', wu), ('auto', None)):
                CUR['desc'], CUR['wclass'] = desc, wc
                try:
                    with ctx.guard(f'C13/psd/form:height={kind}', desc):
                        ref = ifg.psd(src.astype(float), dxv, window=warg)
                        if not np.isfinite(ref[2]).all():
                            ctx.skip('forms: degenerate window for this shape')
                            continue
                        n_before = nviol(ctx)
                        got = ifg.psd(src.astype(kind), dxv, window=warg)
                        if nviol(ctx) == n_before and kind != 'float16':      # float16 heights: the contract's single-precision regime only
                            compare(desc, 'psd', f'height={kind}', got, ref, (1e-12, 1e-4 if kind == 'float32' else 1e-12))
                finally:
                    CUR['desc'], CUR['wclass'] = None, '?'
        # ---- dx forms
        for dxf in DX_FORMS:
            dxo = scalar_form(dxf, 2.0 if 'int' in dxf else dxv)
            desc = dict(base, form=f'dx={dxf}', dx=float(dxo), **{'class': f'forms-psd:dx={dxf}|{shape_label(shape)}'})
            ctx.case(desc)
            CUR['desc'], CUR['wclass'] = desc, 'hann'
            try:
                with ctx.guard(f'C13/psd/form:dx={dxf}', desc):
                    ref = ifg.psd(hf, float(dxo), window='hann')
                    if not np.isfinite(ref[2]).all():
                        continue
                    n_before = nviol(ctx)
                    got = ifg.psd(hf, dxo, window='hann')
                    if nviol(ctx) == n_before:
                        compare(desc, 'psd', f'dx={dxf}', got, ref, (1e-4, 1e-4) if dxf == 'np32' else (1e-12, 1e-12))
                    o = ifg.Interferogram(hf.copy(), dx=dxo)
                    pr = ifg.psd(hf, float(dxo))
                    if np.isfinite(pr[2]).all():
                        CUR['wclass'] = 'auto'
                        p = o.psd()
                        compare(desc, 'Interferogram.psd', f'dx={dxf}', (p.x, p.y, p.data), pr, (1e-4, 1e-4) if dxf == 'np32' else (1e-12, 1e-12))
            finally:
                CUR['desc'], CUR['wclass'] = None, '?'

    # ---- bandlimited_rms forms (one r / psd pair, edges between sample radii)
    dxv = 0.37
    CUR['desc'], CUR['wclass'] = dict(base, form='blrms'), 'hann'
    try:
        with quiet():
            ux, uy, P = ifg.psd(hf, dxv, window='hann')
    finally:
        CUR['desc'], CUR['wclass'] = None, '?'
    if np.isfinite(P).all() and float(P.max()) > 0:
        r = np.hypot(ux, uy)
        rs = np.unique(r.ravel())
        mids = ((rs[:-1] + rs[1:]) / 2)[np.diff(rs) > 1e-4 * float(r.max())]
        if mids.size >= 4:
            a, b = float(mids[mids.size // 4]), float(mids[(3 * mids.size) // 4])
            desc = dict(base, form='blrms', dx=dxv, a=a, b=b, **{'class': f'forms-blrms|{shape_label(shape)}'})
            ctx.case(desc)
            with ctx.guard('C13/bandlimited_rms/form', desc):
                reff = call_blrms(desc, 'function', ifg.bandlimited_rms, r=r, psd=P, flow=a, fhigh=b)
                itf = ifg.Interferogram(hf.copy(), dx=dxv)
                calls = {
                    'edges=np64': lambda: ifg.bandlimited_rms(r, P, flow=np.float64(a), fhigh=np.float64(b)),
                    'edges=0d': lambda: ifg.bandlimited_rms(r, P, flow=np.array(a), fhigh=np.array(b)),
                    'edges=np32': lambda: ifg.bandlimited_rms(r, P, flow=np.float32(a), fhigh=np.float32(b)),
                    'positional': lambda: ifg.bandlimited_rms(r, P, None, None, a, b),
                    'periods-positional': lambda: ifg.bandlimited_rms(r, P, 1 / b, 1 / a),
                    'arrays=F-order': lambda: ifg.bandlimited_rms(np.asfortranarray(r), np.asfortranarray(P), flow=a, fhigh=b),
                    'arrays=strided': lambda: ifg.bandlimited_rms(relayout(r, 'strided'), relayout(P, 'strided'), flow=a, fhigh=b),
                    'explicit-None-periods': lambda: ifg.bandlimited_rms(r=r, psd=P, wllow=None, wlhigh=None, flow=a, fhigh=b),
                }
                refm = call_blrms(desc, 'method', lambda **kw: itf.bandlimited_rms(flow=a, fhigh=b))
                calls['method-positional'] = lambda: itf.bandlimited_rms(None, None, a, b)
                calls['method-keyword-np64'] = lambda: itf.bandlimited_rms(wllow=None, wlhigh=None, flow=np.float64(a), fhigh=np.array(b))
                calls['method-periods'] = lambda: itf.bandlimited_rms(1 / b, 1 / a)
                for form, fn in calls.items():
                    got = call_blrms(desc, 'function', lambda **kw: fn())
                    ctx.observe('forms.bandlimited_rms')
                    ref = refm if form.startswith('method') else reff
                    # an edge rounded to float32 may move across a sample radius only if it lies within 1e-7 of one: mids keep 1e-4 away
                    if not abs(got - ref) <= (2e-10 if form != 'edges=np32' else 1e-4) * max(ref, 1e-300):
                        ctx.violation(f'C13/bandlimited_rms/form:{form}/differs-from-canonical-form',
                                      f'bandlimited_rms with the band given as {form} yields {got:.12g}, the canonical call {ref:.12g}', desc)


SYNTH_MASK_KINDS = ['bool', 'uint8', 'int64', 'float32', 'float64']


def synth_forms(ctx, samples, seed):
    import functools
    from prysm import interferogram as ifg
    rng = np.random.default_rng([int(seed), 19, samples])
    i, j = np.indices((samples, samples))
    mask = np.hypot(i - samples // 2, j - samples // 2) <= samples / 2 - 0.5
    mask[samples // 2, samples // 2] = True
    rho, size = 2.0, 12.0
    kw = {'a': 3.0, 'b': 0.25, 'c': 2.0}
    base = {'wl': 'forms-synth', 'samples': samples, 'seed': int(seed)}
    s0 = int(rng.integers(0, 2 ** 31 - 1))

    def render(**k):
        np.random.seed(s0)
        return ifg.render_synthetic_surface(**k)[2]

    def judge(desc, form, z, zref):
        ctx.observe('forms.synth')
        v = z[np.isfinite(z)]
        got = float(np.sqrt((v.astype(float) ** 2).sum() / max(v.size, 1)))
        if v.size == 0 or not abs(got - rho) <= 1e-10 * rho:
            ctx.violation(f'C13/synthesis/form:{form}/rms-not-as-requested', f'render_synthetic_surface with {form}: RMS {got:.6g} over the valid samples, '
                          f'requested {rho}', desc)
        elif not (np.shape(z) == np.shape(zref) and np.array_equal(np.isnan(z), np.isnan(zref))
                  and float(np.abs(np.nan_to_num(z) - np.nan_to_num(zref)).max()) <= 1e-9 * rho):
            ctx.violation(f'C13/synthesis/form:{form}/differs-from-canonical-form', f'render_synthetic_surface with {form} and the same random state gives '
                          'another surface than the canonical call', desc)

    desc = dict(base, **{'class': f'forms-synth:{parity(samples)}'})
    ctx.case(desc)
    with ctx.guard('C13/synthesis/form', desc):
        zm = render(size=size, samples=samples, rms=rho, mask=mask.copy(), psd_fcn=ifg.abc_psd, **kw)
        for kind in SYNTH_MASK_KINDS:
            judge(desc, f'mask={kind}-array', render(size=size, samples=samples, rms=rho, mask=mask.astype(kind), psd_fcn=ifg.abc_psd, **kw), zm)
        z0 = render(size=size, samples=samples, rms=rho, mask=None, psd_fcn=ifg.abc_psd, **kw)
        for sf in ('int', 'np32', 'np64', 'npint64', '0d'):
            judge(desc, f'rms={sf}', render(size=size, samples=samples, rms=scalar_form(sf, rho), mask=None, psd_fcn=ifg.abc_psd, **kw), z0)
            if sf != 'np32':
                judge(desc, f'size={sf}', render(size=scalar_form(sf, size), samples=samples, rms=rho, mask=None, psd_fcn=ifg.abc_psd, **kw), z0)
                judge(desc, f'model-parameters={sf}', render(size=size, samples=samples, rms=rho, psd_fcn=ifg.abc_psd,
                                                             a=scalar_form(sf, 3.0), b=0.25, c=scalar_form(sf, 2.0)), z0)
        judge(desc, 'samples=npint64', render(size=size, samples=np.int64(samples), rms=rho, psd_fcn=ifg.abc_psd, **kw), z0)
        judge(desc, 'psd_fcn=omitted', render(size=size, samples=samples, rms=rho, **kw), z0)
        judge(desc, 'mask=omitted', render(size=size, samples=samples, rms=rho, psd_fcn=ifg.abc_psd, **kw), z0)
        judge(desc, 'positional', render_positional(ifg, s0, size, samples, rho, kw), z0)
        judge(desc, 'psd_fcn=partial', render(size=size, samples=samples, rms=rho, mask=None, psd_fcn=functools.partial(ifg.abc_psd, **kw)), z0)
        judge(desc, 'psd_fcn=lambda', render(size=size, samples=samples, rms=rho, mask=None, psd_fcn=lambda nu: ifg.abc_psd(nu, 3.0, 0.25, 2.0)), z0)
        np.random.seed(s0)
        zc = ifg.Interferogram.render_from_psd(size, samples, rms=rho, mask='circle', psd_fcn=ifg.abc_psd, **kw).data
        np.random.seed(s0)
        judge(desc, 'render_from_psd:mask=omitted', ifg.Interferogram.render_from_psd(size, samples, rms=rho, psd_fcn=ifg.abc_psd, **kw).data, zc)
        np.random.seed(s0)
        judge(desc, 'render_from_psd:mask=array', ifg.Interferogram.render_from_psd(size, samples, rho, mask, **kw).data, zm)


def render_positional(ifg, s0, size, samples, rho, kw):
    np.random.seed(s0)
    return ifg.render_synthetic_surface(size, samples, rho, None, ifg.abc_psd, **kw)[2]


# ------------------------------------------------------------------------------------------ class M (HARDENING4.md): user callables as psd_fcn
# Established on the current tree (/repo @ 66c5405) by rendering with every form below for samples 3 .. 33, mask None / array, through
# render_synthetic_surface and Interferogram.render_from_psd: EVERY form yields a surface that is finite on the whole valid set and has the
# requested RMS to round-off - the zero-frequency sample is moved off 0 for whatever callable is given, so models that are singular at zero
# frequency are in domain in every callable form.  A callable that returns a python list raises AttributeError today (out of domain, not driven).
# Forms that compute the same numbers as a library model (`twin`) also give the same surface from the same random state (bit-identical or
# ~1e-15 today; compared at 1e-9 of the requested RMS).
class _PowerLaw:
    """Callable object holding its own parameters (no keyword arguments reach it); `law` is a bound method taking one."""

    def __init__(self, a, b):
        self.a, self.b = a, b

    def __call__(self, nu):
        return self.a * nu ** (-self.b)

    def law(self, nu, gain=1.0):
        return gain * self.a / nu ** self.b


class _PowerLawKw:
    def __call__(self, nu, a, c):
        return a / nu ** c


def _user_fractal(nu, amp, slope):
    return amp / nu ** slope


def _user_kcorr(nu, sigma, ell, hurst):
    return sigma ** 2 * ell / nu / (1 + (ell * nu) ** 2) ** (hurst + 0.5)


def _user_gauss(nu, a, w):
    return a * np.exp(-(nu / w) ** 2)


def psd_fcn_forms(ifg, a, b, c, fs):
    """[(form label, 'singular-at-0' | 'finite-at-0', callable, kwargs, twin)]; twin = None or (library model, kwargs) computing the same numbers.
    `fs` = samples / size, the sampling frequency: widths of the rapidly decaying models are tied to it so that they do not underflow to a PSD
    that is zero at every sample (a model without power is out of domain: 0 / 0 in the normalisation)."""
    import functools
    import types
    ab, abc = ifg.ab_psd, ifg.abc_psd
    tab, tabc = (ab, {'a': a, 'b': c}), (abc, {'a': a, 'b': b, 'c': c})       # the power law uses the exponent c

    def wrapper(nu, a, b):
        return ab(nu, a, b)

    def wraps(f):
        @functools.wraps(f)
        def inner(*args, **kwargs):
            return f(*args, **kwargs)
        return inner

    S, F = 'singular-at-0', 'finite-at-0'
    return [
        ('lambda(nu,a,b)', S, lambda nu, a, b: a / nu ** b, {'a': a, 'b': c}, tab),
        ('lambda(nu,a,c)', S, lambda nu, a, c: a / nu ** c, {'a': a, 'c': c}, tab),
        ('lambda(nu)', S, lambda nu: a * nu ** (-c), {}, tab),
        ('lambda->ab_psd', S, lambda nu, a, b: ab(nu, a, b), {'a': a, 'b': c}, tab),
        ('lambda:np.power', S, lambda nu, a, b: a * np.power(nu, -b), {'a': a, 'b': c}, tab),
        ('lambda:exp-log', S, lambda nu, a, b: a * np.exp(-b * np.log(nu)), {'a': a, 'b': c}, tab),
        ('partial(ab_psd,b)', S, functools.partial(ab, b=c), {'a': a}, tab),
        ('partial(ab_psd,a,b)', S, functools.partial(ab, a=a, b=c), {}, tab),
        ('function(nu,amp,slope)', S, _user_fractal, {'amp': a, 'slope': c}, tab),
        ('function:k-correlation', S, _user_kcorr, {'sigma': np.sqrt(a), 'ell': 1 / b, 'hurst': c / 4}, None),
        ('function->ab_psd', S, wrapper, {'a': a, 'b': c}, tab),
        ('functools.wraps(ab_psd)', S, wraps(ab), {'a': a, 'b': c}, tab),
        ('copy-of-ab_psd', S, types.FunctionType(ab.__code__, ab.__globals__, 'ab_psd'), {'a': a, 'b': c}, tab),
        ('callable-object', S, _PowerLaw(a, c), {}, tab),
        ('callable-object(nu,a,c)', S, _PowerLawKw(), {'a': a, 'c': c}, tab),
        ('bound-method', S, _PowerLaw(a, c).law, {'gain': 1.0}, tab),
        ('lambda:log-singular', S, lambda nu: np.log1p(1 / nu), {}, None),
        ('lambda:float32-result', S, lambda nu, a, b: (a / nu ** b).astype('float32'), {'a': a, 'b': c}, None),
        ('partial(abc_psd,b,c)', F, functools.partial(abc, b=b, c=c), {'a': a}, tabc),
        ('lambda(nu,a,b,c)', F, lambda nu, a, b, c: a / (1 + (nu / b) ** c), {'a': a, 'b': b, 'c': c}, tabc),
        ('functools.wraps(abc_psd)', F, wraps(abc), {'a': a, 'b': b, 'c': c}, tabc),
        ('function:gaussian', F, _user_gauss, {'a': a, 'w': 0.3 * fs}, None),
        ('lambda:constant', F, lambda nu: np.ones_like(nu), {}, None),
        ('lambda:zero-at-0', F, lambda nu: nu ** 2 * np.exp(-nu / fs), {}, None),
    ]


def synth_callables(ctx, samples, seed, prec=64):
    from ..util import precision
    with precision(prec):
        _synth_callables(ctx, samples, seed, prec)


def _synth_callables(ctx, samples, seed, prec):
    """Class M: psd_fcn given as a user callable in every form (lambda, partial, plain / wrapping function, callable object, bound method;
    singular and non-singular at zero frequency; parameters under the library's names, under other names, or bound inside the callable), mask
    None / array / the 'circle' string, through render_synthetic_surface (keyword and positional) and Interferogram.render_from_psd.  Judged by:
    the surface is finite on exactly the valid set of the library-model call with the same mask, has the requested RMS over it, and - when the
    callable computes the same numbers as a library model - is the surface the library model gives from the same random state."""
    import warnings
    from prysm import interferogram as ifg
    rng = np.random.default_rng([int(seed), 37, samples])
    rho = float(10 ** rng.uniform(-2, 2))
    size = float(10 ** rng.uniform(-1, 2))
    a, b, c = float(10 ** rng.uniform(-2, 3)), float(10 ** rng.uniform(-2, 0)), float(rng.uniform(1, 3.5))
    i, j = np.indices((samples, samples))
    circ = np.hypot(i - samples // 2, j - samples // 2) <= samples / 2
    rand = rng.random((samples, samples)) > 0.4
    rand[samples // 2, samples // 2] = True
    s0 = int(rng.integers(0, 2 ** 31 - 1))
    lt = prec == 32
    rt = 1e-4 if lt else 1e-10
    routes = [('render_synthetic_surface', 'none', lambda fn, kw: ifg.render_synthetic_surface(size, samples, rms=rho, mask=None, psd_fcn=fn, **kw)[2]),
              ('render_synthetic_surface', 'array', lambda fn, kw: ifg.render_synthetic_surface(size, samples, rho, circ.astype(float), fn, **kw)[2]),
              ('Interferogram.render_from_psd', 'circle-string', lambda fn, kw: ifg.Interferogram.render_from_psd(size, samples, rms=rho, psd_fcn=fn, **kw).data),
              ('render_synthetic_surface', 'array', lambda fn, kw: ifg.render_synthetic_surface(size=size, samples=samples, rms=rho, mask=rand.copy(), psd_fcn=fn, **kw)[2]),
              ('Interferogram.render_from_psd', 'array', lambda fn, kw: ifg.Interferogram.render_from_psd(size, samples, rho, circ.copy(), fn, **kw).data),
              ('render_synthetic_surface', 'none', lambda fn, kw: ifg.render_synthetic_surface(size, samples, rho, None, fn, **kw)[2]),
              ('Interferogram.render_from_psd', 'none', lambda fn, kw: ifg.Interferogram.render_from_psd(size, samples, rms=rho, mask=None, psd_fcn=fn, **kw).data)]
    forms = psd_fcn_forms(ifg, a, b, c, samples / size)
    # domain: the model evaluated by the monitor on the frequency radii of the grid (zero frequency replaced by a tenth of the first step)
    # must be finite, non-negative and not zero everywhere - otherwise there is no surface to normalise (excluded and counted)
    fax = faxis(samples, size / (samples - 1))
    fax[samples // 2] = fax[samples // 2 + 1] / 10
    nur = np.hypot(fax[None, :], fax[:, None]).astype('float32' if prec == 32 else 'float64')
    lib = {}

    def library(ri, fn, kw):
        key = (ri, fn is ifg.ab_psd)
        if key not in lib:
            np.random.seed(s0)
            lib[key] = np.asarray(routes[ri][2](fn, kw), dtype=float)
        return lib[key]

    for fi, (label, sing, fn, kw, twin) in enumerate(forms):
        with np.errstate(all='ignore'):
            pm = np.asarray(fn(nur, **kw), dtype=float)
        if not (np.isfinite(pm).all() and (pm >= 0).all() and float(pm.max()) > 0 and float(pm.sum()) < 1e300):
            ctx.skip('synth callables: this model has no finite positive power on the grid (out of domain)')
            continue
        for ri in sorted({(fi + samples) % len(routes), (3 * fi + samples + 1) % len(routes), (5 * fi + 2 * samples + 3) % len(routes)}):
            route, mclass, call = routes[ri]
            mk = 'none' if mclass in ('none', 'circle-string') else 'array'
            desc = {'wl': 'synth-callable', 'samples': samples, 'psd_fcn': label, 'at0': sing, 'mask': mclass, 'route': route, 'variant': ri, 'rms': rho,
                    'size': size, 'a': a, 'b': b, 'c': c, 'seed': int(seed), 'prec': prec,
                    'class': f'synth-callable:{parity(samples)}|psd_fcn={label}|{mclass}|{route}' + ('|p32' if lt else '')}
            ctx.case(desc)
            base = f'C13/synthesis/arg:psd_fcn=user-callable:{sing}'
            with ctx.guard(base, desc), warnings.catch_warnings():
                warnings.simplefilter('ignore')
                zlib = library(ri, *(twin if twin is not None else (ifg.abc_psd, {'a': a, 'b': b, 'c': c})))
                vlib = zlib[np.isfinite(zlib)]
                if vlib.size == 0 or not abs(safe_rms(vlib) - rho) <= rt * rho:
                    ctx.skip('synth callables: the library-model reference of this route is itself off (judged by the synthesis workload)')
                    continue
                np.random.seed(s0)
                z = np.asarray(call(fn, kw), dtype=float)
                ctx.observe('synth.user-psd_fcn')
                if lt:
                    ctx.observe('precision32.synth')
                fin = np.isfinite(z)
                if z.shape != zlib.shape or not np.array_equal(fin, np.isfinite(zlib)):
                    ctx.violation(f'{base}/not-finite-on-the-valid-samples/mask={mk}',
                                  f'{route}(psd_fcn = {label}): {int(fin.sum())} finite samples, the library model with the same mask gives {vlib.size}',
                                  desc, form=label, route=route)
                    continue
                got = safe_rms(z[fin])
                if lt:
                    ro('synth.rms', abs(got - rho) / rho)
                if not abs(got - rho) <= rt * rho:
                    ctx.violation(f'{base}/rms-not-as-requested/mask={mk}', f'{route}(rms={rho:.6g}, psd_fcn = {label}) has RMS {got:.6g} over its '
                                  f'{int(fin.sum())} valid samples', desc, form=label, route=route, got=got)
                elif twin is not None and not float(np.abs(z[fin] - zlib[fin]).max()) <= (1e-3 if lt else 1e-9) * rho:
                    ctx.violation(f'{base}/differs-from-library-model/mask={mk}', f'{route}(psd_fcn = {label}) computes the same model as '
                                  f'{twin[0].__name__} but gives another surface from the same random state', desc, form=label, route=route)

# ------------------------------------------------------------------------------------------ classes G / H / I (HARDENING3.md)
# Established on the current tree (/repo @ c2c1d7f) before anything below was made a law: psd() and bandlimited_rms() hold every law of this
# module for dx from 1e-10 to 1e10 and heights scaled by 1e-12 .. 1e12 (nothing in them is absolute: the automatic window tests `== 0`);
# render_synthetic_surface(rms=0) returns a surface that is exactly 0 on its valid samples (NaN on the masked ones) for mask None / array and
# through render_from_psd (whose default mask 'circle' is a no-op on the current tree); rms = 1e-300 .. 1e150 are honoured to round-off.
UNIT_K = [1e-9, 1e-6, 1e-3, 1e3, 1e6, 1e7, 1e9]
HEIGHT_S = [1e-12, 1e-9, 1e-6, 1e6, 1e9, 1e12]


def scale_laws(ctx, shape, dx0, wclass, seed):
    """Class G: the same map in other units.  dx -> K dx with every band edge rescaled (frequencies / K, periods * K) selects exactly the
    same frequency samples: the band-limited RMS is unchanged, PSD values scale by K^2 and the axes by 1/K; heights -> s * heights scale
    the PSD by s^2 and every band-limited RMS by s.  Adjacent bands still add in quadrature and a band that contains no frequency sample
    carries no power, at every scale."""
    from prysm import interferogram as ifg
    n0, n1 = shape
    rng = np.random.default_rng([int(seed), 23, n0, n1])
    z = lowpass_map(shape, rng)
    if wclass == 'auto-circ':
        i, j = np.indices(shape)
        z = np.where(np.hypot(i - n0 // 2, j - n1 // 2) > min(n0, n1) / 2 - 1, 0.0, z)
    wc = 'auto' if wclass.startswith('auto') else wclass
    warg = window_arg(wc, shape, rng)
    desc = {'wl': 'scale', 'shape': list(shape), 'dx': dx0, 'window': wclass, 'seed': int(seed), 'class': f'scale:{shape_label(shape)}|{wclass}'}
    ctx.case(desc, nontrivial=nontrivial(z))
    CUR['desc'], CUR['wclass'] = desc, wc
    try:
        with quiet():
            w = np.broadcast_to(np.asarray(ifg.make_window(z, dx0, warg), dtype=float), shape)
        if not (np.isfinite(w).all() and float((w * w).sum()) > 0):
            ctx.skip('scale laws: degenerate window for this shape')
            return
        with ctx.guard('C13/scale', desc):
            ux1, uy1, P1 = ifg.psd(z, dx0, window=warg)
            P1 = np.asarray(P1, dtype=float)
            r1 = np.hypot(ux1, uy1)
            rmax = float(r1.max())
            rs = np.unique(r1.ravel())
            mids = ((rs[:-1] + rs[1:]) / 2)[np.diff(rs) > 1e-6 * rmax]
            mids = mids[mids > 1e-6 * rmax]
            if mids.size < 6:
                ctx.skip('scale laws: fewer than 6 usable edges between sample radii')
                return
            a, b, c = (float(mids[(q * mids.size) // 8]) for q in (1, 4, 7))
            total = float(P1.sum()) / (n0 * n1 * dx0 ** 2)
            use_method = wc == 'auto'

            def bands(r, P, K, itf=None):
                """Every band of the reference set, edges rescaled by the unit factor K, through the function (frequency and period
                form) and, for the automatic window, the Interferogram method."""
                out = {}
                f = lambda **kw: call_blrms(desc, 'function', ifg.bandlimited_rms, r=r, psd=P, **kw)      # noqa: E731
                out['f:ab'] = f(flow=a / K, fhigh=b / K)
                out['f:bc'] = f(flow=b / K, fhigh=c / K)
                out['f:ac'] = f(flow=a / K, fhigh=c / K)
                out['f:empty'] = f(flow=b * (1 - 1e-7) / K, fhigh=b * (1 + 1e-7) / K)
                out['p:ab'] = f(wllow=K / b, wlhigh=K / a)
                out['p:ac'] = f(wllow=K / c, wlhigh=K / a)
                if itf is not None:
                    m = lambda **kw: call_blrms(desc, 'method', itf.bandlimited_rms, **kw)                   # noqa: E731
                    out['m:ab'] = m(flow=a / K, fhigh=b / K)
                    out['m:bc'] = m(wllow=K / c, wlhigh=K / b)
                return out

            ref = bands(r1, P1, 1.0, ifg.Interferogram(z.copy(), dx=dx0) if use_method else None)
            want = {k_: ref['f:' + k_.split(':')[1]] for k_ in ref}
            root = np.sqrt(total)

            def judge_bands(got, s, regime, what):
                bad = [k_ for k_ in got if not abs(got[k_] - s * want[k_]) <= 1e-9 * s * max(want[k_], 1e-3 * root)]
                ctx.observe('scale.bandlimited_rms')
                if bad:
                    ctx.violation(f'C13/bandlimited_rms/scale:{regime}/not-scale-invariant',
                                  f'{what}: band-limited RMS of the same frequency samples differs from the reference units in {sorted(bad)} '
                                  f'(e.g. {bad[0]}: {got[bad[0]]:.12g} vs {s * want[bad[0]]:.12g})', desc, bands=sorted(bad), regime=regime)
                    return
                ctx.observe('scale.additivity')
                if not abs(np.hypot(got['f:ab'], got['f:bc']) - got['f:ac']) <= 1e-9 * max(got['f:ac'], 1e-3 * s * root):
                    ctx.violation(f'C13/bandlimited_rms/scale:{regime}/not-additive-in-quadrature', f'{what}: adjacent bands do not add in quadrature', desc)
                if not got['f:empty'] <= 1e-6 * s * root:
                    ctx.violation(f'C13/bandlimited_rms/scale:{regime}/band-without-samples-has-power', f'{what}: a band that contains no frequency '
                                  f'sample has RMS {got["f:empty"]:.6g}', desc)

            judge_bands(ref, 1.0, 'reference-units', f'dx={dx0}')
            for K in UNIT_K:
                dxK = dx0 * K
                regime = 'dx-tiny' if K < 1 else 'dx-huge'
                n_before = nviol(ctx)
                uxK, uyK, PK = ifg.psd(z, dxK, window=warg)
                ctx.observe('scale.psd')
                if nviol(ctx) == n_before:
                    ok = (np.shape(PK) == P1.shape and float(np.abs(np.asarray(PK, dtype=float) / K ** 2 - P1).max()) <= 1e-10 * float(P1.max())
                          and float(np.abs(np.asarray(uxK) * K - ux1).max()) <= 1e-12 * rmax and float(np.abs(np.asarray(uyK) * K - uy1).max()) <= 1e-12 * rmax)
                    if not ok:
                        ctx.violation(f'C13/psd/scale:{regime}/not-unit-invariant', f'psd(h, {dxK:g}) is not K^2 * psd(h, {dx0:g}) on axes / K (K = {K:g})', desc, K=K)
                        continue
                got = bands(np.hypot(uxK, uyK), np.asarray(PK, dtype=float), K, ifg.Interferogram(z.copy(), dx=dxK) if use_method else None)
                judge_bands(got, 1.0, regime, f'dx={dxK:g} (K={K:g})')
            for s in HEIGHT_S:
                regime = 'heights-tiny' if s < 1 else 'heights-huge'
                n_before = nviol(ctx)
                uxs, uys, Ps = ifg.psd(z * s, dx0, window=warg)
                ctx.observe('scale.psd')
                if nviol(ctx) == n_before and not float(np.abs(np.asarray(Ps, dtype=float) / s ** 2 - P1).max()) <= 1e-10 * float(P1.max()):
                    ctx.violation(f'C13/psd/scale:{regime}/not-homogeneous', f'psd({s:g} * h) is not {s:g}^2 * psd(h)', desc, s=s)
                    continue
                got = bands(r1, np.asarray(Ps, dtype=float), 1.0, ifg.Interferogram(z * s, dx=dx0) if use_method else None)
                judge_bands(got, s, regime, f'heights scaled by {s:g}')
    finally:
        CUR['desc'], CUR['wclass'] = None, '?'


def safe_rms(v):
    """RMS that neither underflows nor overflows (values of magnitude 1e-300 or 1e150)."""
    v = np.asarray(v, dtype=float)
    m = float(np.abs(v).max()) if v.size else 0.0
    if m == 0 or not np.isfinite(m):
        return m
    u = v / m
    return m * float(np.sqrt((u * u).sum() / u.size))


SPECIAL_RMS = [('zero', 0), ('zero', 0.0), ('zero', np.float64(0)), ('tiny', 1e-300), ('tiny', 1e-12), ('huge', 1e12), ('huge', 1e150)]


def synth_special(ctx, samples, model, seed):
    """Class H / G for the synthesis: requested RMS exactly 0 (every valid sample must be exactly 0), tiny and huge, with mask None / array
    / the 'circle' string (Interferogram form), function and Interferogram forms; the surface for rms = s * rho is s times the surface for
    rho drawn from the same random state."""
    from prysm import interferogram as ifg
    rng = np.random.default_rng([int(seed), 29, samples])
    size = float(10 ** rng.uniform(-1, 2))
    if model == 'abc':
        fn, kw = ifg.abc_psd, {'a': float(10 ** rng.uniform(-2, 3)), 'b': float(10 ** rng.uniform(-3, 0)), 'c': float(rng.uniform(1, 4))}
    else:
        fn, kw = ifg.ab_psd, {'a': float(10 ** rng.uniform(-2, 3)), 'b': float(rng.uniform(1, 3))}
    i, j = np.indices((samples, samples))
    circ = np.hypot(i - samples // 2, j - samples // 2) <= samples / 2
    rand = rng.random((samples, samples)) > 0.4
    rand[samples // 2, samples // 2] = True
    s0 = int(rng.integers(0, 2 ** 31 - 1))
    forms = [('render_synthetic_surface', 'none', lambda rho: ifg.render_synthetic_surface(size, samples, rms=rho, mask=None, psd_fcn=fn, **kw)[2]),
             ('render_synthetic_surface', 'none', lambda rho: ifg.render_synthetic_surface(size, samples, rho, psd_fcn=fn, **kw)[2]),
             ('render_synthetic_surface', 'array', lambda rho: ifg.render_synthetic_surface(size, samples, rms=rho, mask=circ.astype(float), psd_fcn=fn, **kw)[2]),
             ('render_synthetic_surface', 'array', lambda rho: ifg.render_synthetic_surface(size, samples, rho, rand.copy(), fn, **kw)[2]),
             ('Interferogram.render_from_psd', 'none', lambda rho: ifg.Interferogram.render_from_psd(size, samples, rms=rho, mask=None, psd_fcn=fn, **kw).data),
             ('Interferogram.render_from_psd', 'circle-string', lambda rho: ifg.Interferogram.render_from_psd(size, samples, rms=rho, psd_fcn=fn, **kw).data),
             ('Interferogram.render_from_psd', 'circle-string', lambda rho: ifg.Interferogram.render_from_psd(size, samples, rho, 'circle', fn, **kw).data),
             ('Interferogram.render_from_psd', 'array', lambda rho: ifg.Interferogram.render_from_psd(size, samples, rms=rho, mask=circ.copy(), psd_fcn=fn, **kw).data)]
    for fi, (form, mclass, call) in enumerate(forms):
        desc = {'wl': 'synth-special', 'samples': samples, 'model': model, 'mask': mclass, 'form': form, 'variant': fi, 'size': size, 'psd_kwargs': kw,
                'seed': int(seed), 'class': f'synth-special:{parity(samples)}|{model}|{mclass}|{form}'}
        ctx.case(desc)
        mk = 'none' if mclass in ('none', 'circle-string') else 'array'
        with ctx.guard(f'C13/{form}', desc):
            np.random.seed(s0)
            zref = np.asarray(call(1.0), dtype=float)
            vref = zref[np.isfinite(zref)]
            if vref.size == 0 or not abs(safe_rms(vref) - 1.0) <= 1e-10:
                ctx.skip('synth special: the rms = 1 reference of this form is itself off (judged by the synthesis workload)')
                continue
            for regime, rho in SPECIAL_RMS:
                np.random.seed(s0)
                z = np.asarray(call(rho))
                ctx.observe('synth.special-rms')
                fin = np.isfinite(z)
                v = z[fin].astype(float)
                if z.shape != zref.shape or not np.array_equal(fin, np.isfinite(zref)):
                    ctx.violation(f'C13/synthesis/special:rms={regime}/valid-set-differs/mask={mk}',
                                  f'{form}(rms={rho!r}) has another set of valid samples than the same call with rms=1', desc, rms=float(rho))
                    continue
                if rho == 0:
                    ok = bool((v == 0).all())
                    what = f'largest |z| over the {v.size} valid samples is {float(np.abs(v).max()) if v.size else 0:.6g}, requested RMS exactly 0'
                else:
                    got = safe_rms(v)
                    ok = abs(got - float(rho)) <= 1e-10 * float(rho)
                    what = f'RMS {got:.6g} over the {v.size} valid samples'
                    # homogeneity: the same random state gives rho times the unit-RMS surface
                    ok = ok and float(np.abs(v / float(rho) - vref).max()) <= 1e-9 * float(np.abs(vref).max())
                if not ok:
                    ctx.violation(f'C13/synthesis/special:rms={regime}/rms-not-as-requested/mask={mk}', f'{form}(rms={rho!r}): {what}', desc, rms=float(rho), form=form)


def synth_units(ctx, samples, seed):
    """Class G for the synthesis: the same surface described in other lateral units (size -> K size; the corner frequency b of the abc model ->
    b / K; the ab model is a pure power law) drawn from the same random state is the same surface once normalised to the requested RMS,
    on coordinates K times larger."""
    from prysm import interferogram as ifg
    rng = np.random.default_rng([int(seed), 31, samples])
    size, rho = float(10 ** rng.uniform(0, 2)), float(10 ** rng.uniform(-1, 1))
    s0 = int(rng.integers(0, 2 ** 31 - 1))
    for model in ('abc', 'ab'):
        b = float(10 ** rng.uniform(-2, 0)) if model == 'abc' else float(rng.uniform(1, 3))
        cc = float(rng.uniform(1.5, 3.5))
        desc = {'wl': 'synth-units', 'samples': samples, 'model': model, 'size': size, 'rms': rho, 'b': b, 'c': cc, 'seed': int(seed),
                'class': f'synth-units:{parity(samples)}|{model}'}
        ctx.case(desc)

        def render(K):
            np.random.seed(s0)
            if model == 'abc':
                return ifg.render_synthetic_surface(size * K, samples, rms=rho, mask=None, psd_fcn=ifg.abc_psd, a=2.0, b=b / K, c=cc)
            return ifg.render_synthetic_surface(size * K, samples, rms=rho, mask=None, psd_fcn=ifg.ab_psd, a=2.0, b=b)

        with ctx.guard('C13/render_synthetic_surface', desc):
            x1, y1, z1 = render(1.0)
            if not abs(safe_rms(z1) - rho) <= 1e-10 * rho:
                ctx.skip('synth units: the reference surface is itself off (judged by the synthesis workload)')
                continue
            for K in UNIT_K:
                xK, yK, zK = render(K)
                ctx.observe('scale.synth')
                regime = 'size-tiny' if K < 1 else 'size-huge'
                gotr = safe_rms(zK[np.isfinite(zK)]) if np.isfinite(zK).any() else float('nan')
                if not abs(gotr - rho) <= 1e-10 * rho:
                    ctx.violation(f'C13/synthesis/scale:{regime}/rms-not-as-requested/mask=none', f'render_synthetic_surface(size={size * K:g}, rms={rho:.6g}) has RMS '
                                  f'{gotr:.6g}', desc, K=K)
                elif not (np.shape(zK) == np.shape(z1) and float(np.abs(zK - z1).max()) <= 1e-7 * rho
                          and float(np.abs(np.asarray(xK) / K - x1).max()) <= 1e-12 * size and float(np.abs(np.asarray(yK) / K - y1).max()) <= 1e-12 * size):
                    ctx.violation(f'C13/synthesis/scale:{regime}/not-unit-invariant', f'the same surface described with size * {K:g} (model rescaled) and the same random '
                                  'state is another surface / is on other coordinates', desc, K=K)


# ------------------------------------------------------------------------------------------ histories on one Interferogram
IH_MUT = ['remove_piston', 'remove_tiptilt', 'remove_power', 'latcal', 'strip_latcal', 'pad0', 'fill', 'set-data', 'poke', 'filter',
          'recenter', 'copy', 'crop']


def ifg_history(ctx, shape, dx, seed, length, prec=64, dtype='float64', layout='C'):
    from ..util import precision
    with precision(prec):
        try:
            _ifg_history(ctx, shape, dx, seed, length, prec, dtype, layout)
        except Exception as e:  # the MONITOR failed on an object state it cannot handle (never a verdict): counted, visible in the evidence
            ctx.skip(f'monitor aborted a history ({type(e).__name__}) - rest of that history not monitored')


def _ifg_history(ctx, shape, dx, seed, length, prec, dtype, layout):
    """psd() / bandlimited_rms() of ONE Interferogram interleaved with its mutators; every later PSD is judged against the function
    form evaluated on the CURRENT data and dx (a spectrum, frequency grid or window kept from before a mutator is stale)."""
    from prysm import interferogram as ifg
    n0, n1 = shape
    rng = np.random.default_rng([int(seed), 13, n0, n1])
    z = lowpass_map(shape, rng).astype(dtype)
    ops = []
    for i in rng.integers(0, len(IH_MUT), length):
        m = IH_MUT[int(i)]
        if m == 'latcal':
            m += ':' + ['2.0', '0.1', '3.3'][int(rng.integers(3))]
        elif m == 'pad0':
            m += f':{int(rng.integers(1, 4))}'
        elif m == 'filter':
            m += ':' + ['lp', 'hp'][int(rng.integers(2))] + ':' + ['0.3', '0.6'][int(rng.integers(2))]
        ops.append(m)
        ops.extend(['psd', 'blrms', 'psd+blrms', 'blrms'][int(rng.integers(4))].split('+'))
    ops = ['psd'] + ops if rng.random() < 0.7 else ops
    lt = prec == 32 or dtype == 'float32'
    desc = {'wl': 'ifg-history', 'shape': list(shape), 'dx': dx, 'seed': int(seed), 'ops': ops, 'prec': prec, 'dtype': dtype, 'layout': layout,
            'class': f'ifg-history:{shape_label(shape)}|len={length}' + ('|lowp' if lt else '')}
    ctx.case(desc)
    itf = ifg.Interferogram(relayout(z, layout), dx=dx)
    last = 'construct'
    CUR['desc'], CUR['wclass'] = desc, 'auto'
    try:
        for op in ops:
            opc = op.split(':')[0]
            with ctx.guard(f'C13/history/{opc}', desc):
                if opc in ('psd', 'blrms'):
                    d = np.array(itf.data, copy=True)
                    if not np.isfinite(d).all():
                        ctx.skip('ifg-history: data not finite, PSD not judged')
                        continue
                    dxc = itf.dx
                    uxf, uyf, Pf = ifg.psd(d, dxc)                 # function form on the CURRENT data and dx (also seen by the contract)
                    sc = float(np.abs(Pf).max())
                    if opc == 'psd':
                        p = itf.psd()
                        ctx.observe('history.Interferogram.psd')
                        rt = 1e-3 if lt else 1e-12
                        ok = (np.shape(p.data) == np.shape(Pf) and np.shape(p.x) == np.shape(uxf) and np.shape(p.y) == np.shape(uyf)
                              and float(np.abs(p.data - Pf).max()) <= rt * sc
                              and float(np.abs(p.x - uxf).max()) <= rt * float(np.abs(uxf).max())
                              and float(np.abs(p.y - uyf).max()) <= rt * float(np.abs(uyf).max()))
                        if not ok:
                            ctx.violation(f'C13/history/Interferogram.psd/after:{last}',
                                          f'after {last} (history on one Interferogram) psd() is not the PSD of the current data on the current sampling', desc)
                    else:
                        r = np.hypot(np.asarray(uxf, dtype=float), np.asarray(uyf, dtype=float))
                        rs = np.unique(r.ravel())
                        gaps = np.diff(rs)
                        mids = ((rs[:-1] + rs[1:]) / 2)[gaps > (1e-4 if lt else 1e-6) * float(r.max())]
                        if mids.size < 4:
                            ctx.skip('ifg-history: fewer than 4 usable band edges')
                            continue
                        a, b = float(mids[mids.size // 4]), float(mids[(3 * mids.size) // 4])
                        ref = float(ifg.bandlimited_rms(np.hypot(uxf, uyf), Pf, flow=a, fhigh=b))
                        got = float(itf.bandlimited_rms(flow=a, fhigh=b))
                        ctx.observe('history.Interferogram.bandlimited_rms')
                        tot = float(np.sqrt(np.asarray(Pf, dtype=float).sum() / (d.size * float(dxc) ** 2)))
                        if not abs(got - ref) <= (1e-3 if lt else 1e-10) * max(ref, 1e-6 * tot):
                            ctx.violation(f'C13/history/Interferogram.bandlimited_rms/after:{last}',
                                          f'after {last} (history on one Interferogram) bandlimited_rms() = {got:.6g}, the function form on the '
                                          f'current data and dx gives {ref:.6g}', desc, a=a, b=b)
                    continue
                before = (np.array(itf.data, copy=True), float(itf.dx))
                if opc == 'latcal':
                    itf.latcal(float(op.split(':')[1]))
                elif opc == 'pad0':
                    itf.pad(0.0, samples=int(op.split(':')[1]))
                elif opc == 'fill':
                    itf.fill(0.0)
                elif opc == 'set-data':
                    itf.data = itf.data * 0.5 + 0.25
                elif opc == 'poke':
                    itf.data[n0 // 3, n1 // 2] += 1.0
                elif opc == 'filter':
                    _, typ, frac = op.split(':')
                    itf.filter(float(frac) / (2 * float(itf.dx)), typ)
                elif opc == 'copy':
                    itf = itf.copy()
                else:
                    getattr(itf, opc)()
                if not (float(itf.dx) == before[1] and np.shape(itf.data) == before[0].shape and np.array_equal(itf.data, before[0], equal_nan=True)):
                    last = opc          # the last operation that changed the data or the sampling
    finally:
        CUR['desc'], CUR['wclass'] = None, '?'


# ------------------------------------------------------------------------------------------ driver
def install_monitors(ctx):
    """Attach the psd() contract only (used by vp/pytest_monitors.py to watch the repository's own tests)."""
    global CTX
    CTX = ctx
    from prysm import interferogram as ifg
    attach(ifg, 'psd', pre=pre_psd, post=post_psd)


def run(ctx):
    global CTX
    CTX = ctx
    from prysm import interferogram as ifg
    attach(ifg, 'psd', pre=pre_psd, post=post_psd)
    state = np.random.get_state()
    try:
        _run(ctx)
    finally:
        np.random.set_state(state)
        detach_all()


def _mine_small_first(ctx, k, nsmall):
    """The first `nsmall` enumerated cases all run on shard 0 (so the first witnesses are the smallest), the rest round-robin."""
    return (ctx.shard == 0) if k < nsmall else ctx.mine(k)


def _run(ctx):
    import numpy
    RO.clear()
    ctx.note('numpy', numpy.__version__)
    sizes = ctx.pick([4, 5, 6, 7, 8, 9, 12, 13, 16, 21, 26, 31, 40], list(range(4, 65)) + [80, 81, 96, 127, 128])
    pairs = sorted(((a, b) for a in sizes for b in sizes), key=lambda p: (max(p), p))
    rng = ctx.rng('c13')
    DT = ['float64', 'float32', 'int16', 'float64', 'int64', 'float32']
    DXC = ['py', 'np64', 'np32', 'int']
    k = -1
    for (n0, n1) in pairs:
        k += 1
        if not _mine_small_first(ctx, k, 36):
            continue
        fixed = bool(k % 2)
        dx = [1.0, 0.37, 12.5, 2.0][(k // 2) % 4] if fixed else float(10 ** rng.uniform(-3, 2))
        wclass = WINDOWS[k % len(WINDOWS)]
        content = ['lowpass-zero-dc', 'lowpass'][(k // 2) % 2]
        if wclass == 'auto' and (k // len(WINDOWS)) % 2:
            content = ['lowpass-circ-zero-dc', 'lowpass-circ'][(k // 2) % 2]
        seed = ctx.seed * 100003 + k
        layout = LAYOUTS[(k // 3) % len(LAYOUTS)]
        dxc = DXC[(k // 5) % len(DXC)]
        if dxc == 'int' and dx not in (1.0, 2.0):
            dxc = 'np64'
        if k % 4 == 2:      # class F: the other consumers of forward_ft_unit / fftfreq / make_xy_grid / fftrange run first, same axis lengths
            foreign_traffic(ctx, [n0, n1], heavy=(k % 8 == 2))
        # class C: the precision-32 run of the same map (same n, same dx object value) comes immediately BEFORE the float64 run
        if k % 3 == 0:
            one_map(ctx, (n0, n1), dx, wclass, seed, content, layout=layout, dtype='float32', prec=32)
        one_map(ctx, (n0, n1), dx, wclass, seed, content, layout=layout, dxc=dxc)
        # every shape also through the automatic window + the Interferogram methods (mixed dtypes under precision 64), and the tone test
        if wclass != 'auto':
            one_map(ctx, (n0, n1), dx, 'auto', seed + 1, ['lowpass-zero-dc', 'lowpass', 'lowpass-circ-zero-dc'][k % 3], layout=LAYOUTS[k % len(LAYOUTS)],
                    dtype=DT[k % len(DT)])
        if k % 5 == 0:
            tone_test(ctx, (n0, n1), dx, seed, prec=32)
        tone_test(ctx, (n0, n1), dx, seed)
        # Parseval on white noise with every window class (cheap); one of them float64 data under precision 32, one integer data
        for q, wc in enumerate(WINDOWS):
            if q == k % 5:
                one_map(ctx, (n0, n1), dx, wc, seed + 2, 'white', laws=False, prec=32)
            one_map(ctx, (n0, n1), dx, wc, seed + 2, 'white', laws=False, dtype='int16' if q == (k + 2) % 5 else 'float64',
                    layout=LAYOUTS[(k + q) % len(LAYOUTS)])
    ctx.note('enumerated-shapes', f'all ordered pairs of axis lengths from {sizes}')

    # class D: 1xN, Nx1, 2xN and other extreme aspect ratios
    thin = ctx.pick([(1, 9), (9, 1), (1, 64), (2, 33), (33, 2), (3, 200), (200, 3), (4, 160), (5, 97), (1, 1)],
                    [(1, 9), (9, 1), (1, 64), (64, 1), (2, 33), (33, 2), (3, 200), (200, 3), (4, 160), (160, 4), (5, 97), (1, 1), (1, 2), (2, 1), (2, 2),
                     (1, 1000), (1000, 1), (2, 777), (3, 1000), (1000, 3), (7, 500), (500, 6), (3, 3), (1, 3), (3, 1)])
    for k, shp in enumerate(thin):
        if not ctx.mine(k):
            continue
        for q, wc in enumerate(WINDOWS):
            dx = [1.0, 0.37, 12.5][(k + q) % 3]
            if shp == (1, 1):
                continue        # a single sample has no frequency content; make_window / hanning(1) is degenerate
            one_map(ctx, shp, dx, wc, ctx.seed * 31 + 7 * k + q, ['lowpass', 'white', 'lowpass-zero-dc'][q % 3], laws=min(shp) >= 2,
                    layout=LAYOUTS[(k + q) % len(LAYOUTS)], dtype=['float64', 'float32'][(k + q) % 2] if q % 2 else 'float64',
                    prec=32 if (k + q) % 4 == 0 else 64)

    nrand = ctx.share(ctx.pick(500, 140000))
    hi = ctx.pick(40, 104)
    lo_dx, hi_dx = ctx.pick((-3, 2), (-5, 4))
    for q in range(nrand):
        n0, n1 = (int(v) for v in rng.integers(4, hi + 1, 2))
        if rng.random() < 0.25:
            n1 = n0
        dx = float(10 ** rng.uniform(lo_dx, hi_dx))
        wclass = WINDOWS[int(rng.integers(len(WINDOWS)))]
        content = ['lowpass', 'lowpass-zero-dc', 'white', 'lowpass-circ', 'lowpass-circ-zero-dc', 'white-zero-dc'][int(rng.integers(6))]
        seed = ctx.subseed(rng)
        cfg = int(rng.integers(8))
        prec, dtype = ([(64, 'float64')] * 5 + [(32, 'float32'), (32, 'float64'), (64, 'float32')])[cfg]
        one_map(ctx, (n0, n1), dx, wclass, seed, content, layout=LAYOUTS[int(rng.integers(len(LAYOUTS)))], dtype=dtype, prec=prec,
                dxc=DXC[int(rng.integers(3))])
        if rng.random() < 0.3:
            tone_test(ctx, (n0, n1), dx, seed)

    # class E: argument forms (window / height dtype kinds, names, dx / edge / mask / scalar forms), half of the shapes after a
    # foreign-traffic prelude (class F) on the same axis lengths
    fshapes = ctx.pick(FORM_SHAPES_Q, FORM_SHAPES_T)
    for k, shp in enumerate(fshapes):
        for rep in range(ctx.pick(1, 16)):
            if ctx.mine(k + rep):
                psd_forms(ctx, shp, ctx.seed * 7 + 13 * k + rep, prelude=bool((k + rep) % 2))
    for k, samples in enumerate(ctx.pick([3, 4, 5, 6, 7, 8, 9, 12, 16, 21], list(range(3, 65)) + [96, 97, 128])):
        for rep in range(ctx.pick(1, 4)):
            if ctx.mine(k + rep):
                synth_forms(ctx, samples, ctx.seed * 11 + k + 1000 * rep)
    # class M (HARDENING4.md): psd_fcn as a user callable in every form, singular and non-singular at zero frequency; one sample count in
    # three also under precision 32 immediately before the float64 run
    for k, samples in enumerate(ctx.pick([3, 4, 5, 8, 9, 16, 21, 33, 64, 67], list(range(3, 41)) + [64, 65, 67, 101, 128, 129])):
        for rep in range(ctx.pick(1, 3)):
            if ctx.mine(k + rep):
                if (k + rep) % 3 == 0:
                    synth_callables(ctx, samples, ctx.seed * 43 + k + 1000 * rep, prec=32)
                synth_callables(ctx, samples, ctx.seed * 43 + k + 1000 * rep)

    # class G (HARDENING3.md): unit / magnitude regimes.  (1) the metamorphic scale laws; (2) the ordinary laws of one_map (psd contract, band
    # laws through the function and the method, tone bins) on maps whose dx is 1e-9 .. 1e9 times the usual ones
    gshapes = ctx.pick([(8, 8), (9, 12), (13, 7), (16, 21), (31, 26), (40, 40)],
                       [(8, 8), (9, 12), (13, 7), (16, 21), (31, 26), (40, 40), (5, 4), (7, 7), (12, 33), (33, 12), (64, 64), (63, 50), (67, 64), (101, 37), (96, 128),
                        (128, 96), (127, 127), (4, 160)])
    GW = ['hann', 'auto', 'user', 'auto-circ', 'welch', 'ones']
    for k, shp in enumerate(gshapes):
        for rep in range(ctx.pick(1, 12)):
            if not ctx.mine(k + rep):
                continue
            scale_laws(ctx, shp, [1.0, 0.37, 12.5][(k + rep) % 3], GW[(k + rep) % len(GW)], ctx.seed * 13 + 17 * k + rep)
            for q, K in enumerate(UNIT_K):
                if K in (1e-3, 1e3) or (ctx.quick and (q + k) % 2):
                    continue
                wc = WINDOWS[(k + q + rep) % len(WINDOWS)]
                one_map(ctx, shp, [1.0, 0.37, 12.5][(k + q) % 3] * K, wc, ctx.seed * 101 + 7 * k + q + 1000 * rep, ['lowpass-zero-dc', 'lowpass'][(k + q) % 2],
                        layout=LAYOUTS[(k + q) % len(LAYOUTS)])
                if wc != 'auto' and (q + k) % 3 == 0:
                    one_map(ctx, shp, [1.0, 0.37, 12.5][(k + q) % 3] * K, 'auto', ctx.seed * 101 + 7 * k + q + 1000 * rep + 1, 'lowpass-circ-zero-dc')
                if rep == 0 and q % 3 == 0:
                    tone_test(ctx, shp, 0.37 * K, ctx.seed + k + q)

    # class I: prime and awkward FFT sizes >= 64 (the content of lowpass_map is periodic: it wraps around the border), every window class
    pshapes = ctx.pick([(67, 67), (64, 101), (127, 65), (129, 74), (5, 257), (71, 2)],
                       [(67, 67), (64, 101), (127, 65), (129, 74), (5, 257), (257, 6), (71, 2), (101, 101), (65, 65), (74, 67), (127, 129), (257, 257), (131, 97), (3, 127),
                        (211, 64), (64, 211), (193, 89), (1, 127), (127, 1)])
    for k, shp in enumerate(pshapes):
        if not ctx.mine(k):
            continue
        for q, wc in enumerate(WINDOWS):
            if ctx.quick and (q + k) % 2:
                continue
            dx = [1.0, 0.37, 12.5][(k + q) % 3]
            one_map(ctx, shp, dx, wc, ctx.seed * 53 + 11 * k + q, ['lowpass', 'lowpass-zero-dc', 'white'][(k + q) % 3], laws=min(shp) >= 2,
                    layout=LAYOUTS[(k + q) % len(LAYOUTS)])
        tone_test(ctx, shp, 0.37, ctx.seed + k)

    # class B: histories on one Interferogram
    nh = ctx.share(ctx.pick(500, 40000))
    for q in range(nh):
        n0, n1 = (int(v) for v in rng.integers(6, ctx.pick(20, 48), 2))
        if q % 4 == 0:
            n1 = n0
        dx = [1.0, 0.37, 12.5][q % 3]
        seed = ctx.subseed(rng)
        L = int(rng.integers(1, ctx.pick(6, 12) + 1))
        lay = LAYOUTS[q % len(LAYOUTS)]
        if q % 6 == 1:
            foreign_traffic(ctx, [n0, n1], heavy=False)
        if q % 5 == 0:
            ifg_history(ctx, (n0, n1), dx, seed, L, prec=32, dtype='float32', layout=lay)     # then the same history in float64
        ifg_history(ctx, (n0, n1), dx, seed, L, layout=lay, dtype='float32' if q % 7 == 3 else 'float64')

    # synthesis
    smax = ctx.pick(24, 128)
    k = -1
    reps = ctx.pick(1, 6)
    for samples in range(3, smax + 1):
        for model in ('abc', 'ab'):
            for mclass in ('none', 'circle-string', 'circle-array', 'random-array'):
                for rep in range(reps):
                    k += 1
                    if not _mine_small_first(ctx, k, 16):
                        continue
                    if (k // ctx.nshards) % 5 == 2:
                        foreign_traffic(ctx, [samples, samples], heavy=False)
                    if (k // ctx.nshards) % 3 == 0:      # class C: precision-32 synthesis (and its synth -> psd history) on the same grid first
                        synth(ctx, samples, model, mclass, ctx.seed * 7919 + k, prec=32)
                    synth(ctx, samples, model, mclass, ctx.seed * 7919 + k)
    # classes H / G for the synthesis: rms exactly 0 / tiny / huge, every mask class and form; other lateral units; prime sample counts (class I)
    ssamples = ctx.pick([3, 4, 5, 8, 9, 16, 21, 33, 64, 67], list(range(3, 41)) + [64, 65, 67, 74, 101, 127, 128, 129, 257])
    for k, samples in enumerate(ssamples):
        for rep in range(ctx.pick(1, 3)):
            if not ctx.mine(k + rep):
                continue
            for model in ('abc', 'ab'):
                synth_special(ctx, samples, model, ctx.seed * 37 + 3 * k + rep)
            synth_units(ctx, samples, ctx.seed * 41 + k + 100 * rep)
    for k, samples in enumerate(ctx.pick([67, 101], [67, 74, 101, 127, 129, 257])):
        if ctx.mine(k):
            for q, mclass in enumerate(('none', 'circle-string', 'circle-array', 'random-array')):
                synth(ctx, samples, ['abc', 'ab'][(k + q) % 2], mclass, ctx.seed * 7919 + 5000 + k + q)
    ctx.note(f'shard{ctx.shard}.float32-roundoff-max(err/scale) [thresholds: axes 1e-4, parseval/alignment/band laws 1e-3, tone leak 1e-3, synth rms 1e-4]',
             {k_: float(f'{v:.3g}') for k_, v in sorted(RO.items())})


def replay(ctx, rec):
    run(ctx)
