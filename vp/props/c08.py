"""C08 — sequence evaluation equals one-at-a-time evaluation.

Differential monitor *within the library*: a contract is attached to every `*_seq` routine; for every call made with an
in-domain order list (non-empty, non-negative, strictly ascending for the one-index families; any list of (n,m) pairs
for the two-index families) the post-condition evaluates the single-order routine of the same family for each requested
order on the same coordinates and requires

    shape(result) == (len(orders), *coordinate shape)     and     result[k] == single(orders[k], ...)   (rtol 1e-10)

The calls prysm makes internally (cheby*_seq -> jacobi_seq, zernike_nm_seq -> jacobi_seq, Q2d_seq -> Qbfs_seq,
xy_seq -> dickson1_seq, laguerre_der_seq -> laguerre_seq) are seen by the same contracts.  The correctness of the
single-order routine itself is C07's (values) and C09's (derivatives).
"""
import itertools
import sys

import numpy as np

from ..contracts import attach, detach_all, quiet
from ..polyhard import (cfg32, clear_caches, warm32, layouts, is_c_contig, contig, order_containers, foreign_traffic, high_orders, seq_coord_kind_ok,
                        coord_forms, more_order_containers, term_containers, ORDER_FORMS, NM_FORMS, PARAM_FORMS, INT_PARAM_FORMS, INT_HERMITE_MAX_ORDER,
                        scales, ulps, special_class, near_special_jacobi, near_special_scalar, EXACT_SPECIAL_JACOBI, GENERIC_NEIGHBOURS_JACOBI, term_orderings)
from ..util import precision

RULE = ('every *_seq routine x order lists (ALL non-empty ascending subsets of {0..6}; gapped lists up to 40; singletons; '
        'lists starting at 0/1/2/>=3) x coordinate-shape classes (0-D, 1-D, 1-D of length len(orders), 2-D square, 2-D non-square, '
        '2-D whose leading / trailing dimension equals len(orders), 3-D, 3-D with a middle dimension equal to len(orders), float32); '
        'two-index families: random lists of (n,m) in arbitrary order with repeated |m|, mixed signs, duplicates and singletons; '
        'xy: meshgrid, separable (1,N)/(M,1), general (cartesian_grid=False) coordinates. A case is non-trivial when the list '
        'asks for at least one order >= 1 ; distinct = distinct descriptor (routine, order list, parameters, coordinate class). Hardening classes: '
        'history units per routine (memo tables emptied where possible, then {float32 low | float32 high | no} session under config.precision = 32, then '
        'order lists [0..5], [2,9], [3,18,19], [17], [0,41], [16,17,18], [40,41], [1,7,33], [0..41], ... or the reverse, interleaved over parameter sets '
        'sharing alpha / beta / alpha+beta), across the routines sharing the Jacobi table (cheby*_seq, legendre_seq, Qcon_seq, zernike_nm(_der)_seq and '
        'their *_der_seq forms alternating with jacobi(_der)_seq of the equivalent parameters, Qbfs_seq, Q2d_seq); aliasing (one coordinate object and one '
        'order-list object shared by consecutive calls, arguments must be left intact, earlier results must survive, results overwritten before asking '
        'again); memory layouts of the coordinates (Fortran, transposed view, strided, window, reversed strides; 1-D, 2-D, 3-D); containers (list, tuple, '
        'int32 / int64 ndarray, list of numpy ints, range; numpy float64 parameters; term lists as tuples / lists / int ndarrays); config.precision = 32 '
        'with float32 / float64 / 0-D coordinates (single-precision tolerance); order lists reaching 60, 100 (thorough: 150, 250). Hardening pass 2: class D in the quick tier - '
        'order lists reaching 171, 172, 200, 256, 400 (Hermite: 200) for every one-index routine; class E - forms the current tree accepts as the same input (table in '
        'vp/polyhard.py): complex128 / complex64 coordinates for every routine, int64 / int32 / bool where listed, xy_seq with integer and complex coordinates; order lists as '
        'lists of int64 / int32 / uint32 / uint64 / intp, unsigned ndarrays, dict key views, one-shot generators / iterators (judged against the list form); shape parameters as '
        'numpy float64 / float32 / python int / numpy int64 incl. the lines alpha + beta = -1, 0 with alpha != beta; term lists in every accepted container, (n, m) as numpy '
        'integers; norm / cartesian_grid omitted vs explicit, also after the other explicit value; class F - every routine judged after unmonitored traffic through the shared '
        'tables from the other routines of the library. Hardening pass 3: class H - shape parameters special only UP TO ROUNDING (alpha = 0.1 + 0.2, beta = -0.3; alpha + beta = -1 +- 1 ulp; one ulp '
        'from 0, +-1/2, an integer; alpha -> -1), exactly special ones and clearly generic neighbours for jacobi_seq, jacobi_der_seq, laguerre_seq, laguerre_der_seq, dickson1_seq, dickson2_seq '
        '(a failure that disappears at the exactly special neighbour is keyed .../special:<line>); evaluation points exactly at 0, -0.0, +-1, the ends of each domain and one ulp inside them as '
        'whole arrays, 2-D, every point alone as length-1 and 0-d array, order lists containing only order 0, for every one-index routine; the two-index routines on the axis and the rim, monomials '
        'with zero base / zero exponent; class G - xy_seq on coordinates scaled by 1e-12 ... 1e12 against xy() RELATIVE to the size of each mode and against s^(m+n) times the unscaled modes; '
        'class I - every ordering of the two-index term lists (ascending, descending, grouped by |m|, m-major, sine first, radial orders non-ascending inside each |m| group, shuffles, all '
        'permutations of three-term same-|m| groups incl. mixed signs) for zernike_nm_seq, zernike_nm_der_seq, Q2d_seq, xy_seq. Hardening pass 5: domain reading - every one-index routine on coordinates straddling / beyond the orthogonality interval (1 ulp, 1e-9, moderately and far beyond; |x| to 3 for the Jacobi-type families, negative x for Laguerre, |x| to 10 for Hermite, to 6 for Dickson, rho to 2 for Qbfs / Qcon; whole arrays, 2-D, one side only, single points, float32) judged point by point relative to max_j<=n |P_j(x)| where the single-order routine is finite; the two-index routines at r > 1 and the monomials at |x|, |y| > 1 (contracts)')
ASSUMPTIONS = ['the single-order routine is the oracle (its own correctness is C07 / C09)',
               'one-index order lists are in-domain when non-empty, non-negative and strictly ascending (the documented contract: '
               '"sorted orders"); other lists reaching a contract are excluded and counted',
               'coordinates of one call share one shape (r,t / x,y) except the documented separable xy grids',
               'orders are python ints or numpy int32 / int64 / intp / uint32 / uint64 (8/16-bit numpy integers and unhashable 0-d arrays are out of domain: excluded and counted)',
               'argument forms (class E): the accepted forms are DATA established on /repo @ faa8443 (vp/polyhard.py); coordinate dtype kinds a routine truncates today (integer / bool for '
               'most *_seq, all of them for zernike_nm(_der)_seq and Q2d_seq) are excluded and counted; complex64 coordinates and float32-typed parameters are the single-precision class',
               'single-precision class (float32 coordinates or config.precision = 32): tolerance 2e-4',
               'emptying prysm\'s memo tables (functools cache_clear, where a helper offers it) never changes what a correct library returns',
               'sequence and single-order routine evaluate the same function, smooth in its shape parameters: parameters special only up to rounding are judged at the ordinary tolerance '
               '(established on /repo @ c2c1d7f: seq == single bit for bit for all of them)',
               'the scale regimes of class G are judged by workload monitors relative to sup |mode|; the contracts keep their absolute floor of 1',
               'coordinates are not restricted to the orthogonality interval: wherever the single-order routine returns finite values the sequence routine must agree (established on /repo @ HEAD for the coordinate sets of hardening pass 5)']
REQUIRED = ['alias.arguments-intact', 'alias.result-stable', 'seq.jacobi_seq', 'seq.jacobi_der_seq', 'seq.legendre_seq', 'seq.legendre_der_seq',
            'seq.cheby1_seq', 'seq.cheby1_der_seq', 'seq.cheby2_seq', 'seq.cheby2_der_seq',
            'seq.cheby3_seq', 'seq.cheby3_der_seq', 'seq.cheby4_seq', 'seq.cheby4_der_seq',
            'seq.hermite_He_seq', 'seq.hermite_He_der_seq', 'seq.hermite_H_seq', 'seq.hermite_H_der_seq',
            'seq.laguerre_seq', 'seq.laguerre_der_seq', 'seq.dickson1_seq', 'seq.dickson2_seq',
            'seq.Qbfs_seq', 'seq.Qcon_seq', 'seq.zernike_nm_seq', 'seq.zernike_nm_der_seq', 'seq.Q2d_seq', 'seq.xy_seq',
            'classD.very-high-orders', 'classE.argument-forms', 'classF.foreign-traffic',
            'classG.scale-laws', 'classH.special-parameters', 'classH.special-points', 'classI.orderings', 'domain.beyond-interval']

CTX = None
HANDLED = [None]     # the exception object most recently classified by a contract (so the workload does not report it twice)
RTOL = 1e-10
RTOL32 = 2e-4

# seq routine -> (submodule, single routine, number of shape parameters between the order list and x)
ONE_INDEX = {
    'jacobi_seq': ('jacobi', 'jacobi', 2), 'jacobi_der_seq': ('jacobi', 'jacobi_der', 2),
    'legendre_seq': ('legendre', 'legendre', 0), 'legendre_der_seq': ('legendre', 'legendre_der', 0),
    'cheby1_seq': ('cheby', 'cheby1', 0), 'cheby1_der_seq': ('cheby', 'cheby1_der', 0),
    'cheby2_seq': ('cheby', 'cheby2', 0), 'cheby2_der_seq': ('cheby', 'cheby2_der', 0),
    'cheby3_seq': ('cheby', 'cheby3', 0), 'cheby3_der_seq': ('cheby', 'cheby3_der', 0),
    'cheby4_seq': ('cheby', 'cheby4', 0), 'cheby4_der_seq': ('cheby', 'cheby4_der', 0),
    'hermite_He_seq': ('hermite', 'hermite_He', 0), 'hermite_He_der_seq': ('hermite', 'hermite_He_der', 0),
    'hermite_H_seq': ('hermite', 'hermite_H', 0), 'hermite_H_der_seq': ('hermite', 'hermite_H_der', 0),
    'laguerre_seq': ('laguerre', 'laguerre', 1), 'laguerre_der_seq': ('laguerre', 'laguerre_der', 1),
    'dickson1_seq': ('dickson', 'dickson1', 1), 'dickson2_seq': ('dickson', 'dickson2', 1),
    'Qbfs_seq': ('qpoly', 'Qbfs', 0), 'Qcon_seq': ('qpoly', 'Qcon', 0),
}
CHEBY = {k for k in ONE_INDEX if k.startswith('cheby')}
ORIG = {}      # name -> original (unwrapped) callable, for the oracles


def nclass(n, tag='n'):
    return f'{tag}={n}' if n <= 2 else f'{tag}>=3'


def xcls(shape, k):
    shape = tuple(shape)
    nd = len(shape)
    if nd == 0:
        return '0d'
    if nd == 1:
        return '1d-len=k' if shape[0] == k else '1d'
    tag = f'{nd}d'
    if shape[0] == k:
        tag += '-lead=k'
    elif k in shape[1:]:
        tag += '-inner=k'
    return tag


def list_class(ns):
    ns = list(ns)
    c = 'first' + ('=0' if ns[0] == 0 else '=1' if ns[0] == 1 else '=2' if ns[0] == 2 else '>=3')
    if len(ns) == 1:
        return c + ':singleton'
    return c + (':contiguous' if all(b - a == 1 for a, b in zip(ns, ns[1:])) else ':gapped')


def nd_key(fn):
    if fn in CHEBY:
        return 'C08/cheby_seq/norm-broadcast/x.ndim!=1'
    return f'C08/{fn}/x.ndim!=1'


def row_errors(got, ref, extra_scale, rtol):
    """Per-mode comparison: |got[k]-ref[k]|_inf <= rtol * max(1, |ref[j]|_inf for j <= k, extra_scale[k]).
    Returns (list of failing rows, worst err/tol)."""
    bad, worst, run = [], 0.0, 1.0
    for k in range(ref.shape[0]):
        r = ref[k]
        fin = np.isfinite(r)
        mag = float(np.max(np.abs(r[fin]))) if fin.any() else 0.0
        run = max(run, mag, extra_scale[k] if extra_scale is not None else 0.0)
        g = got[k]
        with np.errstate(all='ignore'):
            if not np.array_equal(np.isfinite(g), fin):
                bad.append(k)
                worst = float('inf')
                continue
            err = float(np.max(np.abs(g[fin] - r[fin]))) if fin.any() else 0.0
        tol = rtol * run
        worst = max(worst, err / tol)
        if not err <= tol:
            bad.append(k)
    return bad, worst


HISTORY = [None]        # class label of the history the workload is in (set by the history units), for mechanism keys


def mechanism(recheck, coords):
    """Mechanism class of a failure, found by re-running the ORIGINAL sequence routine and the single-order oracle quietly:
    memory-layout (right for C-contiguous private copies of the coordinates), not-repeatable (right when the same call is made
    again - e.g. an inner contract has already emptied the tables), history-dependent[:<history class>] (right once the memoised recurrence coefficients have been emptied), '' otherwise."""
    try:
        if recheck(None):
            return 'not-repeatable'
        if any(not is_c_contig(c) for c in coords) and recheck(contig):
            return 'memory-layout'
        if clear_caches() and recheck(None):
            return 'history-dependent' + (':' + HISTORY[0] if HISTORY[0] else '')
    except Exception:  # noqa
        pass
    return ''


def ravel_route_ok(call_1d, ref, rtol):
    """Does the same routine reproduce the reference when the coordinates are flattened to 1-D?  (Distinguishes a
    dimensionality/broadcast defect from a value defect.)"""
    try:
        got = np.asarray(call_1d())
    except Exception:
        return False
    refr = ref.reshape(got.shape) if got.size == ref.size else None
    if refr is None:
        return False
    bad, _ = row_errors(got, refr, None, rtol)
    return not bad


# ------------------------------------------------------------------------------------------ one-index contracts
def parse_one(fn, args, kwargs):
    npar = ONE_INDEX[fn][2]
    names = ['ns'] + ['alpha', 'beta'][:npar] + ['x']
    a = dict(zip(names, args))
    a.update(kwargs)
    return a['ns'], tuple(a[k] for k in names[1:-1]), a['x']


def in_domain_orders(ns):
    try:
        ns = [int(n) for n in ns]
    except TypeError:
        return None
    if not ns or ns[0] < 0 or any(b <= a for a, b in zip(ns, ns[1:])):
        return None
    return ns


def container_label(raw):
    """Static label of the container / element type of an order list."""
    if isinstance(raw, np.ndarray):
        return f'ndarray-{raw.dtype}'
    t = type(raw).__name__
    try:
        el = {type(v).__name__ + (f'[{v.dtype}]' if isinstance(v, np.ndarray) else '') for v in raw}
    except TypeError:
        return t
    return t if el <= {'int'} else t + '-of-' + '|'.join(sorted(el))


def form_of(fn, raw, params, x, rtol):
    """Class E attribution: which single argument, put into its canonical form (float64 coordinates - the real part of complex ones -, python
    int orders in a list, python float parameters), makes the sequence routine agree with the single-order routine again?  '' when none does
    (the defect does not depend on the argument form) or when every argument already is canonical."""
    sub, single, npar = ONE_INDEX[fn]
    try:
        ns = [int(n) for n in raw]
    except TypeError:
        return ''
    xc = np.ascontiguousarray(x.real if x.dtype.kind == 'c' else x, dtype=np.float64)
    pc = tuple(float(p) for p in params)
    cands = []
    if x.dtype != np.float64:
        cands.append((f'x={x.dtype}', (raw, params, xc)))
    if container_label(raw) != 'list':
        cands.append((f'orders={container_label(raw)}', (ns, params, x)))
    if any(type(p) is not float for p in params):
        cands.append(('alpha,beta=' + '|'.join(sorted({type(p).__name__ for p in params})), (raw, pc, x)))

    def right(o, p, xx):
        with np.errstate(all='ignore'):
            got = np.asarray(ORIG[fn](o, *p, xx))
            ref = np.array([np.asarray(ORIG[single](n, *p, xx)) for n in ns])
        return got.shape == ref.shape and not row_errors(got, ref, None, rtol)[0]
    try:
        for lab, (o, p, xx) in cands:
            if right(o, p, xx):
                return lab
    except Exception:  # noqa
        pass
    return ''


def special_of(fn, ns, params, x, rtol):
    """Class H attribution: the shape parameters are special only up to rounding (vp.polyhard.special_class) and the sequence routine agrees with the single-order routine
    again at the exactly special neighbour parameters -> the label of the special line; '' otherwise (the defect does not depend on that regime)."""
    if not params:
        return ''
    sp = special_class(tuple(float(p) for p in params))
    if sp is None:
        return ''
    if sp[1] is None:
        return sp[0]
    single = ONE_INDEX[fn][1]
    try:
        with np.errstate(all='ignore'):
            got = np.asarray(ORIG[fn](ns, *sp[1], x))
            ref = np.array([np.asarray(ORIG[single](n, *sp[1], x)) for n in ns])
        return sp[0] if (got.shape == ref.shape and not row_errors(got, ref, None, rtol)[0]) else ''
    except Exception:  # noqa
        return ''


def make_one(fn):
    sub, single, npar = ONE_INDEX[fn]
    mon = 'seq.' + fn

    def reference(ns, params, x):
        f = ORIG[single]
        ref = np.array([np.asarray(f(n, *params, x)) for n in ns])
        with np.errstate(all='ignore'):
            extra = [float(np.max(np.abs(np.asarray(f(n - 1, *params, x))))) if n >= 1 else 0.0 for n in ns]
        extra = [e if np.isfinite(e) else 0.0 for e in extra]
        return ref, extra

    def classify(ns, params, x, ref, rtol, raw=None):
        """Key for a failure on an in-domain call."""
        def recheck(tr):
            xx = x if tr is None else tr(x)
            with np.errstate(all='ignore'):
                got = np.asarray(ORIG[fn](ns if raw is None else raw, *params, xx))       # the very same request (same container object)
                r2, e2 = reference(ns, params, xx)
            return got.shape == r2.shape and not row_errors(got, r2, e2, rtol)[0]
        mech = mechanism(recheck, [x])
        if mech:
            return f'C08/{fn}/{mech}', f'the routine is right for the same request once the layout / call history is removed ({mech})'
        form = form_of(fn, raw, params, x, rtol)
        if form:
            return f'C08/{fn}/form:{form}', f'the routine is right for the canonical form of the same request (python int orders, python float parameters, float64 coordinates): the defect is specific to the argument form {form}'
        sp = special_of(fn, ns, params, x, rtol)
        if sp:
            return f'C08/{fn}/special:{sp}', f'the shape parameters are special only up to rounding ({sp}) and the routine agrees with the single-order routine again at the exactly special neighbour: the defect lives in that narrow parameter regime'
        if x.ndim != 1 and ravel_route_ok(lambda: ORIG[fn](ns, *params, x.reshape(-1)), ref, rtol):
            return nd_key(fn), 'is correct for the flattened coordinates but not for this coordinate shape'
        return None, None

    def check(args, kwargs, result=None, exc=None):
        ns_raw, params, x = parse_one(fn, args, kwargs)
        ns = in_domain_orders(ns_raw)
        if ns is not None and any(isinstance(v, (np.integer, np.ndarray)) and v.dtype.kind in 'iu' and v.dtype.itemsize < 4
                                  for v in ([ns_raw] if isinstance(ns_raw, np.ndarray) else list(ns_raw)) + list(params)):
            CTX.skip(f'{fn}: orders / parameters given as 8/16-bit numpy integers (out of domain: such arithmetic overflows by nature)')
            return
        if ns is None:
            CTX.skip(f'{fn}: order list not non-negative strictly ascending (out of domain)')
            return
        if isinstance(x, np.generic):
            x = np.asarray(x)       # numpy scalar (e.g. 2*r**2-1 of a 0-D r inside zernike_nm_seq): a 0-D coordinate
        if not isinstance(x, np.ndarray):
            CTX.skip(f'{fn}: coordinates are not an ndarray (out of domain)')
            return
        if not seq_coord_kind_ok(fn, x.dtype.kind):
            CTX.skip(f'{fn}: coordinate dtype kind outside the forms the routine accepts today (class E table of vp/polyhard.py: integer / bool / unsigned coordinates are truncated into the coordinate dtype)')
            return
        if x.dtype.kind in 'iub' and fn.startswith('hermite') and ns[-1] > INT_HERMITE_MAX_ORDER:
            CTX.skip('Hermite polynomials of integer coordinates are computed in int64: orders beyond %d excluded' % INT_HERMITE_MAX_ORDER)
            return
        try:
            params = tuple(p if isinstance(p, (int, float, np.floating, np.integer)) else float(p) for p in params)
        except (TypeError, ValueError):
            CTX.skip(f'{fn}: shape parameters are not real scalars (out of domain)')
            return
        CTX.observe(mon)
        k = len(ns)
        f32 = x.dtype in (np.float32, np.complex64) or cfg32() or any(isinstance(p, np.float32) for p in params)
        rtol = RTOL32 if f32 else RTOL
        desc = {'fn': fn, 'ns': ns if k <= 12 else ns[:12] + ['...'], 'params': [float(p) for p in params], 'xshape': list(x.shape),
                'xclass': xcls(x.shape, k), 'list': list_class(ns), 'dtype': str(x.dtype), 'orders_as': container_label(ns_raw),
                'params_as': [type(p).__name__ for p in params]}
        with np.errstate(all='ignore'):
            ref, extra = reference(ns, params, x)
        want = (k, *x.shape)
        if exc is not None:
            HANDLED[0] = exc
            key, why = classify(ns, params, x, ref, rtol, ns_raw)
            if key is None:
                key, why = f'C08/{fn}/raises:{type(exc).__name__}/{list_class(ns).split(":")[0]}', ''
            CTX.violation(key, f'{fn} raises {type(exc).__name__} on an in-domain call ({str(exc)[:100]}); ' + why, desc, symptom='raises')
            return
        got = np.asarray(result)
        if got.shape != want:
            key, why = classify(ns, params, x, ref, rtol, ns_raw)
            if key is None:
                key = f'C08/{fn}/shape/{xcls(x.shape, k)}'
            CTX.violation(key, f'{fn} returns shape {got.shape}, expected (len(orders), *x.shape) = {want}; {why or ""}', desc,
                          symptom='shape', got_shape=list(got.shape))
            return
        bad, worst = row_errors(got, ref, extra, rtol)
        if bad:
            key, why = classify(ns, params, x, ref, rtol, ns_raw)
            if key is None:
                # every failing row is an order at / beyond 171 (where n! leaves double precision): one mechanism class whatever the list looks like
                key = f'C08/{fn}/value/orders>=171' if min(ns[i] for i in bad) >= 171 else f'C08/{fn}/value/{list_class(ns).split(":")[0]}'
            CTX.violation(key, f'{fn}[k] != {single}(orders[k]) for some requested order; {why or ""}', desc, symptom='value',
                          failing_orders=[ns[i] for i in bad][:8], err_over_tol=worst)

    def post(token, args, kwargs, result):
        check(args, kwargs, result=result)

    def on_raise(token, args, kwargs, e):
        check(args, kwargs, exc=e)
    return post, on_raise


# ------------------------------------------------------------------------------------------ two-index contracts
def zmclass(m):
    return 'm=0' if m == 0 else ('m>0' if m > 0 else 'm<0')


def raw_terms(args, kwargs):
    return kwargs.get('nms', kwargs.get('mns', args[0] if args else None))


def form_of_two(fn, raw, idx, coords, single, kwargs, rtol):
    """Class E attribution for the two-index sequence routines: the term list as a list of python-int tuples, or float64 coordinates (the real part
    of complex ones), makes the routine agree with the single-term routine again -> the defect is specific to that argument form."""
    kw = {k: v for k, v in kwargs.items() if k in ('norm', 'cartesian_grid')}
    cands = []
    lab = container_label([tuple(e) for e in raw]) if not isinstance(raw, np.ndarray) else f'ndarray-{raw.dtype}'
    plain = isinstance(raw, list) and all(isinstance(e, tuple) and all(type(v) is int for v in e) for e in raw)
    if not plain:
        cands.append((f'terms={type(raw).__name__ if not isinstance(raw, np.ndarray) else lab}', (list(idx), coords)))
    if any(c.dtype != np.float64 for c in coords):
        cands.append((f'x={coords[0].dtype}', (raw, [np.ascontiguousarray(c.real if c.dtype.kind == 'c' else c, dtype=np.float64) for c in coords])))
    try:
        for lb, (terms, cc) in cands:
            with np.errstate(all='ignore'):
                got = np.asarray(ORIG[fn](terms, cc[0], cc[1], **kw))
                ref = np.array([single(i, cc) for i in idx])
            if got.dtype != object and got.shape == ref.shape and not row_errors(got, ref, None, rtol)[0]:
                return lb
    except Exception:  # noqa
        pass
    return ''


def make_two(fn):
    mon = 'seq.' + fn

    def parse(args, kwargs):
        if fn in ('zernike_nm_seq', 'zernike_nm_der_seq'):
            a = dict(zip(['nms', 'r', 't', 'norm'], args))
            a.update(kwargs)
            nms = [(int(n), int(m)) for n, m in a['nms']]
            norm = a.get('norm', True)
            ok = all(abs(m) <= n and (n - abs(m)) % 2 == 0 for n, m in nms)
            single = ORIG['zernike_nm' if fn == 'zernike_nm_seq' else 'zernike_nm_der']
            return nms, (a['r'], a['t']), ok, (lambda nm, c: np.asarray(single(nm[0], nm[1], c[0], c[1], norm=norm))), \
                {'norm': bool(norm)}, [zmclass(m) for n, m in nms], (lambda c: ORIG[fn](nms, c[0], c[1], norm=norm))
        if fn == 'Q2d_seq':
            a = dict(zip(['nms', 'r', 't'], args))
            a.update(kwargs)
            nms = [(int(n), int(m)) for n, m in a['nms']]
            ok = all(n >= 0 for n, m in nms)
            return nms, (a['r'], a['t']), ok, (lambda nm, c: np.asarray(ORIG['Q2d'](nm[0], nm[1], c[0], c[1]))), {}, \
                [zmclass(m) for n, m in nms], (lambda c: ORIG[fn](nms, c[0], c[1]))
        a = dict(zip(['mns', 'x', 'y', 'cartesian_grid'], args))
        a.update(kwargs)
        mns = [(int(m), int(n)) for m, n in a['mns']]
        cart = a.get('cartesian_grid', True)
        ok = all(m >= 0 and n >= 0 for m, n in mns)
        return mns, (a['x'], a['y']), ok, (lambda mn, c: np.asarray(ORIG['xy'](mn[0], mn[1], c[0], c[1], cartesian_grid=cart))), \
            {'cartesian_grid': bool(cart)}, ['zero-exponent' if (m == 0 or n == 0) else 'positive-exponents' for m, n in mns], \
            (lambda c: ORIG[fn](mns, c[0], c[1], cartesian_grid=cart))

    def check(args, kwargs, result=None, exc=None):
        idx, coords, ok, single, extra_desc, rowcls, recall = parse(args, kwargs)
        if not ok or not idx:
            CTX.skip(f'{fn}: index list empty / not valid indices of the family (out of domain)')
            return
        if not all(isinstance(c, np.ndarray) for c in coords):
            CTX.skip(f'{fn}: coordinates are not ndarrays (out of domain)')
            return
        if not all(c.dtype.kind in ('fic' if fn == 'xy_seq' else 'f') for c in coords):
            CTX.skip(f'{fn}: coordinate dtype kind outside the forms the routine accepts today (class E table: zernike_nm(_der)_seq / Q2d_seq truncate integer coordinates)')
            return
        CTX.observe(mon)
        k = len(idx)
        f32 = any(c.dtype in (np.float32, np.complex64) for c in coords) or cfg32()
        rtol = RTOL32 if f32 else RTOL
        desc = {'fn': fn, 'idx': idx if k <= 10 else idx[:10] + ['...'], 'shapes': [list(c.shape) for c in coords],
                'xclass': xcls(coords[0].shape, k), 'dtype': str(coords[0].dtype)}
        desc.update(extra_desc)
        with np.errstate(all='ignore'):
            ref = np.array([single(i, coords) for i in idx])
        same_shape = coords[0].shape == coords[1].shape

        def classify():
            if fn == 'xy_seq' and extra_desc['cartesian_grid'] and coords[0].ndim < 2:
                # xy() treats 0-D/1-D x, y as the axes of a cartesian grid (outer product), xy_seq() as a list of points
                return 'C08/xy_seq/cartesian_grid/x.ndim<2'

            def recheck(tr):
                cc = coords if tr is None else [tr(c) for c in coords]
                with np.errstate(all='ignore'):
                    got = np.asarray(recall(cc))
                    r2 = np.array([single(i, cc) for i in idx])
                return got.dtype != object and got.shape == r2.shape and not row_errors(got, r2, None, rtol)[0]
            mech = mechanism(recheck, coords)
            if mech:
                return f'C08/{fn}/{mech}'
            form = form_of_two(fn, raw_terms(args, kwargs), idx, coords, single, kwargs, rtol)
            if form:
                return f'C08/{fn}/form:{form}'
            if same_shape and coords[0].ndim != 1 and ravel_route_ok(lambda: recall([c.reshape(-1) for c in coords]), ref, rtol) \
                    and not (fn == 'xy_seq' and extra_desc['cartesian_grid']):
                return f'C08/{fn}/x.ndim!=1'
            return None
        if exc is not None:
            HANDLED[0] = exc
            key = classify() or f'C08/{fn}/raises:{type(exc).__name__}'
            CTX.violation(key, f'{fn} raises {type(exc).__name__} on an in-domain call ({str(exc)[:100]})', desc, symptom='raises')
            return
        try:
            got = np.asarray(result)
        except ValueError:
            got = None
        if got is None or got.dtype == object or got.shape != ref.shape:
            key = classify() or f'C08/{fn}/shape/{xcls(coords[0].shape, k)}'
            CTX.violation(key, f'{fn} returns shape {None if got is None else got.shape}, expected (len(orders), *coordinate shape) = {ref.shape}',
                          desc, symptom='shape')
            return
        bad, worst = row_errors(got, ref, None, rtol)
        if bad:
            key = classify() or f'C08/{fn}/value/rows:' + '|'.join(sorted(set(rowcls[i] for i in bad)))
            CTX.violation(key, f'{fn}[k] differs from the single-term routine for some requested term', desc, symptom='value',
                          failing_terms=[idx[i] for i in bad][:8], err_over_tol=worst)

    def post(token, args, kwargs, result):
        check(args, kwargs, result=result)

    def on_raise(token, args, kwargs, e):
        check(args, kwargs, exc=e)
    return post, on_raise


TWO_INDEX = {'zernike_nm_seq': 'zernike', 'zernike_nm_der_seq': 'zernike', 'Q2d_seq': 'qpoly', 'xy_seq': 'xy'}
SINGLES_TWO = {'zernike_nm': 'zernike', 'zernike_nm_der': 'zernike', 'Q2d': 'qpoly', 'xy': 'xy'}


def install():
    import prysm.polynomials  # noqa
    mods = {s: sys.modules['prysm.polynomials.' + s] for s in
            ('jacobi', 'legendre', 'cheby', 'hermite', 'laguerre', 'dickson', 'qpoly', 'zernike', 'xy')}
    for fn, (sub, single, _) in ONE_INDEX.items():
        ORIG[fn] = getattr(mods[sub], fn)
        ORIG[single] = getattr(mods[sub], single)
    for fn, sub in {**TWO_INDEX, **SINGLES_TWO}.items():
        ORIG[fn] = getattr(mods[sub], fn)
    for fn, (sub, _, _) in ONE_INDEX.items():
        post, on_raise = make_one(fn)
        attach(mods[sub], fn, post=post, on_raise=on_raise)
    for fn, sub in TWO_INDEX.items():
        post, on_raise = make_two(fn)
        attach(mods[sub], fn, post=post, on_raise=on_raise)


def install_monitors(ctx):
    """Attach the call-level contracts for vp/pytest_monitors.py (the repository's own tests as traffic)."""
    global CTX
    CTX = ctx
    install()


# ------------------------------------------------------------------------------------------ workload
def domain(fn):
    if fn.startswith('hermite'):
        return -2.5, 2.5
    if fn.startswith('laguerre'):
        return 0.0, 8.0
    if fn.startswith('dickson'):
        return -2.0, 2.0
    if fn.startswith('Q'):
        return 0.0, 1.0
    return -1.0, 1.0


def coord_shapes(k, rng, thorough):
    """Coordinate-shape classes for a list of k orders (label, shape)."""
    other = 5 if k != 5 else 6
    shapes = [('0d', ()), ('1d', (7 if k != 7 else 8,)), ('1d-len=k', (k,)), ('2d-square', (4, 4) if k != 4 else (3, 3)),
              ('2d-nonsquare', (3, other) if k != 3 else (4, other)), ('2d-lead=k', (k, other)), ('2d-trail=k', (other, k)),
              ('3d', (2, 3, 4) if k not in (2, 3, 4) else (5, 6, 7)), ('3d-inner=k', (2, k, 3) if k != 2 else (3, k, 4)),
              ('1x1', (1, 1)), ('1d-len1', (1,))]
    if thorough:
        shapes += [('2d-kxk', (k, k)), ('3d-lead=k', (k, 2, 3) if k not in (2, 3) else (k, 4, 5)), ('4d', (2, 1, 3, 2))]
    return shapes


def call(ctx, P, fn, desc, *args, **kwargs):
    """Call a seq routine; exceptions are classified by the contract (on_raise); anything it did not see is reported here."""
    try:
        return getattr(P, fn)(*args, **kwargs)
    except Exception as e:  # noqa
        if HANDLED[0] is not e:
            ctx.violation(f'C08/{fn}/raises:{type(e).__name__}/unclassified', f'{fn} raises {type(e).__name__}: {str(e)[:120]}', desc)
        return None


def one_index_lists(ctx, rng):
    subsets = []
    for r in range(1, 8):
        subsets += [list(c) for c in itertools.combinations(range(7), r)]          # all 127 non-empty ascending subsets of {0..6}
    extra = [[k] for k in (7, 10, 25, 40)]
    extra += [[0, 40], [1, 40], [2, 40], [3, 40], [0, 2, 5, 11, 23, 40], [1, 3, 6, 7, 30], [2, 4, 7, 12, 13, 14, 39], [5, 6, 7, 8, 9, 10],
              [3, 5, 8, 13, 21, 34], list(range(0, 41)), list(range(1, 41)), list(range(2, 30, 3)), list(range(0, 41, 2)), list(range(1, 40, 2))]
    n_rand = ctx.pick(12, 600)
    for _ in range(n_rand):
        k = int(rng.integers(1, 9 if ctx.quick else 13))
        top = int(rng.choice([8, 12, 20, 40] if ctx.quick else [8, 12, 20, 40, 60, 100, 150]))
        extra.append(sorted(int(v) for v in rng.choice(top + 1, size=min(k, top + 1), replace=False)))
    if not ctx.quick:
        for r in range(1, 6):
            extra += [list(c) for c in itertools.combinations(range(12), r) if max(c) >= 7]      # subsets reaching 7..11
        extra += [list(range(0, 151)), list(range(1, 151, 2)), [0, 150], [149, 150], list(range(100, 151))]
    return subsets, extra



# ------------------------------------------------------------------------------------------ hardening classes (HARDENING.md A-D)
PARAMS = {2: [(0.3, 1.2), (-0.5, 0.5), (0.0, 0.0), (2.5, -0.75)], 1: [(0.5,), (0.0,), (-0.75,)], 0: [()]}
HIST_LISTS = [[0, 1, 2, 3, 4, 5], [2, 9], [3, 18, 19], [17], [0, 41], [16, 17, 18], [40, 41], [1, 7, 33], list(range(0, 42)), [5], [0, 20, 40], [19, 41], [2], [0, 1]]
HIST_VARIANTS = ('f32-low-orders-then-f64', 'f32-high-orders-then-f64', 'f64-low-then-high', 'f64-high-then-low')


def xdom(fn, rng, shape):
    lo, hi = domain(fn)
    return np.asarray(rng.uniform(lo, hi, size=shape))


def history_one(ctx, P, fn, variant, rng):
    """Class B/C: one sequence routine, parameter sets sharing alpha / beta / alpha+beta interleaved list by list; the memo tables
    are emptied first (where possible), optionally filled by a float32 session (config.precision = 32), then low lists, lists
    reaching >= 18 and >= 40, then descending ones - each call judged by the contract against the single-order routine."""
    npar = ONE_INDEX[fn][2]
    plist = {2: [(0.25, -0.25), (0.25, 0.75), (-0.25, 0.25), (0.0, 4.0)], 1: [(0.5,), (-0.5,), (1.5,)], 0: [()]}[npar]
    single = ONE_INDEX[fn][1]
    x32 = xdom(fn, rng, (3,)).astype(np.float32)
    HISTORY[0] = variant
    try:
        clear_caches()
        if variant.startswith('f32'):
            ns32 = [0, 1, 2, 3, 4, 5] if 'low' in variant else [0, 7, 41]
            warm32(*[lambda p=p: (getattr(P, fn)(ns32, *p, x32), getattr(P, single)(ns32[-1], *p, x32)) for p in plist])
        lists = HIST_LISTS if variant != 'f64-high-then-low' else HIST_LISTS[::-1]
        for step, ns in enumerate(lists):
            x = xdom(fn, rng, (4,) if step % 3 else (2, 3))
            for p in plist:
                desc = {'wl': 'history', 'fn': fn, 'ns': ns if len(ns) <= 8 else [ns[0], '..', ns[-1]], 'params': list(p), 'step': step, 'variant': variant,
                        'class': f'{fn}:history:{variant}'}
                ctx.case(desc, nontrivial=ns[-1] >= 1)
                call(ctx, P, fn, desc, ns, *p, x)
    finally:
        HISTORY[0] = None


def history_shared(ctx, P, variant, rng):
    """Class B across routines that share the Jacobi recurrence tables: cheby*_seq / legendre_seq / Qcon_seq / zernike_nm_seq and
    their *_der_seq forms alternate with jacobi_seq / jacobi_der_seq of the equivalent parameters, low lists first."""
    HISTORY[0] = variant
    try:
        clear_caches()
        x32 = rng.uniform(-0.9, 0.9, 3).astype(np.float32)
        if variant.startswith('f32'):
            top = 5 if 'low' in variant else 41
            warm32(*[lambda fn=fn: getattr(P, fn)([0, top], x32) for fn in ('cheby1_seq', 'cheby2_der_seq', 'legendre_seq', 'cheby3_seq', 'cheby4_der_seq')],
                   lambda: P.jacobi_seq([0, top], 0, 4, x32), lambda: P.Qcon_seq([top], np.abs(x32)))
        lists = HIST_LISTS if variant != 'f64-high-then-low' else HIST_LISTS[::-1]
        for step, ns in enumerate(lists):
            x = rng.uniform(-1, 1, 5)
            u = rng.uniform(0, 1, 5)
            t = rng.uniform(0, 2 * np.pi, 5)
            calls = [('cheby1_seq', (ns, x)), ('jacobi_seq', (ns, -0.5, -0.5, x)), ('cheby1_der_seq', (ns, x)), ('jacobi_der_seq', (ns, -0.5, -0.5, x)),
                     ('cheby2_seq', (ns, x)), ('jacobi_seq', (ns, 0.5, 0.5, x)), ('cheby3_der_seq', (ns, x)), ('jacobi_seq', (ns, -0.5, 0.5, x)),
                     ('cheby4_seq', (ns, x)), ('jacobi_der_seq', (ns, 0.5, -0.5, x)), ('legendre_seq', (ns, x)), ('jacobi_seq', (ns, 0.0, 0.0, x)),
                     ('legendre_der_seq', (ns, x)), ('Qcon_seq', (ns, u)), ('jacobi_seq', (ns, 0, 4, x)), ('jacobi_der_seq', (ns, 0, 4, x)),
                     ('zernike_nm_seq', ([(2 * n + 4, 4 if i % 2 else -4) for i, n in enumerate(ns[-6:])] + [(2 * ns[-1], 0)], u, t)),
                     ('zernike_nm_der_seq', ([(2 * n + 1, 1) for n in ns[-4:]] + [(2 * ns[0], 0)], u + 0.01, t)),
                     ('Qbfs_seq', (ns, u)), ('Q2d_seq', ([(n, 0) for n in ns[-5:]] + [(ns[-1], 2), (ns[0], -2), (ns[-1], 1)], u, t))]
            for fn, args in calls:
                desc = {'wl': 'history', 'fn': fn, 'step': step, 'ns': ns if len(ns) <= 8 else [ns[0], '..', ns[-1]], 'variant': variant, 'class': f'{fn}:history-shared-tables:{variant}'}
                ctx.case(desc)
                call(ctx, P, fn, desc, *args)
    finally:
        HISTORY[0] = None


def alias_one(ctx, P, fn, rng):
    """Class A: one coordinate object and one order-list object shared by consecutive calls of the sequence routine (and, through the
    contract's oracle, of the single-order routine); earlier results must not change; returned arrays may be overwritten."""
    npar = ONE_INDEX[fn][2]
    par = PARAMS[npar][0]
    for cls, shp in (('1d', (5,)), ('2d', (2, 3)), ('0d', ())):
        x0 = xdom(fn, rng, shp)
        x = x0.copy()
        kept = []
        for step, ns in enumerate(([0, 1, 2, 3], [2, 5], [1], [0, 3, 18, 19], [2, 5], [0, 1, 2, 3], [7, 41])):
            cont = ns if step % 2 else np.array(ns)
            desc = {'wl': 'alias', 'fn': fn, 'ns': ns, 'params': list(par), 'step': step, 'x': cls, 'class': f'{fn}:shared-arguments:{cls}'}
            ctx.case(desc, nontrivial=ns[-1] >= 1)
            got = call(ctx, P, fn, desc, cont, *par, x)
            if isinstance(got, np.ndarray):
                kept.append((ns, got, got.copy()))
            ctx.require('alias.arguments-intact', np.array_equal(x, x0) and list(cont) == ns, f'C08/{fn}/arguments-modified',
                        f'{fn} modified the coordinate array or the order list it was given (the single-order routine evaluated afterwards on the same '
                        'objects - which is what a caller comparing the two forms does - no longer sees the same request)', desc)
            x[...] = x0
        for ns, got, snap in kept:
            desc = {'wl': 'alias', 'fn': fn, 'ns': ns, 'x': cls, 'class': f'{fn}:result-stability:{cls}'}
            ctx.require('alias.result-stable', np.array_equal(got, snap, equal_nan=True), f'C08/{fn}/result-changed-by-later-call',
                        f'{fn}: an array returned earlier was modified by a later call (it no longer equals the single-order values)', desc)
            if got.flags.writeable and not np.shares_memory(got, x):
                got[...] = np.nan
        desc = {'wl': 'alias', 'fn': fn, 'ns': [0, 1, 2, 3], 'params': list(par), 'x': cls, 'class': f'{fn}:after-result-overwritten:{cls}'}
        ctx.case(desc)
        call(ctx, P, fn, desc, [0, 1, 2, 3], *par, x)
        call(ctx, P, fn, desc, [2, 5], *par, x)


def alias_two(ctx, P, rng):
    for cls, shp in (('1d', (5,)), ('2d', (2, 3)), ('0d', ())):
        r0 = np.asarray(rng.uniform(0.05, 1.0, shp))
        t0 = np.asarray(rng.uniform(0, 2 * np.pi, shp))
        r, t = r0.copy(), t0.copy()
        kept = []
        zl = [[(4, 2), (4, -2), (2, 0)], [(3, 1), (5, 1), (3, -1)], [(4, 2), (4, -2), (2, 0)], [(20, 4), (41, -1), (6, 0)]]
        ql = [[(3, 1), (3, -1), (2, 0)], [(0, 2), (4, 2), (1, -2)], [(3, 1), (3, -1), (2, 0)], [(18, 3), (41, -1), (19, 0)]]
        xl = [[(2, 3), (0, 1), (2, 0)], [(1, 1)], [(2, 3), (0, 1), (2, 0)], [(18, 0), (0, 19)]]
        for step in range(4):
            for fn, args, kw in (('zernike_nm_seq', (zl[step], r, t), {'norm': bool(step % 2)}), ('zernike_nm_der_seq', (zl[step], r, t), {'norm': not step % 2}),
                                 ('Q2d_seq', (ql[step], r, t), {}), ('xy_seq', (xl[step], r, t), {'cartesian_grid': False})):
                desc = {'wl': 'alias', 'fn': fn, 'step': step, 'x': cls, 'class': f'{fn}:shared-arguments:{cls}'}
                ctx.case(desc)
                got = call(ctx, P, fn, desc, *args, **kw)
                if isinstance(got, np.ndarray):
                    kept.append((fn, got, got.copy()))
                ctx.require('alias.arguments-intact', np.array_equal(r, r0) and np.array_equal(t, t0), f'C08/{fn}/arguments-modified',
                            f'{fn} modified a coordinate array it was given', desc)
                r[...] = r0
                t[...] = t0
        for fn, got, snap in kept:
            desc = {'wl': 'alias', 'fn': fn, 'x': cls, 'class': f'{fn}:result-stability:{cls}'}
            ctx.require('alias.result-stable', np.array_equal(got, snap, equal_nan=True), f'C08/{fn}/result-changed-by-later-call',
                        f'{fn}: an array returned earlier was modified by a later call', desc)


def layout_units(ctx, P, rng, fns):
    """Class A, memory layout of the coordinate arrays (Fortran order, transposed views, strided slices, windows, reversed strides)."""
    for fn in fns:
        npar = ONE_INDEX[fn][2]
        par = PARAMS[npar][1 % len(PARAMS[npar])]
        for base in (xdom(fn, rng, (3, 4)), xdom(fn, rng, (6,)), xdom(fn, rng, (2, 3, 2))):
            for lab, xv in layouts(base):
                if lab == 'C':
                    continue
                for ns in ([0, 1, 2, 3], [2, 18]):
                    desc = {'wl': 'layout', 'fn': fn, 'ns': ns, 'params': list(par), 'layout': lab, 'ndim': base.ndim, 'class': f'{fn}:layout:{lab}:{base.ndim}d'}
                    ctx.case(desc)
                    call(ctx, P, fn, desc, ns, *par, xv)


def layout_two(ctx, P, rng):
    for rb, tb in ((rng.uniform(0.05, 1, (3, 4)), rng.uniform(0, 6.28, (3, 4))), (rng.uniform(0.05, 1, (6,)), rng.uniform(0, 6.28, (6,)))):
        Lr, Lt = layouts(rb), layouts(tb)
        for a, (lr, rv) in enumerate(Lr):
            for b, (lt, tv) in enumerate(Lt):
                if (a == 0 and b == 0) or (a != b and a and b):
                    continue
                lab = f'{lr}/{lt}'
                for fn, lst, kw in (('zernike_nm_seq', [(5, 3), (5, -3), (2, 0), (18, 2)], {'norm': False}), ('zernike_nm_der_seq', [(4, 0), (3, 1), (3, -1)], {}),
                                    ('Q2d_seq', [(3, 2), (3, -2), (2, 0), (18, 1)], {}), ('xy_seq', [(2, 3), (0, 1), (2, 0)], {'cartesian_grid': False})):
                    desc = {'wl': 'layout', 'fn': fn, 'layout': lab, 'ndim': rb.ndim, 'class': f'{fn}:layout:{lab}:{rb.ndim}d'}
                    ctx.case(desc)
                    call(ctx, P, fn, desc, lst, rv, tv, **kw)
    xv = rng.uniform(-1, 1, 4)
    yv = rng.uniform(-1, 1, 3)
    X, Y = np.meshgrid(xv, yv)
    for (lx, XV), (ly, YV) in zip(layouts(X), layouts(Y)):
        desc = {'wl': 'layout', 'fn': 'xy_seq', 'layout': lx, 'grid': 'cartesian', 'class': f'xy_seq:layout:cartesian:{lx}'}
        ctx.case(desc)
        call(ctx, P, 'xy_seq', desc, [(2, 1), (0, 3), (1, 0)], XV, YV)


def container_units(ctx, P, rng, fns):
    for fn in fns:
        npar = ONE_INDEX[fn][2]
        par = PARAMS[npar][2 % len(PARAMS[npar])]
        x = xdom(fn, rng, (4,))
        for ns in ([0, 1, 2, 3], [2, 5, 19], [3, 4, 5], [18]):
            for lab, cont in order_containers(ns):
                desc = {'wl': 'containers', 'fn': fn, 'ns': ns, 'container': lab, 'params': list(par), 'class': f'{fn}:orders-as-{lab}'}
                ctx.case(desc)
                call(ctx, P, fn, desc, cont, *(tuple(np.float64(v) for v in par) if lab == 'tuple' else par), x)


def container_two(ctx, P, rng):
    r = rng.uniform(0.05, 1, 4)
    t = rng.uniform(0, 6.28, 4)
    for lab, mk in (('list-of-tuples', lambda L: [tuple(e) for e in L]), ('list-of-lists', lambda L: [list(e) for e in L]), ('tuple-of-tuples', lambda L: tuple(tuple(e) for e in L)),
                    ('ndarray-int64', lambda L: np.array(L, dtype=np.int64)), ('ndarray-int32', lambda L: np.array(L, dtype=np.int32))):
        for fn, L, kw in (('zernike_nm_seq', [(4, 2), (4, -2), (2, 0), (19, 1)], {}), ('zernike_nm_der_seq', [(5, 3), (3, -1), (0, 0)], {'norm': False}),
                          ('Q2d_seq', [(3, 2), (3, -2), (2, 0), (19, 1)], {}), ('xy_seq', [(2, 3), (0, 1), (2, 0)], {'cartesian_grid': False})):
            desc = {'wl': 'containers', 'fn': fn, 'terms_as': lab, 'class': f'{fn}:terms-as-{lab}'}
            ctx.case(desc)
            call(ctx, P, fn, desc, mk(L), r, t, **kw)


def cfg32_units(ctx, P, rng, fns):
    """Class C: config.precision = 32 with float32, float64 (mixed) and 0-D coordinates, judged at the single-precision tolerance."""
    with precision(32):
        for fn in fns:
            npar = ONE_INDEX[fn][2]
            for par in PARAMS[npar][:2]:
                for ns in ([0, 1, 2, 3, 5, 8, 12], [3, 9], [0], [12], [1, 2]):
                    for cls, x in (('f32-1d', xdom(fn, rng, (5,)).astype(np.float32)), ('f64-1d', xdom(fn, rng, (5,))),
                                   ('f32-2d', xdom(fn, rng, (2, 3)).astype(np.float32)), ('f32-0d', xdom(fn, rng, ()).astype(np.float32))):
                        desc = {'wl': 'cfg32', 'fn': fn, 'ns': ns, 'params': list(par), 'x': cls, 'class': f'{fn}:precision=32:{cls}'}
                        ctx.case(desc, nontrivial=ns[-1] >= 1)
                        call(ctx, P, fn, desc, ns, *par, x)


def cfg32_two(ctx, P, rng):
    with precision(32):
        for cls, mk in (('f32-1d', lambda a: a.astype(np.float32)), ('f64-1d', lambda a: a), ('f32-2d', lambda a: a.astype(np.float32).reshape(2, 3))):
            r = mk(rng.uniform(0.05, 1, 6))
            t = mk(rng.uniform(0, 6.28, 6))
            for fn, L, kw in (('zernike_nm_seq', [(n, m) for n in range(7) for m in range(-n, n + 1, 2)], {}), ('zernike_nm_seq', [(4, 2), (4, -2), (2, 0), (8, 0)], {'norm': False}),
                              ('zernike_nm_der_seq', [(n, m) for n in range(6) for m in range(-n, n + 1, 2)], {}),
                              ('Q2d_seq', [(n, m) for n in range(5) for m in range(-3, 4)], {}), ('xy_seq', [(2, 3), (0, 1), (2, 0), (5, 5)], {'cartesian_grid': False})):
                desc = {'wl': 'cfg32', 'fn': fn, 'x': cls, 'opt': str(kw), 'class': f'{fn}:precision=32:{cls}'}
                ctx.case(desc)
                call(ctx, P, fn, desc, L, r, t, **kw)


def high_order_units(ctx, P, rng, fns, tops):
    """Class D: order lists far above any plausible internal table size."""
    for fn in fns:
        npar = ONE_INDEX[fn][2]
        lim = 60 if fn.startswith(('hermite', 'laguerre', 'dickson')) else max(tops)
        for par in PARAMS[npar][:2]:
            for top in tops:
                top = min(top, lim)
                for ns in ([top], [0, top], [17, 18, top], [top - 1, top], list(range(0, top + 1, 7)) + [top]):
                    ns = sorted(set(ns))
                    x = xdom(fn, rng, (4,))
                    desc = {'wl': 'high-order', 'fn': fn, 'ns': ns if len(ns) <= 6 else [ns[0], '..', ns[-1]], 'params': list(par), 'class': f'{fn}:high-order'}
                    ctx.case(desc)
                    call(ctx, P, fn, desc, ns, *par, x)


# ------------------------------------------------------------------------------------------ hardening pass 2 (HARDENING2.md D in the quick tier, E, F)
def fam_of(fn):
    return ONE_INDEX[fn][1]


def judge_unseen(ctx, fn, got, want, desc, form):
    """A one-shot generator / iterator of orders is consumed by the routine: the contract cannot read the request back, so the result is compared
    here with the ORIGINAL routine's answer for the same orders in a list (which the contracts judge against the single-order routine)."""
    ctx.observe('seq.' + fn)
    got, want = np.asarray(got), np.asarray(want)
    ok = got.shape == want.shape and not row_errors(got, want, None, RTOL)[0]
    ctx.require('seq.' + fn, ok, f'C08/{fn}/form:{form}', f'{fn}: the result for the order list given as {form} differs from the result for the same orders in a list', desc)


def very_high_units(ctx, P, rng, fns):
    """Class D in the quick tier too: order lists reaching 171, 172, 200, 256, 400 (171! leaves double precision: closed-form normalisations
    overflow there although the polynomial values stay moderate), per family up to its numerically meaningful limit; cheap 1-D coordinates."""
    for fn in fns:
        npar = ONE_INDEX[fn][2]
        for pi, par in enumerate(PARAMS[npar][:2]):
            for top in high_orders(fn, not ctx.quick):
                lists = [[top], [0, top], [top - 1, top]] + ([[1, 170, 171, 172]] if top == 172 else []) + ([list(range(0, top + 1, 37)) + [top]] if top in (200, 400) else [])
                for li, ns in enumerate(lists):
                    if pi and li:
                        continue
                    ns = sorted(set(ns))
                    x = xdom(fn, rng, (3,)) if li != 1 else xdom(fn, rng, (2, 2))
                    desc = {'wl': 'very-high-order', 'fn': fn, 'ns': ns if len(ns) <= 6 else [ns[0], '..', ns[-1]], 'params': list(par), 'class': f'{fn}:very-high-order'}
                    ctx.case(desc)
                    ctx.observe('classD.very-high-orders')
                    call(ctx, P, fn, desc, ns if li % 2 else np.array(ns), *par, x)


def coord_kind_units(ctx, P, rng, fns):
    """Class E, dtype kind of the coordinate array: complex128 (1-D, 2-D, 0-D, real-valued), complex64 (single-precision class) for every
    sequence routine; int64 / int32 / bool arrays where the class E table lists the routine (others are excluded and counted by the contract)."""
    for fn in fns:
        npar = ONE_INDEX[fn][2]
        lo, hi = domain(fn)
        par = PARAMS[npar][0]
        for lab, kind, xv, xf in coord_forms(lo, hi, seq=True):
            for ns in ([0, 1, 2, 3], [2, 5], [1], [0, 3, 8, 12], [7], [0]) + ctx.pick((), ([0, 1, 2, 3, 4, 5, 6, 7, 8], [3, 4], [2], [1, 2, 19], [4, 9, 25, 40], [12], [0, 2], [5, 6, 7], [0, 41])):
                if lab == 'complex64-1d' and ns[-1] > 8:
                    continue
                desc = {'wl': 'coordinate-kind', 'fn': fn, 'ns': ns, 'params': list(par), 'x': lab, 'class': f'{fn}:x-as-{lab}'}
                ctx.case(desc, nontrivial=ns[-1] >= 1)
                ctx.observe('classE.argument-forms')
                call(ctx, P, fn, desc, ns, *par, xv)


def order_form_units(ctx, P, rng, fns):
    """Class E, forms of the order list: every element type of ORDER_FORMS (python int, int64, int32, uint32, uint64, intp, 0-d arrays), unsigned
    ndarrays, dict key views, one-shot generators / iterators where the routine accepts them."""
    for fn in fns:
        npar = ONE_INDEX[fn][2]
        par = PARAMS[npar][1 % len(PARAMS[npar])]
        x = xdom(fn, rng, (4,))
        for ns in ([0, 1, 2, 3], [2, 5, 19], [1], [0], [3, 4, 5]) + ctx.pick((), ([0, 2, 4, 6, 8], [1, 3], [2], [7, 41], [0, 1], [4, 5, 6, 7, 18, 19])):
            for lab, mk in ORDER_FORMS:
                desc = {'wl': 'order-forms', 'fn': fn, 'ns': ns, 'orders_as': 'list-of-' + lab, 'params': list(par), 'class': f'{fn}:orders-as-list-of-{lab}'}
                ctx.case(desc, nontrivial=ns[-1] >= 1)
                call(ctx, P, fn, desc, [mk(n) for n in ns], *par, x)
            for lab, mk in more_order_containers(ns, fn):
                desc = {'wl': 'order-forms', 'fn': fn, 'ns': ns, 'orders_as': lab, 'params': list(par), 'class': f'{fn}:orders-as-{lab}'}
                ctx.case(desc, nontrivial=ns[-1] >= 1)
                got = call(ctx, P, fn, desc, mk(), *par, x)
                if lab in ('generator', 'iterator') and got is not None:
                    with quiet(), np.errstate(all='ignore'):
                        want = ORIG[fn](ns, *par, x)
                    judge_unseen(ctx, fn, got, want, desc, 'orders=' + lab)


def param_form_units(ctx, P, rng):
    """Class E, forms of the shape parameters: numpy float64, numpy float32 (single-precision class), python int / numpy int64 for integer values;
    the parameter lines alpha + beta = -1 and = 0 with alpha != beta."""
    for fn in [f for f in ONE_INDEX if ONE_INDEX[f][2]]:
        npar = ONE_INDEX[fn][2]
        plist = {2: [(0.25, -0.25), (-0.25, -0.75), (-0.75, -0.25), (0.75, -0.75), (1.5, 0.5)], 1: [(0.5,), (-0.75,), (1.5,)]}[npar]
        ilist = {2: [(0, 4), (1, 0), (2, 1)], 1: [(0,), (2,), (-1,) if fn.startswith('dickson') else (1,)]}[npar]
        x = xdom(fn, rng, (4,))
        for ns in ([0, 1, 2, 3], [2, 7], [1], [12]):
            for par in plist:
                for lab, mk, exact in PARAM_FORMS:
                    desc = {'wl': 'parameter-forms', 'fn': fn, 'ns': ns, 'params': list(par), 'params_as': lab, 'class': f'{fn}:params-as-{lab}'}
                    ctx.case(desc, nontrivial=ns[-1] >= 1)
                    call(ctx, P, fn, desc, ns, *[mk(v) for v in par], x)
            for par in ilist:
                for lab, mk, exact in INT_PARAM_FORMS:
                    desc = {'wl': 'parameter-forms', 'fn': fn, 'ns': ns, 'params': list(par), 'params_as': lab, 'class': f'{fn}:params-as-{lab}'}
                    ctx.case(desc, nontrivial=ns[-1] >= 1)
                    call(ctx, P, fn, desc, ns, *[mk(v) for v in par], x)


def two_index_forms(ctx, P, rng):
    """Class E for the two-index routines: term lists in every accepted container, (n, m) as numpy integers, norm / cartesian_grid omitted vs
    explicit (also after a call that passed the other explicit value), integer / complex coordinates for xy_seq."""
    r = rng.uniform(0.05, 1, 4)
    t = rng.uniform(0, 6.28, 4)
    for fn, L, kws in (('zernike_nm_seq', [(4, 2), (4, -2), (2, 0), (19, 1), (3, 3)], [{}, {'norm': False}]), ('zernike_nm_der_seq', [(5, 3), (3, -1), (0, 0), (4, 0)], [{'norm': False}, {}]),
                       ('Q2d_seq', [(3, 2), (3, -2), (2, 0), (19, 1), (0, 1)], [{}]), ('xy_seq', [(2, 3), (0, 1), (2, 0), (0, 0)], [{'cartesian_grid': False}])):
        for kw in kws:
            for lab, cont in term_containers(L, fn):
                desc = {'wl': 'term-forms', 'fn': fn, 'terms_as': lab, 'opt': str(kw), 'class': f'{fn}:terms-as-{lab}'}
                ctx.case(desc)
                call(ctx, P, fn, desc, cont, r, t, **kw)
            for lab, mk in NM_FORMS:
                desc = {'wl': 'term-forms', 'fn': fn, 'terms_as': 'list-of-' + lab, 'opt': str(kw), 'class': f'{fn}:terms-as-list-of-{lab}'}
                ctx.case(desc)
                call(ctx, P, fn, desc, [(mk(a), mk(b)) for a, b in L], r, t, **kw)
    # omitted vs explicit default, also after the other explicit value
    nms = [(4, 2), (3, -1), (2, 0), (5, 5)]
    for step, kw in enumerate(({'norm': False}, {}, {'norm': True}, {}, {'norm': False}, {})):
        for fn in ('zernike_nm_seq', 'zernike_nm_der_seq'):
            desc = {'wl': 'option-forms', 'fn': fn, 'opt': str(kw) or 'omitted', 'step': step, 'class': f'{fn}:norm-{"omitted" if not kw else kw["norm"]}'}
            ctx.case(desc)
            call(ctx, P, fn, desc, nms, r, t, **kw)
    xv, yv = rng.uniform(-1, 1, 4), rng.uniform(-1, 1, 3)
    X, Y = np.meshgrid(xv, yv)
    for step, kw in enumerate(({'cartesian_grid': False}, {}, {'cartesian_grid': True}, {})):
        desc = {'wl': 'option-forms', 'fn': 'xy_seq', 'opt': str(kw) or 'omitted', 'step': step, 'class': f'xy_seq:cartesian_grid-{"omitted" if not kw else kw["cartesian_grid"]}'}
        ctx.case(desc)
        call(ctx, P, 'xy_seq', desc, [(2, 1), (0, 3), (1, 0), (0, 0)], X, Y, **kw)
    xi, yi = np.array([-2, -1, 0, 1, 2]), np.array([2, 0, 1, -1, 3])
    for lab, xa, ya in (('int64', xi, yi), ('int32', xi.astype(np.int32), yi.astype(np.int32)), ('complex128', xi * 0.25 + 0.5j, yi * 0.25 - 0.125j),
                        ('int64-2d', np.array([xi, yi]), np.array([yi, xi]))):
        desc = {'wl': 'coordinate-kind', 'fn': 'xy_seq', 'x': lab, 'class': f'xy_seq:x-as-{lab}'}
        ctx.case(desc)
        call(ctx, P, 'xy_seq', desc, [(2, 3), (0, 1), (2, 0), (0, 0), (1, 1)], xa, ya, cartesian_grid=False)
    Xi, Yi = np.meshgrid(np.arange(-2, 3), np.arange(-1, 3))
    desc = {'wl': 'coordinate-kind', 'fn': 'xy_seq', 'x': 'int64-meshgrid', 'class': 'xy_seq:x-as-int64-meshgrid'}
    ctx.case(desc)
    call(ctx, P, 'xy_seq', desc, [(2, 3), (0, 1), (2, 0)], Xi, Yi)


def foreign_units(ctx, P, rng, fns):
    """Class F: traffic through the shared recurrence tables from the OTHER routines of the library (value / derivative / Clenshaw / change of
    basis / fit, precision 32, numpy-typed orders, in-place-prone paths) first, unjudged; then the sequence routines are judged as usual."""
    for rep, ns in enumerate(([0, 1, 2, 3, 4, 5], [2, 9], [3, 18, 19], [0, 41], [1, 7, 33])):
        ctx.event('foreign-traffic-raised', foreign_traffic(P, rep))
        ctx.observe('classF.foreign-traffic')
        for fn in fns:
            npar = ONE_INDEX[fn][2]
            par = PARAMS[npar][rep % len(PARAMS[npar])]
            x = xdom(fn, rng, (4,) if rep % 2 else (2, 3))
            desc = {'wl': 'foreign-traffic', 'fn': fn, 'ns': ns, 'params': list(par), 'class': f'{fn}:after-foreign-traffic'}
            ctx.case(desc)
            call(ctx, P, fn, desc, ns, *par, x)
        r, t = rng.uniform(0.05, 1, 5), rng.uniform(0, 6.28, 5)
        top = ns[-1]
        for fn, L, kw in (('zernike_nm_seq', [(2 * top + 4, 4), (2 * top + 4, -4), (2 * top, 0), (3, 1)], {'norm': bool(rep % 2)}), ('zernike_nm_der_seq', [(2 * top + 1, 1), (4, 0), (3, -1)], {}),
                          ('Q2d_seq', [(top, 0), (top, 2), (ns[0], -2), (top, 1)], {}), ('xy_seq', [(top % 7, 2), (0, 1), (3, 0)], {'cartesian_grid': False})):
            desc = {'wl': 'foreign-traffic', 'fn': fn, 'class': f'{fn}:after-foreign-traffic'}
            ctx.case(desc)
            call(ctx, P, fn, desc, L, r, t, **kw)


# ------------------------------------------------------------------------------------------ hardening pass 3 (HARDENING3.md G, H, I)
def ends_of(fn):
    """Evaluation points exactly at the ends of the routine's domain, at 0 / -0.0 / +-1 and one ulp inside the ends."""
    lo, hi = domain(fn)
    if fn.startswith('hermite'):
        return np.array([0.0, -0.0, 1.0, -1.0, lo, hi, 0.5])
    if fn.startswith('laguerre'):
        return np.array([0.0, 1.0, ulps(0.0, 1), hi, 0.5])
    if fn.startswith('dickson'):
        return np.array([0.0, -0.0, 1.0, -1.0, lo, hi, 0.5])
    if fn.startswith('Q'):
        return np.array([0.0, 1.0, ulps(1.0, -1), 2.0 ** -30, 0.5])
    return np.array([-1.0, 1.0, 0.0, -0.0, ulps(-1.0, 1), ulps(1.0, -1), 0.5])


def special_parameter_units(ctx, P, part, nparts):
    """Class H, shape parameters special only UP TO ROUNDING (alpha = 0.1 + 0.2, beta = -0.3: alpha + beta is a rounding residue; alpha + beta = -1 +- 1 ulp; a parameter one ulp
    from 0, +-1/2 or an integer; alpha -> -1), the exactly special ones and clearly generic neighbours, for every sequence routine that takes shape parameters; coordinates include 0
    and both ends of the domain.  Sequence and single-order routine evaluate the same smooth function of the parameters, so the ordinary tolerance applies (nothing is lost to
    conditioning); a failure that disappears at the exactly special neighbour is keyed .../special:<line>."""
    jac = [('special:' + c, ab) for c, ab, nb in near_special_jacobi(not ctx.quick)] + [('exactly-special', ab) for ab in EXACT_SPECIAL_JACOBI] + [('generic-neighbour', ab) for ab in GENERIC_NEIGHBOURS_JACOBI]
    lists = ([0, 1, 2, 3], [1], [2, 5], [6], [0], [1, 2], [0, 1, 2, 3, 4, 5, 6, 7, 8, 9, 10, 11, 12], [3, 19]) + ctx.pick((), ([0, 2], [2], [3, 4, 5], [1, 41], list(range(0, 42))))
    i = -1
    for fn in ('jacobi_seq', 'jacobi_der_seq'):
        xs = [('1d+ends', np.array([-1.0, -0.4375, 0.0, 0.28125, 1.0])), ('2d', np.array([[-0.8125, 0.0, 0.59375], [1.0, -1.0, 0.21875]])), ('0d', np.array(0.34375))]
        for cls, ab in jac:
            i += 1
            if i % nparts != part:
                continue
            for li, ns in enumerate(lists):
                xl, x = xs[li % 3] if li else xs[0]
                desc = {'wl': 'special-parameters', 'fn': fn, 'ns': ns if len(ns) <= 8 else [ns[0], '..', ns[-1]], 'params': [repr(v) for v in ab], 'pclass': cls, 'x': xl, 'class': f'{fn}:{cls}'}
                ctx.case(desc, nontrivial=ns[-1] >= 1)
                ctx.observe('classH.special-parameters')
                call(ctx, P, fn, desc, ns if li % 2 else np.array(ns), ab[0], ab[1], x)
    table = [('laguerre_seq', near_special_scalar([0.0, 0.5, -0.5, 1.0, 2.0], lower=-1.0, thorough=not ctx.quick), [0.0, 0.5, -0.5, 1.0]),
             ('laguerre_der_seq', near_special_scalar([0.0, 0.5, -0.5, 1.0], lower=-1.0, thorough=not ctx.quick), [0.0, 0.5, -0.5]),
             ('dickson1_seq', near_special_scalar([0.0, 1.0, -1.0, 0.5], thorough=not ctx.quick), [0.0, 1.0, -1.0, 0.5]),
             ('dickson2_seq', near_special_scalar([0.0, 1.0, -1.0, 0.5], thorough=not ctx.quick), [0.0, 1.0, -1.0, 0.5])]
    for fn, near, exact_ in table:
        x = ends_of(fn)
        for cls, a in [('special:alpha~k/2', v) for c, v, sp_ in near] + [('exactly-special', v) for v in exact_]:
            i += 1
            if i % nparts != part:
                continue
            for li, ns in enumerate(lists[:7]):
                desc = {'wl': 'special-parameters', 'fn': fn, 'ns': ns if len(ns) <= 8 else [ns[0], '..', ns[-1]], 'params': [repr(a)], 'pclass': cls, 'class': f'{fn}:{cls}'}
                ctx.case(desc, nontrivial=ns[-1] >= 1)
                ctx.observe('classH.special-parameters')
                call(ctx, P, fn, desc, ns, a, x if li % 2 else x[:4].reshape(2, 2))


def special_point_units(ctx, P, fns):
    """Class H, evaluation points exactly at 0 / -0.0 / +-1 / the ends of the domain / one ulp inside them (whole array, each point alone as length-1 and 0-d array, 2-D), and order
    lists containing only order 0, for every one-index sequence routine; the two-index routines on the axis (r = 0 with |m| = 0, 1, 2) and on the rim, monomials with a zero
    base and / or a zero exponent."""
    for fn in fns:
        npar = ONE_INDEX[fn][2]
        x = ends_of(fn)
        for par in PARAMS[npar][:2] + ([(0.0, 0.5), (-0.5, 0.0)] if npar == 2 else [(0.0,)] if npar == 1 else []):
            for ns in ([0], [0, 1], [1], [0, 1, 2, 3], [2, 5, 12], [0, 7], [1, 2]) + ctx.pick((), ([3], [0, 2, 4], [19, 41], list(range(0, 13)))):
                if ns[-1] > 12 and fn.startswith(('hermite', 'laguerre', 'dickson')):
                    continue
                forms = [('array', x), ('2d', x[:4].reshape(2, 2))] + [(f'len1:{j}', x[j:j + 1]) for j in range(len(x))] + [(f'0d:{j}', np.array(x[j])) for j in range(len(x))]
                for form, xv in forms:
                    desc = {'wl': 'special-points', 'fn': fn, 'ns': ns, 'params': list(par), 'x': form.split(':')[0], 'point': repr(float(np.ravel(xv)[0])) if xv.size == 1 else 'all',
                            'class': f'{fn}:special-points:{form.split(":")[0]}'}
                    ctx.case(desc, nontrivial=ns[-1] >= 1)
                    ctx.observe('classH.special-points')
                    call(ctx, P, fn, desc, ns, *par, xv)


def special_point_two(ctx, P):
    r = np.array([0.0, 0.0, 0.0, 1.0, 1.0, ulps(1.0, -1), 2.0 ** -30, 0.5])
    t = np.array([0.0, np.pi / 2, 1.25, 0.0, np.pi, 3 * np.pi / 2, 2 * np.pi, -np.pi / 2])
    zl = [[(0, 0)], [(0, 0), (0, 0)], [(1, 1)], [(1, -1)], [(1, 1), (1, -1), (3, 1), (3, -1), (2, 0), (5, 1)], [(2, 2), (2, -2), (4, 2), (0, 0)], [(n, m) for n in range(7) for m in range(-n, n + 1, 2)],
          [(19, 1), (19, -1), (20, 0), (3, 1)]]
    ql = [[(0, 0)], [(0, 1)], [(0, -1)], [(0, 1), (0, -1), (1, 1), (2, -1), (0, 0), (3, 1)], [(1, 2), (0, -2), (2, 0)], [(n, m) for n in range(4) for m in range(-3, 4)], [(19, 1), (18, 0), (12, -2)]]
    for form, rv, tv in (('array', r, t), ('len1:axis', r[:1], t[2:3]), ('0d:axis', np.array(0.0), np.array(1.25)), ('0d:rim', np.array(1.0), np.array(0.0)), ('2d', r.reshape(2, 4), t.reshape(2, 4))):
        for lst in zl:
            for fn in ('zernike_nm_seq', 'zernike_nm_der_seq'):
                for norm in (True, False):
                    desc = {'wl': 'special-points', 'fn': fn, 'nms': lst[:8], 'norm': norm, 'x': form, 'class': f'{fn}:special-points:{form}'}
                    ctx.case(desc, nontrivial=max(n for n, m in lst) >= 1)
                    ctx.observe('classH.special-points')
                    call(ctx, P, fn, desc, lst, rv, tv, norm=norm)
        for lst in ql:
            desc = {'wl': 'special-points', 'fn': 'Q2d_seq', 'nms': lst[:8], 'x': form, 'class': f'Q2d_seq:special-points:{form}'}
            ctx.case(desc)
            call(ctx, P, 'Q2d_seq', desc, lst, rv, tv)
    x0 = np.array([0.0, 0.0, 1.0, -1.0, 0.5, -0.0])
    y0 = np.array([0.0, 0.75, 0.0, -1.0, 0.0, 1.0])
    X0, Y0 = np.meshgrid(np.array([0.0, -1.0, 1.0, 0.5]), np.array([0.0, 1.0, -0.25]))
    exps = [(m, n) for m in range(0, 4) for n in range(0, 4)] + [(7, 0), (0, 7), (12, 1)]
    for lst in ([(0, 0)], [(0, 0), (0, 0)], [(0, 3)], [(3, 0)], exps, exps[::-1], [(0, 3), (3, 0), (0, 0), (1, 1)]):
        for form, xv, yv, cart in (('general', x0, y0, False), ('meshgrid', X0, Y0, True), ('meshgrid-flag-off', X0, Y0, False), ('general-0d', np.array(0.0), np.array(0.0), False),
                                   ('separable', X0[:1], Y0[:, :1], True)):
            desc = {'wl': 'special-points', 'fn': 'xy_seq', 'mns': lst[:8], 'x': form, 'class': f'xy_seq:special-points:{form}'}
            ctx.case(desc, nontrivial=max(a + b for a, b in lst) >= 1)
            call(ctx, P, 'xy_seq', desc, lst, xv, yv, cartesian_grid=cart)


def ordering_units(ctx, P, rng, part, nparts):
    """Class I, every ordering of a two-index term list (ascending, descending, grouped by |m| with n ascending / descending, m-major, sine terms first, radial orders NON-ascending
    inside each |m| group with the groups interleaved, shuffles) for the full low-order sets, and ALL permutations of small same-|m| groups incl. mixed signs."""
    zset = [(n, m) for n in range(ctx.pick(6, 9)) for m in range(-n, n + 1, 2)]
    qset = [(n, m) for n in range(ctx.pick(4, 6)) for m in range(-3, 4)]
    xset = [(a, b) for a in range(4) for b in range(4)]
    jobs = []
    for lab, o in term_orderings(zset, rng, ctx.pick(2, 8)):
        jobs += [(fn, lab, o, {'norm': nrm}) for fn in ('zernike_nm_seq', 'zernike_nm_der_seq') for nrm in (True, False)]
    for lab, o in term_orderings(qset, rng, ctx.pick(2, 8)):
        jobs.append(('Q2d_seq', lab, o, {}))
    for lab, o in term_orderings(xset, rng, ctx.pick(2, 8)):
        jobs.append(('xy_seq', lab, o, {'cartesian_grid': False}))
        jobs.append(('xy_seq', lab, o, {}))
    for am in (0, 1, 2, 3):
        for grp in ([(am + 2 * j, am) for j in range(3)],):
            for perm in itertools.permutations(grp):
                jobs += [(fn, 'permutation-of-one-|m|-group', list(perm), {'norm': bool(am % 2)}) for fn in ('zernike_nm_seq', 'zernike_nm_der_seq')]
                if am:
                    mixed = [(n, m if i % 2 else -m) for i, (n, m) in enumerate(perm)] + [(perm[0][0], -am)]
                    jobs += [(fn, 'permutation-of-one-|m|-group-mixed-signs', mixed, {'norm': not am % 2}) for fn in ('zernike_nm_seq', 'zernike_nm_der_seq')]
        for perm in itertools.permutations([(j, am) for j in (0, 1, 3)]):
            jobs.append(('Q2d_seq', 'permutation-of-one-|m|-group', list(perm), {}))
            if am:
                jobs.append(('Q2d_seq', 'permutation-of-one-|m|-group-mixed-signs', [(n, m if i % 2 else -m) for i, (n, m) in enumerate(perm)] + [(perm[0][0], -am)], {}))
    r, t = np.concatenate([[0.0, 1.0], rng.uniform(0.05, 1, 3)]), rng.uniform(0, 2 * np.pi, 5)
    r2, t2 = rng.uniform(0.05, 1, (2, 3)), rng.uniform(0, 2 * np.pi, (2, 3))
    xv, yv = rng.uniform(-1, 1, 5), rng.uniform(-1, 1, 5)
    X, Y = np.meshgrid(rng.uniform(-1, 1, 4), rng.uniform(-1, 1, 3))
    for i, (fn, lab, lst, kw) in enumerate(jobs):
        if i % nparts != part:
            continue
        if fn == 'xy_seq':
            c0, c1 = (xv, yv) if 'cartesian_grid' in kw else (X, Y)
        else:
            c0, c1 = (r, t) if i % 4 else (r2, t2)
        desc = {'wl': 'orderings', 'fn': fn, 'ordering': lab, 'terms': lst[:10], 'k': len(lst), 'opt': str(kw), 'class': f'{fn}:ordering:{lab}'}
        ctx.case(desc)
        ctx.observe('classI.orderings')
        call(ctx, P, fn, desc, lst if i % 3 else np.array(lst), c0, c1, **kw)


def scale_units(ctx, P):
    """Class G: x^m y^n is homogeneous in the coordinates - xy_seq on coordinates scaled by 1e-12 ... 1e12 (both, x only, y only) against xy() on the same coordinates, RELATIVE to
    the size of each mode (the contract's tolerance has an absolute floor of 1 and cannot see a tiny regime), and against s^(m+n) times the unscaled modes."""
    x0 = np.array([0.75, -0.4375, 0.15625, -1.0, 0.0, 0.59375])
    y0 = np.array([-0.3125, 0.875, 1.0, 0.21875, 0.65625, 0.0])
    xg, yg = np.array([0.75, -0.4375, 0.15625, 1.0]), np.array([-0.3125, 0.875, 0.46875])
    exps = [(0, 0), (1, 0), (0, 1), (2, 3), (3, 0), (1, 4), (5, 5), (0, 7), (8, 2)]
    for s in scales(ctx.quick) + (1.0,):
        reg = 'tiny' if s < 1 else ('huge' if s > 1 else 'unit')
        for sx, sy, lab in ((s, s, 'both'), (s, 1.0, 'x-only'), (1.0, s, 'y-only')):
            if s == 1.0 and lab != 'both':
                continue
            ok = [(m, n) for m, n in exps if abs(m * np.log10(sx) + n * np.log10(sy)) <= 250]
            for form, xv, yv, cart in (('general', sx * x0, sy * y0, False), ('meshgrid', *np.meshgrid(sx * xg, sy * yg), True)):
                desc = {'wl': 'scale', 'fn': 'xy_seq', 'mns': ok, 'scale': s, 'scaled': lab, 'x': form, 'class': f'xy_seq:scale:{reg}:{lab}:{form}'}
                ctx.case(desc)
                got = call(ctx, P, 'xy_seq', desc, ok, xv, yv, cartesian_grid=cart)
                if got is None:
                    continue
                base = (x0, y0) if form == 'general' else np.meshgrid(xg, yg)
                with quiet(), np.errstate(all='ignore'):
                    singles = [np.asarray(ORIG['xy'](m, n, xv, yv, cartesian_grid=cart)) for m, n in ok]
                    unscaled = [np.asarray(ORIG['xy'](m, n, base[0], base[1], cartesian_grid=cart)) * (sx ** m) * (sy ** n) for m, n in ok]
                for (m, n), mode, ref, law in zip(ok, got, singles, unscaled):
                    mode = np.asarray(mode)
                    sc = float(np.max(np.abs(ref))) if ref.size else 0.0
                    ctx.close('classG.scale-laws', mode, ref, f'C08/xy_seq/scale:{reg}', 'a mode of xy_seq at scaled coordinates differs from xy() at the same coordinates relative to its own size', dict(desc, term=[m, n]),
                              rtol=1e-10, atol=1e-300, scale=sc)
                    ctx.close('classG.scale-laws', mode, law, f'C08/xy_seq/scale-law:{reg}', 'xy_seq(s x, s y)[m, n] is not s^(m+n) xy(m, n, x, y)', dict(desc, term=[m, n]), rtol=1e-10, atol=1e-300,
                              scale=float(np.max(np.abs(law))) if law.size else 0.0)


def hardening3(ctx, P, mine):
    sp = ctx.pick(4, 12)
    for part in range(sp):
        if mine():
            special_parameter_units(ctx, P, part, sp)
    fns = list(ONE_INDEX)
    for i in range(0, len(fns), 4):
        if mine():
            special_point_units(ctx, P, fns[i:i + 4])
    if mine():
        special_point_two(ctx, P)
    op = ctx.pick(2, 4)
    for part in range(op):
        if mine():
            ordering_units(ctx, P, np.random.default_rng([ctx.seed, 8108]), part, op)
    if mine():
        scale_units(ctx, P)


# ------------------------------------------------------------------------------------------ hardening pass 5 (HARDENING5.md: domain reading)
def beyond_of(fn):
    """Coordinates that straddle and leave the orthogonality interval / the interval the other workloads sample (the statement does not restrict the coordinates: wherever the
    single-order routine is finite the sequence routine must agree): (lo, hi, points) - points just beyond the ends (1 ulp, 1e-9), moderately and far beyond, plus a few inside."""
    lo, hi = domain(fn)
    if fn.startswith('hermite'):
        return lo, hi, np.array([-9.0, -4.25, ulps(lo, -1), -0.75, 0.0, 1.5, ulps(hi, 1), 3.5, 6.0, 10.0])
    if fn.startswith('laguerre'):
        return lo, hi, np.array([-6.0, -1.0, -0.125, -1e-9, ulps(0.0, -1), 0.0, 2.5, ulps(hi, 1), 15.0, 30.0])
    if fn.startswith('dickson'):
        return lo, hi, np.array([-6.0, -3.0, ulps(lo, -1), -0.5, 0.0, 1.25, ulps(hi, 1), 2.5, 5.0])
    if fn.startswith('Q'):
        return lo, hi, np.array([0.0, 0.5, 1.0, ulps(1.0, 1), 1.0 + 1e-9, 1.0625, 1.3, 2.0])
    return lo, hi, np.array([-3.0, -1.5, -1.1, -1.0 - 1e-9, ulps(-1.0, -1), -1.0, -0.4375, 0.3, 1.0, ulps(1.0, 1), 1.0 + 1e-9, 1.1, 1.5, 3.0])


BEYOND_LISTS = ([0, 1, 2, 3, 4, 5, 6], [2], [1, 5, 12], [0, 20], [3, 4, 5], [1], [0, 7, 8])


def beyond_interval_units(ctx, P, fns):
    """Domain reading: every one-index sequence routine on coordinate arrays extending beyond the orthogonality interval (straddling array, 2-D of outside points only, each side
    alone, single outside points as length-1 and 0-d arrays, float32).  The contract judges each call row by row; in addition every POINT is judged here against the single-order
    routine relative to the largest |P_j| (j = 0 .. n) at that very point (an error confined to the outside points, or to the inside points of a straddling array whose rows are
    dominated by the far-outside values, cannot hide), wherever the single-order routine is finite."""
    for fn in fns:
        sub, single, npar = ONE_INDEX[fn]
        lo, hi, pts = beyond_of(fn)
        out = pts[(pts < lo) | (pts > hi)]
        forms = [('straddle', pts), ('outside-2d', out[:4].reshape(2, 2)), ('above', pts[pts > hi]), ('below', pts[pts < lo]) if (pts < lo).any() else ('above-rev', pts[pts > hi][::-1]),
                 ('0d-above', np.array(out[-2])), ('0d-just-above', np.array(pts[pts > hi][0])), ('len1-outside', out[:1]), ('f32-straddle', pts.astype(np.float32))]
        for pi, par in enumerate(PARAMS[npar][:2] + ([(0.0, 0.0)] if npar == 2 else [])):
            for li, ns in enumerate(BEYOND_LISTS):
                if pi and li % 2:
                    continue
                for form, xv in forms:
                    if xv.size == 0 or (form == 'f32-straddle' and ns[-1] > 8):
                        continue
                    desc = {'wl': 'beyond-interval', 'fn': fn, 'ns': ns, 'params': list(par), 'x': form, 'class': f'{fn}:beyond-interval:{form}'}
                    ctx.case(desc, nontrivial=ns[-1] >= 1)
                    got = call(ctx, P, fn, desc, ns if li % 2 else np.array(ns), *par, xv)
                    if got is None:
                        ctx.observe('domain.beyond-interval')
                        continue
                    got = np.asarray(got)
                    with quiet(), np.errstate(all='ignore'):
                        table = np.array([np.asarray(ORIG[single](n, *par, xv)) for n in range(ns[-1] + 1)])
                    if got.shape != (len(ns), *xv.shape):
                        ctx.require('domain.beyond-interval', False, f'C08/{fn}/beyond-interval/shape', f'{fn} on coordinates beyond the interval returns shape {got.shape}', desc)
                        continue
                    ref = table[ns]
                    fin = np.isfinite(ref)
                    with np.errstate(all='ignore'):
                        mag = np.where(np.isfinite(table), np.abs(table), 0.0)
                        scale = np.maximum(1.0, np.maximum.accumulate(mag, axis=0)[ns])
                        rtol = RTOL32 if (xv.dtype == np.float32 or cfg32()) else RTOL
                        badpt = fin & ~(np.abs(got - ref) <= rtol * scale)
                    if not fin.any():
                        ctx.skip(f'{fn}: single-order routine not finite anywhere on the beyond-interval coordinates (nothing to compare)')
                        continue
                    where = ''
                    if badpt.any():
                        xb = np.broadcast_to(xv, badpt.shape)[badpt]
                        where = 'outside' if ((xb < lo) | (xb > hi)).all() else ('inside' if ((xb >= lo) & (xb <= hi)).all() else 'both')
                    ctx.require('domain.beyond-interval', not badpt.any(), f'C08/{fn}/beyond-interval/{where}-points',
                                f'{fn}[k] != {single}(orders[k]) at coordinates {where} the interval [{lo}, {hi}] (judged point by point relative to max_j<=n |P_j(x)|, where the single-order routine is finite)',
                                desc, failing_orders=[ns[k] for k in range(len(ns)) if badpt[k].any()][:8], n_points=int(badpt.sum()))


def beyond_interval_two(ctx, P):
    """Domain reading for the two-index families: r beyond the unit disc (the single-term routines are polynomials in r and finite there), |x|, |y| > 1 for the monomials;
    judged by the contracts (each call) - the monitor counts the calls."""
    r = np.array([0.3, 1.0, ulps(1.0, 1), 1.0 + 1e-9, 1.0625, 1.3, 2.0, 1.5])
    t = np.array([0.0, 1.25, np.pi / 2, -0.7, 2.5, np.pi, 4.0, 5.5])
    zl = [[(1, 1)], [(2, 0), (4, 0), (6, 0)], [(1, 1), (1, -1), (3, 1), (3, -1), (2, 0), (5, 1)], [(2, 2), (2, -2), (4, 2), (0, 0)], [(n, m) for n in range(7) for m in range(-n, n + 1, 2)]]
    ql = [[(0, 1)], [(2, 0), (1, 0), (3, 0)], [(0, 1), (0, -1), (1, 1), (2, -1), (0, 0), (3, 1), (4, 1)], [(1, 2), (0, -2), (2, 0), (3, 2)], [(n, m) for n in range(4) for m in range(-3, 4)]]
    for form, rv, tv in (('straddle', r, t), ('outside-2d', r[2:].reshape(2, 3), t[2:].reshape(2, 3)), ('0d-outside', np.array(1.3), np.array(1.25)), ('len1-outside', r[5:6], t[5:6])):
        for lst in zl:
            for fn in ('zernike_nm_seq', 'zernike_nm_der_seq'):
                for norm in (True, False):
                    desc = {'wl': 'beyond-interval', 'fn': fn, 'nms': lst[:8], 'norm': norm, 'x': form, 'class': f'{fn}:beyond-interval:{form}'}
                    ctx.case(desc)
                    ctx.observe('domain.beyond-interval')
                    call(ctx, P, fn, desc, lst, rv, tv, norm=norm)
        for lst in ql:
            desc = {'wl': 'beyond-interval', 'fn': 'Q2d_seq', 'nms': lst[:8], 'x': form, 'class': f'Q2d_seq:beyond-interval:{form}'}
            ctx.case(desc)
            ctx.observe('domain.beyond-interval')
            call(ctx, P, 'Q2d_seq', desc, lst, rv, tv)
    x0 = np.array([-3.0, 1.5, -1.1, 2.0, 0.5, ulps(1.0, 1)])
    y0 = np.array([2.5, -1.25, 0.75, -4.0, 1.5, -1.0])
    X0, Y0 = np.meshgrid(np.array([-2.0, 0.5, 1.5, 3.0]), np.array([-1.5, 1.0, 2.25]))
    exps = [(m, n) for m in range(0, 4) for n in range(0, 4)] + [(7, 0), (0, 7), (6, 1)]
    for lst in ([(0, 3)], [(3, 0)], exps, exps[::-1], [(0, 3), (3, 0), (0, 0), (1, 1)]):
        for form, xv, yv, cart in (('general', x0, y0, False), ('meshgrid', X0, Y0, True), ('meshgrid-flag-off', X0, Y0, False), ('general-0d', np.array(-2.5), np.array(1.75), False),
                                   ('separable', X0[:1], Y0[:, :1], True)):
            desc = {'wl': 'beyond-interval', 'fn': 'xy_seq', 'mns': lst[:8], 'x': form, 'class': f'xy_seq:beyond-interval:{form}'}
            ctx.case(desc)
            ctx.observe('domain.beyond-interval')
            call(ctx, P, 'xy_seq', desc, lst, xv, yv, cartesian_grid=cart)


def hardening5(ctx, P, mine):
    fns = list(ONE_INDEX)
    for i in range(0, len(fns), 6):
        if mine():
            beyond_interval_units(ctx, P, fns[i:i + 6])
    if mine():
        beyond_interval_two(ctx, P)


def hardening(ctx, P, counter):
    fns = list(ONE_INDEX)

    def mine():
        counter[0] += 1
        return ctx.mine(counter[0])
    for fn in fns:
        variants = HIST_VARIANTS if not ctx.quick else [HIST_VARIANTS[(fns.index(fn)) % 2], HIST_VARIANTS[2 + (fns.index(fn) // 2) % 2]]
        for v in variants:
            if mine():
                history_one(ctx, P, fn, v, ctx.rng('hist', fn, v))
    for v in HIST_VARIANTS:
        if mine():
            history_shared(ctx, P, v, ctx.rng('hist-shared', v))
    for fn in fns:
        if mine():
            alias_one(ctx, P, fn, ctx.rng('alias', fn))
    if mine():
        alias_two(ctx, P, ctx.rng('alias-two'))
    for i in range(0, len(fns), 4):
        if mine():
            layout_units(ctx, P, ctx.rng('layout', i), fns[i:i + 4])
        if mine():
            container_units(ctx, P, ctx.rng('cont', i), fns[i:i + 4])
        if mine():
            cfg32_units(ctx, P, ctx.rng('cfg32', i), fns[i:i + 4])
        if mine():
            high_order_units(ctx, P, ctx.rng('high', i), fns[i:i + 4], ctx.pick((60, 100), (60, 100, 150, 250)))
    for i in range(0, len(fns), 4):
        if mine():
            very_high_units(ctx, P, ctx.rng('very-high', i), fns[i:i + 4])
        if mine():
            coord_kind_units(ctx, P, ctx.rng('coord-kind', i), fns[i:i + 4])
        if mine():
            order_form_units(ctx, P, ctx.rng('order-forms', i), fns[i:i + 4])
    for i in range(0, len(fns), 8):
        if mine():
            foreign_units(ctx, P, ctx.rng('foreign', i), fns[i:i + 8])
    if mine():
        param_form_units(ctx, P, ctx.rng('param-forms'))
    if mine():
        two_index_forms(ctx, P, ctx.rng('two-index-forms'))
    if mine():
        layout_two(ctx, P, ctx.rng('layout-two'))
    if mine():
        container_two(ctx, P, ctx.rng('cont-two'))
    if mine():
        cfg32_two(ctx, P, ctx.rng('cfg32-two'))
    hardening3(ctx, P, mine)
    hardening5(ctx, P, mine)


def _run(ctx):
    import prysm.polynomials as P
    from prysm.polynomials import laguerre_der_seq  # noqa (exported name)
    hardening(ctx, P, [-1])
    rng = ctx.rng('c08')
    subsets, extra = one_index_lists(ctx, rng)
    params = {2: [(0.3, 1.2), (-0.5, 0.5), (0.0, 0.0), (2.5, -0.75)], 1: [(0.5,), (0.0,), (-0.75,)], 0: [()]}
    fams = list(ONE_INDEX)
    idx = -1
    for fi, fn in enumerate(fams):
        npar = ONE_INDEX[fn][2]
        lo, hi = domain(fn)
        for li, ns in enumerate(subsets + extra):
            idx += 1
            if not ctx.mine(idx):
                continue
            if ns[-1] > 60 and fn.startswith(('hermite', 'laguerre', 'dickson')):
                continue        # values beyond the double range: nothing to compare (orders to 60 are covered)
            k = len(ns)
            exh = li < len(subsets)
            plist = params[npar]
            par = plist[(li + fi) % len(plist)]
            shapes = coord_shapes(k, rng, not ctx.quick)
            if not exh and ctx.quick:
                shapes = [shapes[j] for j in range(len(shapes)) if (j + li) % 2 == 0]
            for label, shp in shapes:
                x = rng.uniform(lo, hi, size=shp)
                if shp == ():
                    x = np.asarray(x)
                desc = {'wl': 'one-index', 'fn': fn, 'ns': ns if k <= 12 else [ns[0], '..', ns[-1], k], 'params': list(par), 'x': label,
                        'class': f'{fn}:{label}'}
                ctx.case(desc, nontrivial=ns[-1] >= 1)
                call(ctx, P, fn, desc, ns, *par, x)
            # other containers for the order list, float32 coordinates
            if li % 9 == 0:
                x = rng.uniform(lo, hi, size=6)
                for label, cont in (('tuple', tuple(ns)), ('ndarray', np.array(ns)), ('range', range(ns[0], ns[0] + k))):
                    if label == 'range' and list(cont) != ns:
                        continue
                    desc = {'wl': 'one-index', 'fn': fn, 'ns': ns[:12], 'container': label, 'params': list(par), 'class': f'{fn}:orders-as-{label}'}
                    ctx.case(desc, nontrivial=ns[-1] >= 1)
                    call(ctx, P, fn, desc, cont, *par, x)
                if ns[-1] <= 12:
                    x32 = rng.uniform(lo, hi, size=6).astype(np.float32)
                    desc = {'wl': 'one-index', 'fn': fn, 'ns': ns[:12], 'params': list(par), 'x': 'f32', 'class': f'{fn}:f32'}
                    ctx.case(desc, nontrivial=ns[-1] >= 1)
                    call(ctx, P, fn, desc, ns, *par, x32)
    ctx.note('one_index_lists', {'exhaustive_subsets_of_0..6': len(subsets), 'other_lists': len(extra), 'routines': len(fams)})

    # ---- two-index families ------------------------------------------------------------------------
    def two_shapes(k):
        return [s for s in coord_shapes(k, rng, not ctx.quick)]

    N2 = ctx.share(ctx.pick(160, 9600))
    zmax = ctx.pick(8, 24)
    valid = [(n, m) for n in range(zmax + 1) for m in range(-n, n + 1, 2)]
    for it in range(N2):
        mode = it % 8
        if mode == 0:
            nms = [valid[int(rng.integers(len(valid)))]]                                        # singleton
        elif mode == 1:
            m0 = int(rng.integers(-4, 5))
            nms = [(abs(m0) + 2 * j, m0 * s) for j in rng.permutation(4)[:3] for s in ((1, -1) if m0 else (1,))]     # repeated |m|, both signs, shuffled n
        elif mode == 2:
            nms = [valid[i] for i in rng.permutation(len(valid))[:int(rng.integers(2, 9))]]
            nms = nms + [nms[0]]                                                              # duplicate term
        elif mode == 3:
            nms = [(n, m) for n, m in valid if n <= 4]                                          # the full low-order set, natural order
        elif mode == 4:
            nms = [(2 * j, 0) for j in rng.permutation(5)[:int(rng.integers(1, 5))]]          # only m = 0, shuffled
        else:
            nms = [valid[i] for i in rng.permutation(len(valid))[:int(rng.integers(2, 10))]]
        k = len(nms)
        shapes = two_shapes(k)
        label, shp = shapes[it % len(shapes)]
        r = np.asarray(rng.uniform(0.05, 1.0, size=shp))
        t = np.asarray(rng.uniform(0, 2 * np.pi, size=shp))
        for norm in (True, False):
            for fn in ('zernike_nm_seq', 'zernike_nm_der_seq'):
                desc = {'wl': 'two-index', 'fn': fn, 'nms': nms[:10], 'k': k, 'norm': norm, 'x': label, 'mode': mode, 'class': f'{fn}:{label}'}
                ctx.case(desc, nontrivial=max(n for n, m in nms) >= 1)
                call(ctx, P, fn, desc, nms if it % 3 else [list(p) for p in nms], r, t, norm=norm)
        # Q2d: any n >= 0, any integer m
        if mode == 0:
            qn = [(int(rng.integers(0, 7)), int(rng.integers(-5, 6)))]
        elif mode == 1:
            m0 = int(rng.integers(1, 5))
            qn = [(int(j), m0 * s) for j in rng.permutation(6)[:3] for s in (1, -1)]
        elif mode == 4:
            qn = [(int(j), 0) for j in rng.permutation(7)[:int(rng.integers(1, 5))]]
        elif mode == 5:
            qn = [(int(j), 1) for j in rng.permutation(7)[:4]] + [(int(j), -1) for j in rng.permutation(7)[:2]]   # the m=1 special branch
        else:
            qn = [(int(rng.integers(0, 7)), int(rng.integers(-5, 6))) for _ in range(int(rng.integers(2, 9)))]
        k = len(qn)
        shapes = two_shapes(k)
        label, shp = shapes[(it // 2) % len(shapes)]
        r = np.asarray(rng.uniform(0.0, 1.0, size=shp))
        t = np.asarray(rng.uniform(0, 2 * np.pi, size=shp))
        desc = {'wl': 'two-index', 'fn': 'Q2d_seq', 'nms': qn[:10], 'k': k, 'x': label, 'mode': mode, 'class': f'Q2d_seq:{label}'}
        ctx.case(desc, nontrivial=True)
        call(ctx, P, 'Q2d_seq', desc, qn, r, t)
        # xy: (m, n) exponents
        if mode == 0:
            mns = [(int(rng.integers(0, 7)), int(rng.integers(0, 7)))]
        elif mode == 1:
            mns = [(int(a), int(b)) for a, b in rng.integers(1, 6, size=(int(rng.integers(1, 6)), 2))]      # strictly positive exponents only
        elif mode == 3:
            mns = [P.xy_j_to_mn(j) for j in range(1, 16)]
        else:
            mns = [(int(a), int(b)) for a, b in rng.integers(0, 7, size=(int(rng.integers(1, 8)), 2))]
        k = len(mns)
        M, N = (k, 5 if k != 5 else 6) if it % 4 == 0 else (int(rng.integers(2, 6)), int(rng.integers(2, 7)))
        xv = rng.uniform(-1, 1, N)
        yv = rng.uniform(-1, 1, M)
        X, Y = np.meshgrid(xv, yv)
        grids = [('meshgrid', X, Y, True), ('separable(1,N)/(M,1)', xv.reshape(1, -1), yv.reshape(-1, 1), True),
                 ('meshgrid-flag-off', X, Y, False), ('general-2d', rng.uniform(-1, 1, (M, N)), rng.uniform(-1, 1, (M, N)), False),
                 ('general-1d', rng.uniform(-1, 1, N), rng.uniform(-1, 1, N), False),
                 ('general-0d', np.asarray(rng.uniform(-1, 1)), np.asarray(rng.uniform(-1, 1)), False),
                 ('general-3d', rng.uniform(-1, 1, (2, M, N)), rng.uniform(-1, 1, (2, M, N)), False),
                 ('axes-1d(N),(M)', xv, yv, True), ('axes-1d-equal-length', xv, rng.uniform(-1, 1, N), True)]
        label, x, y, cart = grids[it % len(grids)]
        desc = {'wl': 'two-index', 'fn': 'xy_seq', 'mns': mns[:10], 'k': k, 'x': label, 'mode': mode, 'class': f'xy_seq:{label}'}
        ctx.case(desc, nontrivial=max(a + b for a, b in mns) >= 1)
        call(ctx, P, 'xy_seq', desc, mns, x, y, cartesian_grid=cart)
    # both tiers enumerate the subsets of {0..6} exhaustively (the thorough tier adds lists and shape classes)
    if True:
        ctx.exhaustive = True
        ctx.note('exhaustive', 'every non-empty ascending subset of {0..6} x every coordinate-shape class x every one-index *_seq routine; '
                               'the remaining lists and the two-index families are sampled')


def run(ctx):
    global CTX
    CTX = ctx
    install()
    try:
        _run(ctx)
    finally:
        detach_all()


def replay(ctx, rec):
    run(ctx)
