"""C08 — sequence evaluation equals one-at-a-time evaluation.

Differential monitor *within the library*: a contract is attached to every `*_seq` routine; for every call made with an
in-domain order list (non-empty, non-negative, strictly ascending for the one-index families; any list of (n,m) pairs
for the two-index families) the post-condition evaluates the single-order routine of the same family for each requested
order on the same coordinates and requires

    shape(result) == (len(orders), *coordinate shape)     and     result[k] == single(orders[k], ...)   (rtol 1e-10)

The calls prysm makes internally (cheby*_seq -> jacobi_seq, zernike_nm_seq -> jacobi_seq, Q2d_seq -> Qbfs_seq,
xy_seq -> dickson1_seq, laguerre_der_seq -> laguerre_seq) are seen by the same contracts.  The correctness of the
single-order routine itself is C07's (values) and C09's (derivatives).
"""
import itertools
import sys

import numpy as np

from ..contracts import attach, detach_all

RULE = ('every *_seq routine x order lists (ALL non-empty ascending subsets of {0..6}; gapped lists up to 40; singletons; '
        'lists starting at 0/1/2/>=3) x coordinate-shape classes (0-D, 1-D, 1-D of length len(orders), 2-D square, 2-D non-square, '
        '2-D whose leading / trailing dimension equals len(orders), 3-D, 3-D with a middle dimension equal to len(orders), float32); '
        'two-index families: random lists of (n,m) in arbitrary order with repeated |m|, mixed signs, duplicates and singletons; '
        'xy: meshgrid, separable (1,N)/(M,1), general (cartesian_grid=False) coordinates. A case is non-trivial when the list '
        'asks for at least one order >= 1 ; distinct = distinct descriptor (routine, order list, parameters, coordinate class)')
ASSUMPTIONS = ['the single-order routine is the oracle (its own correctness is C07 / C09)',
               'one-index order lists are in-domain when non-empty, non-negative and strictly ascending (the documented contract: '
               '"sorted orders"); other lists reaching a contract are excluded and counted',
               'coordinates of one call share one shape (r,t / x,y) except the documented separable xy grids']
REQUIRED = ['seq.jacobi_seq', 'seq.jacobi_der_seq', 'seq.legendre_seq', 'seq.legendre_der_seq',
            'seq.cheby1_seq', 'seq.cheby1_der_seq', 'seq.cheby2_seq', 'seq.cheby2_der_seq',
            'seq.cheby3_seq', 'seq.cheby3_der_seq', 'seq.cheby4_seq', 'seq.cheby4_der_seq',
            'seq.hermite_He_seq', 'seq.hermite_He_der_seq', 'seq.hermite_H_seq', 'seq.hermite_H_der_seq',
            'seq.laguerre_seq', 'seq.laguerre_der_seq', 'seq.dickson1_seq', 'seq.dickson2_seq',
            'seq.Qbfs_seq', 'seq.Qcon_seq', 'seq.zernike_nm_seq', 'seq.zernike_nm_der_seq', 'seq.Q2d_seq', 'seq.xy_seq']

CTX = None
HANDLED = [None]     # the exception object most recently classified by a contract (so the workload does not report it twice)
RTOL = 1e-10
RTOL32 = 2e-4

# seq routine -> (submodule, single routine, number of shape parameters between the order list and x)
ONE_INDEX = {
    'jacobi_seq': ('jacobi', 'jacobi', 2), 'jacobi_der_seq': ('jacobi', 'jacobi_der', 2),
    'legendre_seq': ('legendre', 'legendre', 0), 'legendre_der_seq': ('legendre', 'legendre_der', 0),
    'cheby1_seq': ('cheby', 'cheby1', 0), 'cheby1_der_seq': ('cheby', 'cheby1_der', 0),
    'cheby2_seq': ('cheby', 'cheby2', 0), 'cheby2_der_seq': ('cheby', 'cheby2_der', 0),
    'cheby3_seq': ('cheby', 'cheby3', 0), 'cheby3_der_seq': ('cheby', 'cheby3_der', 0),
    'cheby4_seq': ('cheby', 'cheby4', 0), 'cheby4_der_seq': ('cheby', 'cheby4_der', 0),
    'hermite_He_seq': ('hermite', 'hermite_He', 0), 'hermite_He_der_seq': ('hermite', 'hermite_He_der', 0),
    'hermite_H_seq': ('hermite', 'hermite_H', 0), 'hermite_H_der_seq': ('hermite', 'hermite_H_der', 0),
    'laguerre_seq': ('laguerre', 'laguerre', 1), 'laguerre_der_seq': ('laguerre', 'laguerre_der', 1),
    'dickson1_seq': ('dickson', 'dickson1', 1), 'dickson2_seq': ('dickson', 'dickson2', 1),
    'Qbfs_seq': ('qpoly', 'Qbfs', 0), 'Qcon_seq': ('qpoly', 'Qcon', 0),
}
CHEBY = {k for k in ONE_INDEX if k.startswith('cheby')}
ORIG = {}      # name -> original (unwrapped) callable, for the oracles


def nclass(n, tag='n'):
    return f'{tag}={n}' if n <= 2 else f'{tag}>=3'


def xcls(shape, k):
    shape = tuple(shape)
    nd = len(shape)
    if nd == 0:
        return '0d'
    if nd == 1:
        return '1d-len=k' if shape[0] == k else '1d'
    tag = f'{nd}d'
    if shape[0] == k:
        tag += '-lead=k'
    elif k in shape[1:]:
        tag += '-inner=k'
    return tag


def list_class(ns):
    ns = list(ns)
    c = 'first' + ('=0' if ns[0] == 0 else '=1' if ns[0] == 1 else '=2' if ns[0] == 2 else '>=3')
    if len(ns) == 1:
        return c + ':singleton'
    return c + (':contiguous' if all(b - a == 1 for a, b in zip(ns, ns[1:])) else ':gapped')


def nd_key(fn):
    if fn in CHEBY:
        return 'C08/cheby_seq/norm-broadcast/x.ndim!=1'
    return f'C08/{fn}/x.ndim!=1'


def row_errors(got, ref, extra_scale, rtol):
    """Per-mode comparison: |got[k]-ref[k]|_inf <= rtol * max(1, |ref[j]|_inf for j <= k, extra_scale[k]).
    Returns (list of failing rows, worst err/tol)."""
    bad, worst, run = [], 0.0, 1.0
    for k in range(ref.shape[0]):
        r = ref[k]
        fin = np.isfinite(r)
        mag = float(np.max(np.abs(r[fin]))) if fin.any() else 0.0
        run = max(run, mag, extra_scale[k] if extra_scale is not None else 0.0)
        g = got[k]
        with np.errstate(all='ignore'):
            if not np.array_equal(np.isfinite(g), fin):
                bad.append(k)
                worst = float('inf')
                continue
            err = float(np.max(np.abs(g[fin] - r[fin]))) if fin.any() else 0.0
        tol = rtol * run
        worst = max(worst, err / tol)
        if not err <= tol:
            bad.append(k)
    return bad, worst


def ravel_route_ok(call_1d, ref, rtol):
    """Does the same routine reproduce the reference when the coordinates are flattened to 1-D?  (Distinguishes a
    dimensionality/broadcast defect from a value defect.)"""
    try:
        got = np.asarray(call_1d())
    except Exception:
        return False
    refr = ref.reshape(got.shape) if got.size == ref.size else None
    if refr is None:
        return False
    bad, _ = row_errors(got, refr, None, rtol)
    return not bad


# ------------------------------------------------------------------------------------------ one-index contracts
def parse_one(fn, args, kwargs):
    npar = ONE_INDEX[fn][2]
    names = ['ns'] + ['alpha', 'beta'][:npar] + ['x']
    a = dict(zip(names, args))
    a.update(kwargs)
    return a['ns'], tuple(a[k] for k in names[1:-1]), a['x']


def in_domain_orders(ns):
    try:
        ns = [int(n) for n in ns]
    except TypeError:
        return None
    if not ns or ns[0] < 0 or any(b <= a for a, b in zip(ns, ns[1:])):
        return None
    return ns


def make_one(fn):
    sub, single, npar = ONE_INDEX[fn]
    mon = 'seq.' + fn

    def reference(ns, params, x):
        f = ORIG[single]
        ref = np.array([np.asarray(f(n, *params, x)) for n in ns])
        extra = [float(np.max(np.abs(np.asarray(f(n - 1, *params, x), dtype=float)))) if n >= 1 else 0.0 for n in ns]
        return ref, extra

    def classify(ns, params, x, ref, rtol):
        """Key for a failure on an in-domain call."""
        if x.ndim != 1 and ravel_route_ok(lambda: ORIG[fn](ns, *params, x.reshape(-1)), ref, rtol):
            return nd_key(fn), 'is correct for the flattened coordinates but not for this coordinate shape'
        return None, None

    def check(args, kwargs, result=None, exc=None):
        ns_raw, params, x = parse_one(fn, args, kwargs)
        ns = in_domain_orders(ns_raw)
        if ns is None:
            CTX.skip(f'{fn}: order list not non-negative strictly ascending (out of domain)')
            return
        if isinstance(x, np.generic):
            x = np.asarray(x)       # numpy scalar (e.g. 2*r**2-1 of a 0-D r inside zernike_nm_seq): a 0-D coordinate
        if not isinstance(x, np.ndarray):
            CTX.skip(f'{fn}: coordinates are not an ndarray (out of domain)')
            return
        CTX.observe(mon)
        k = len(ns)
        f32 = x.dtype == np.float32
        rtol = RTOL32 if f32 else RTOL
        desc = {'fn': fn, 'ns': ns if k <= 12 else ns[:12] + ['...'], 'params': [float(p) for p in params], 'xshape': list(x.shape),
                'xclass': xcls(x.shape, k), 'list': list_class(ns), 'dtype': str(x.dtype)}
        with np.errstate(all='ignore'):
            ref, extra = reference(ns, params, x)
        want = (k, *x.shape)
        if exc is not None:
            HANDLED[0] = exc
            key, why = classify(ns, params, x, ref, rtol)
            if key is None:
                key, why = f'C08/{fn}/raises:{type(exc).__name__}/{list_class(ns).split(":")[0]}', ''
            CTX.violation(key, f'{fn} raises {type(exc).__name__} on an in-domain call ({str(exc)[:100]}); ' + why, desc, symptom='raises')
            return
        got = np.asarray(result)
        if got.shape != want:
            key, why = classify(ns, params, x, ref, rtol)
            if key is None:
                key = f'C08/{fn}/shape/{xcls(x.shape, k)}'
            CTX.violation(key, f'{fn} returns shape {got.shape}, expected (len(orders), *x.shape) = {want}; {why or ""}', desc,
                          symptom='shape', got_shape=list(got.shape))
            return
        bad, worst = row_errors(got, ref, extra, rtol)
        if bad:
            key, why = classify(ns, params, x, ref, rtol)
            if key is None:
                key = f'C08/{fn}/value/{list_class(ns).split(":")[0]}'
            CTX.violation(key, f'{fn}[k] != {single}(orders[k]) for some requested order; {why or ""}', desc, symptom='value',
                          failing_orders=[ns[i] for i in bad][:8], err_over_tol=worst)

    def post(token, args, kwargs, result):
        check(args, kwargs, result=result)

    def on_raise(token, args, kwargs, e):
        check(args, kwargs, exc=e)
    return post, on_raise


# ------------------------------------------------------------------------------------------ two-index contracts
def zmclass(m):
    return 'm=0' if m == 0 else ('m>0' if m > 0 else 'm<0')


def make_two(fn):
    mon = 'seq.' + fn

    def parse(args, kwargs):
        if fn in ('zernike_nm_seq', 'zernike_nm_der_seq'):
            a = dict(zip(['nms', 'r', 't', 'norm'], args))
            a.update(kwargs)
            nms = [(int(n), int(m)) for n, m in a['nms']]
            norm = a.get('norm', True)
            ok = all(abs(m) <= n and (n - abs(m)) % 2 == 0 for n, m in nms)
            single = ORIG['zernike_nm' if fn == 'zernike_nm_seq' else 'zernike_nm_der']
            return nms, (a['r'], a['t']), ok, (lambda nm, c: np.asarray(single(nm[0], nm[1], c[0], c[1], norm=norm))), \
                {'norm': bool(norm)}, [zmclass(m) for n, m in nms], (lambda c: ORIG[fn](nms, c[0], c[1], norm=norm))
        if fn == 'Q2d_seq':
            a = dict(zip(['nms', 'r', 't'], args))
            a.update(kwargs)
            nms = [(int(n), int(m)) for n, m in a['nms']]
            ok = all(n >= 0 for n, m in nms)
            return nms, (a['r'], a['t']), ok, (lambda nm, c: np.asarray(ORIG['Q2d'](nm[0], nm[1], c[0], c[1]))), {}, \
                [zmclass(m) for n, m in nms], (lambda c: ORIG[fn](nms, c[0], c[1]))
        a = dict(zip(['mns', 'x', 'y', 'cartesian_grid'], args))
        a.update(kwargs)
        mns = [(int(m), int(n)) for m, n in a['mns']]
        cart = a.get('cartesian_grid', True)
        ok = all(m >= 0 and n >= 0 for m, n in mns)
        return mns, (a['x'], a['y']), ok, (lambda mn, c: np.asarray(ORIG['xy'](mn[0], mn[1], c[0], c[1], cartesian_grid=cart))), \
            {'cartesian_grid': bool(cart)}, ['zero-exponent' if (m == 0 or n == 0) else 'positive-exponents' for m, n in mns], \
            (lambda c: ORIG[fn](mns, c[0], c[1], cartesian_grid=cart))

    def check(args, kwargs, result=None, exc=None):
        idx, coords, ok, single, extra_desc, rowcls, recall = parse(args, kwargs)
        if not ok or not idx:
            CTX.skip(f'{fn}: index list empty / not valid indices of the family (out of domain)')
            return
        if not all(isinstance(c, np.ndarray) for c in coords):
            CTX.skip(f'{fn}: coordinates are not ndarrays (out of domain)')
            return
        CTX.observe(mon)
        k = len(idx)
        f32 = any(c.dtype == np.float32 for c in coords)
        rtol = RTOL32 if f32 else RTOL
        desc = {'fn': fn, 'idx': idx if k <= 10 else idx[:10] + ['...'], 'shapes': [list(c.shape) for c in coords],
                'xclass': xcls(coords[0].shape, k), 'dtype': str(coords[0].dtype)}
        desc.update(extra_desc)
        with np.errstate(all='ignore'):
            ref = np.array([single(i, coords) for i in idx])
        same_shape = coords[0].shape == coords[1].shape

        def classify():
            if fn == 'xy_seq' and extra_desc['cartesian_grid'] and coords[0].ndim < 2:
                # xy() treats 0-D/1-D x, y as the axes of a cartesian grid (outer product), xy_seq() as a list of points
                return 'C08/xy_seq/cartesian_grid/x.ndim<2'
            if same_shape and coords[0].ndim != 1 and ravel_route_ok(lambda: recall([c.reshape(-1) for c in coords]), ref, rtol) \
                    and not (fn == 'xy_seq' and extra_desc['cartesian_grid']):
                return f'C08/{fn}/x.ndim!=1'
            return None
        if exc is not None:
            HANDLED[0] = exc
            key = classify() or f'C08/{fn}/raises:{type(exc).__name__}'
            CTX.violation(key, f'{fn} raises {type(exc).__name__} on an in-domain call ({str(exc)[:100]})', desc, symptom='raises')
            return
        try:
            got = np.asarray(result)
        except ValueError:
            got = None
        if got is None or got.dtype == object or got.shape != ref.shape:
            key = classify() or f'C08/{fn}/shape/{xcls(coords[0].shape, k)}'
            CTX.violation(key, f'{fn} returns shape {None if got is None else got.shape}, expected (len(orders), *coordinate shape) = {ref.shape}',
                          desc, symptom='shape')
            return
        bad, worst = row_errors(got, ref, None, rtol)
        if bad:
            key = classify() or f'C08/{fn}/value/rows:' + '|'.join(sorted(set(rowcls[i] for i in bad)))
            CTX.violation(key, f'{fn}[k] differs from the single-term routine for some requested term', desc, symptom='value',
                          failing_terms=[idx[i] for i in bad][:8], err_over_tol=worst)

    def post(token, args, kwargs, result):
        check(args, kwargs, result=result)

    def on_raise(token, args, kwargs, e):
        check(args, kwargs, exc=e)
    return post, on_raise


TWO_INDEX = {'zernike_nm_seq': 'zernike', 'zernike_nm_der_seq': 'zernike', 'Q2d_seq': 'qpoly', 'xy_seq': 'xy'}
SINGLES_TWO = {'zernike_nm': 'zernike', 'zernike_nm_der': 'zernike', 'Q2d': 'qpoly', 'xy': 'xy'}


def install():
    import prysm.polynomials  # noqa
    mods = {s: sys.modules['prysm.polynomials.' + s] for s in
            ('jacobi', 'legendre', 'cheby', 'hermite', 'laguerre', 'dickson', 'qpoly', 'zernike', 'xy')}
    for fn, (sub, single, _) in ONE_INDEX.items():
        ORIG[fn] = getattr(mods[sub], fn)
        ORIG[single] = getattr(mods[sub], single)
    for fn, sub in {**TWO_INDEX, **SINGLES_TWO}.items():
        ORIG[fn] = getattr(mods[sub], fn)
    for fn, (sub, _, _) in ONE_INDEX.items():
        post, on_raise = make_one(fn)
        attach(mods[sub], fn, post=post, on_raise=on_raise)
    for fn, sub in TWO_INDEX.items():
        post, on_raise = make_two(fn)
        attach(mods[sub], fn, post=post, on_raise=on_raise)


# ------------------------------------------------------------------------------------------ workload
def domain(fn):
    if fn.startswith('hermite'):
        return -2.5, 2.5
    if fn.startswith('laguerre'):
        return 0.0, 8.0
    if fn.startswith('dickson'):
        return -2.0, 2.0
    if fn.startswith('Q'):
        return 0.0, 1.0
    return -1.0, 1.0


def coord_shapes(k, rng, thorough):
    """Coordinate-shape classes for a list of k orders (label, shape)."""
    other = 5 if k != 5 else 6
    shapes = [('0d', ()), ('1d', (7 if k != 7 else 8,)), ('1d-len=k', (k,)), ('2d-square', (4, 4) if k != 4 else (3, 3)),
              ('2d-nonsquare', (3, other) if k != 3 else (4, other)), ('2d-lead=k', (k, other)), ('2d-trail=k', (other, k)),
              ('3d', (2, 3, 4) if k not in (2, 3, 4) else (5, 6, 7)), ('3d-inner=k', (2, k, 3) if k != 2 else (3, k, 4)),
              ('1x1', (1, 1)), ('1d-len1', (1,))]
    if thorough:
        shapes += [('2d-kxk', (k, k)), ('3d-lead=k', (k, 2, 3) if k not in (2, 3) else (k, 4, 5)), ('4d', (2, 1, 3, 2))]
    return shapes


def call(ctx, P, fn, desc, *args, **kwargs):
    """Call a seq routine; exceptions are classified by the contract (on_raise); anything it did not see is reported here."""
    try:
        return getattr(P, fn)(*args, **kwargs)
    except Exception as e:  # noqa
        if HANDLED[0] is not e:
            ctx.violation(f'C08/{fn}/raises:{type(e).__name__}/unclassified', f'{fn} raises {type(e).__name__}: {str(e)[:120]}', desc)
        return None


def one_index_lists(ctx, rng):
    subsets = []
    for r in range(1, 8):
        subsets += [list(c) for c in itertools.combinations(range(7), r)]          # all 127 non-empty ascending subsets of {0..6}
    extra = [[k] for k in (7, 10, 25, 40)]
    extra += [[0, 40], [1, 40], [2, 40], [3, 40], [0, 2, 5, 11, 23, 40], [1, 3, 6, 7, 30], [2, 4, 7, 12, 13, 14, 39], [5, 6, 7, 8, 9, 10],
              [3, 5, 8, 13, 21, 34], list(range(0, 41)), list(range(1, 41)), list(range(2, 30, 3)), list(range(0, 41, 2)), list(range(1, 40, 2))]
    n_rand = ctx.pick(12, 200)
    for _ in range(n_rand):
        k = int(rng.integers(1, 9))
        top = int(rng.choice([8, 12, 20, 40]))
        extra.append(sorted(int(v) for v in rng.choice(top + 1, size=min(k, top + 1), replace=False)))
    if not ctx.quick:
        for r in range(1, 5):
            extra += [list(c) for c in itertools.combinations(range(11), r) if max(c) >= 7]      # subsets reaching 7..10
    return subsets, extra


def _run(ctx):
    import prysm.polynomials as P
    from prysm.polynomials import laguerre_der_seq  # noqa (exported name)
    rng = ctx.rng('c08')
    subsets, extra = one_index_lists(ctx, rng)
    params = {2: [(0.3, 1.2), (-0.5, 0.5), (0.0, 0.0), (2.5, -0.75)], 1: [(0.5,), (0.0,), (-0.75,)], 0: [()]}
    fams = list(ONE_INDEX)
    idx = -1
    for fi, fn in enumerate(fams):
        npar = ONE_INDEX[fn][2]
        lo, hi = domain(fn)
        for li, ns in enumerate(subsets + extra):
            idx += 1
            if not ctx.mine(idx):
                continue
            k = len(ns)
            exh = li < len(subsets)
            plist = params[npar]
            par = plist[(li + fi) % len(plist)]
            shapes = coord_shapes(k, rng, not ctx.quick)
            if not exh and ctx.quick:
                shapes = [shapes[j] for j in range(len(shapes)) if (j + li) % 2 == 0]
            for label, shp in shapes:
                x = rng.uniform(lo, hi, size=shp)
                if shp == ():
                    x = np.asarray(x)
                desc = {'wl': 'one-index', 'fn': fn, 'ns': ns if k <= 12 else [ns[0], '..', ns[-1], k], 'params': list(par), 'x': label,
                        'class': f'{fn}:{label}'}
                ctx.case(desc, nontrivial=ns[-1] >= 1)
                call(ctx, P, fn, desc, ns, *par, x)
            # other containers for the order list, float32 coordinates
            if li % 9 == 0:
                x = rng.uniform(lo, hi, size=6)
                for label, cont in (('tuple', tuple(ns)), ('ndarray', np.array(ns)), ('range', range(ns[0], ns[0] + k))):
                    if label == 'range' and list(cont) != ns:
                        continue
                    desc = {'wl': 'one-index', 'fn': fn, 'ns': ns[:12], 'container': label, 'params': list(par), 'class': f'{fn}:orders-as-{label}'}
                    ctx.case(desc, nontrivial=ns[-1] >= 1)
                    call(ctx, P, fn, desc, cont, *par, x)
                if ns[-1] <= 12:
                    x32 = rng.uniform(lo, hi, size=6).astype(np.float32)
                    desc = {'wl': 'one-index', 'fn': fn, 'ns': ns[:12], 'params': list(par), 'x': 'f32', 'class': f'{fn}:f32'}
                    ctx.case(desc, nontrivial=ns[-1] >= 1)
                    call(ctx, P, fn, desc, ns, *par, x32)
    ctx.note('one_index_lists', {'exhaustive_subsets_of_0..6': len(subsets), 'other_lists': len(extra), 'routines': len(fams)})

    # ---- two-index families ------------------------------------------------------------------------
    def two_shapes(k):
        return [s for s in coord_shapes(k, rng, not ctx.quick)]

    N2 = ctx.share(ctx.pick(160, 2400))
    zmax = ctx.pick(8, 16)
    valid = [(n, m) for n in range(zmax + 1) for m in range(-n, n + 1, 2)]
    for it in range(N2):
        mode = it % 8
        if mode == 0:
            nms = [valid[int(rng.integers(len(valid)))]]                                        # singleton
        elif mode == 1:
            m0 = int(rng.integers(-4, 5))
            nms = [(abs(m0) + 2 * j, m0 * s) for j in rng.permutation(4)[:3] for s in ((1, -1) if m0 else (1,))]     # repeated |m|, both signs, shuffled n
        elif mode == 2:
            nms = [valid[i] for i in rng.permutation(len(valid))[:int(rng.integers(2, 9))]]
            nms = nms + [nms[0]]                                                              # duplicate term
        elif mode == 3:
            nms = [(n, m) for n, m in valid if n <= 4]                                          # the full low-order set, natural order
        elif mode == 4:
            nms = [(2 * j, 0) for j in rng.permutation(5)[:int(rng.integers(1, 5))]]          # only m = 0, shuffled
        else:
            nms = [valid[i] for i in rng.permutation(len(valid))[:int(rng.integers(2, 10))]]
        k = len(nms)
        shapes = two_shapes(k)
        label, shp = shapes[it % len(shapes)]
        r = np.asarray(rng.uniform(0.05, 1.0, size=shp))
        t = np.asarray(rng.uniform(0, 2 * np.pi, size=shp))
        for norm in (True, False):
            for fn in ('zernike_nm_seq', 'zernike_nm_der_seq'):
                desc = {'wl': 'two-index', 'fn': fn, 'nms': nms[:10], 'k': k, 'norm': norm, 'x': label, 'mode': mode, 'class': f'{fn}:{label}'}
                ctx.case(desc, nontrivial=max(n for n, m in nms) >= 1)
                call(ctx, P, fn, desc, nms if it % 3 else [list(p) for p in nms], r, t, norm=norm)
        # Q2d: any n >= 0, any integer m
        if mode == 0:
            qn = [(int(rng.integers(0, 7)), int(rng.integers(-5, 6)))]
        elif mode == 1:
            m0 = int(rng.integers(1, 5))
            qn = [(int(j), m0 * s) for j in rng.permutation(6)[:3] for s in (1, -1)]
        elif mode == 4:
            qn = [(int(j), 0) for j in rng.permutation(7)[:int(rng.integers(1, 5))]]
        elif mode == 5:
            qn = [(int(j), 1) for j in rng.permutation(7)[:4]] + [(int(j), -1) for j in rng.permutation(7)[:2]]   # the m=1 special branch
        else:
            qn = [(int(rng.integers(0, 7)), int(rng.integers(-5, 6))) for _ in range(int(rng.integers(2, 9)))]
        k = len(qn)
        shapes = two_shapes(k)
        label, shp = shapes[(it // 2) % len(shapes)]
        r = np.asarray(rng.uniform(0.0, 1.0, size=shp))
        t = np.asarray(rng.uniform(0, 2 * np.pi, size=shp))
        desc = {'wl': 'two-index', 'fn': 'Q2d_seq', 'nms': qn[:10], 'k': k, 'x': label, 'mode': mode, 'class': f'Q2d_seq:{label}'}
        ctx.case(desc, nontrivial=True)
        call(ctx, P, 'Q2d_seq', desc, qn, r, t)
        # xy: (m, n) exponents
        if mode == 0:
            mns = [(int(rng.integers(0, 7)), int(rng.integers(0, 7)))]
        elif mode == 1:
            mns = [(int(a), int(b)) for a, b in rng.integers(1, 6, size=(int(rng.integers(1, 6)), 2))]      # strictly positive exponents only
        elif mode == 3:
            mns = [P.xy_j_to_mn(j) for j in range(1, 16)]
        else:
            mns = [(int(a), int(b)) for a, b in rng.integers(0, 7, size=(int(rng.integers(1, 8)), 2))]
        k = len(mns)
        M, N = (k, 5 if k != 5 else 6) if it % 4 == 0 else (int(rng.integers(2, 6)), int(rng.integers(2, 7)))
        xv = rng.uniform(-1, 1, N)
        yv = rng.uniform(-1, 1, M)
        X, Y = np.meshgrid(xv, yv)
        grids = [('meshgrid', X, Y, True), ('separable(1,N)/(M,1)', xv.reshape(1, -1), yv.reshape(-1, 1), True),
                 ('meshgrid-flag-off', X, Y, False), ('general-2d', rng.uniform(-1, 1, (M, N)), rng.uniform(-1, 1, (M, N)), False),
                 ('general-1d', rng.uniform(-1, 1, N), rng.uniform(-1, 1, N), False),
                 ('general-0d', np.asarray(rng.uniform(-1, 1)), np.asarray(rng.uniform(-1, 1)), False),
                 ('general-3d', rng.uniform(-1, 1, (2, M, N)), rng.uniform(-1, 1, (2, M, N)), False),
                 ('axes-1d(N),(M)', xv, yv, True), ('axes-1d-equal-length', xv, rng.uniform(-1, 1, N), True)]
        label, x, y, cart = grids[it % len(grids)]
        desc = {'wl': 'two-index', 'fn': 'xy_seq', 'mns': mns[:10], 'k': k, 'x': label, 'mode': mode, 'class': f'xy_seq:{label}'}
        ctx.case(desc, nontrivial=max(a + b for a, b in mns) >= 1)
        call(ctx, P, 'xy_seq', desc, mns, x, y, cartesian_grid=cart)
    # both tiers enumerate the subsets of {0..6} exhaustively (the thorough tier adds lists and shape classes)
    if True:
        ctx.exhaustive = True
        ctx.note('exhaustive', 'every non-empty ascending subset of {0..6} x every coordinate-shape class x every one-index *_seq routine; '
                               'the remaining lists and the two-index families are sampled')


def run(ctx):
    global CTX
    CTX = ctx
    install()
    try:
        _run(ctx)
    finally:
        detach_all()


def replay(ctx, rec):
    run(ctx)
