"""C17 — thin-film and Fresnel coefficients conserve energy and agree with each other.

Monitors
  contracts on the real functions (every call is seen, also the ones prysm makes internally):
      snell_aor              post: n0 sin(theta0) == n1 sin(theta1)                      (complex-safe)
      multilayer_stack_rt    post: R + T == 1 for a lossless stack, R + T <= 1 when inner layers absorb, with
                                   T = Re(n_exit cos(theta_exit)) / (n0 cos(theta0)) |t|^2; evaluated element-wise
                                   for batched stacks; calls outside the stated domain (total internal reflection
                                   somewhere in the stack, absorbing exit medium, gain) are skipped *and counted*
  law monitors driven by the workload:
      single-interface       Fresnel pair energy r^2 + (n1 c1 / n0 c0) t^2 == 1 (s and p); one-entry stack == Fresnel
                             functions (r incl. sign, |t|); r_p(theta_B) == 0 with a sign change across theta_B and
                             brewsters_angle == atan(n1/n0).  A failing case is attributed to the function(s) that
                             deviate from the textbook formula (reference used for attribution only).
      stack.airy-reference   r and |t| of 1..L layer stacks == independent Airy/Rouard interface recursion
                             (vp/refmodels/thinfilm_ref.py); r_p is accepted in either sign convention
      stack.zero-thickness   inserting a zero-thickness layer at a non-final position changes neither r nor t
      stack.half-wave        inserting d = lambda / (2 n cos(theta_layer)) leaves |r| and |t| unchanged
      batched.eq-loop        stack arrays of shape (L, 2, *trail) == the per-element loop, normal and oblique incidence
"""
import math

import numpy as np

from ..contracts import attach, detach_all, quiet
from ..refmodels import thinfilm_ref as R

RULE = ('single interfaces: a grid of (n0, n1) pairs x angle classes enumerated first, then random; stacks: random '
        '1..6 (thorough 1..8) entries, real indices in [1, 4] (absorbing class: inner layers + i*[0, 0.5]), thickness '
        '0..5 wavelengths incl. exact zeros, aoi 0 / oblique up to 89.5 deg or 0.5 deg below the smallest critical angle of '
        'the stack, ambient 1 or 1..1.7, list-of-tuples and ndarray containers; batched: every trailing-shape class '
        "(0-d, 1-d incl. length 1, 2-d, 3-d) x layers x real/complex x normal/oblique x pol.  A case is non-trivial unless "
        'both media of a single interface are equal; distinct = distinct descriptor (all numeric parameters)')
ASSUMPTIONS = ['the last stack entry is the exit medium (documented usage); its thickness only adds a phase to t',
               'power transmittance into a lossless exit medium is Re(n_e cos th_e)/(n0 cos th0) |t|^2 for both polarisations',
               'absorbing media are n + i k with k >= 0 (BYU / e^{-i w t} convention used by the module); absorbing exit media, '
               'gain media and angles at or beyond any critical angle of the stack are outside the stated domain',
               'critical_angle() is not asserted (argument order ambiguous in its docstring); the monitor uses its own asin(n1/n0)',
               'the sign of r_p is a convention: agreement between stack and Fresnel functions is required, the textbook '
               'reference is only used to name the deviating function; phase of t is not compared']
REQUIRED = ['snell_aor.law', 'stack.energy-lossless', 'stack.energy-absorbing', 'fresnel.energy', 'stack-vs-fresnel.r',
            'stack-vs-fresnel.t', 'brewster.rp-zero', 'brewster.sign-change', 'brewster.angle', 'stack.airy-reference',
            'stack.zero-thickness', 'stack.half-wave', 'batched.eq-loop']

CTX = None
TOL = 1e-10          # observed round-off on the pinned tree: <= 1e-13 (stack vs Airy), <= 4e-15 (energy)
TIR_MARGIN = math.radians(0.25)


def aoi_class(aoi):
    return 'normal' if aoi == 0 else 'oblique'


# ------------------------------------------------------------------------------------------ contracts
def post_snell(token, args, kwargs, result):
    names = ['n0', 'n1', 'theta', 'degrees']
    a = dict(zip(names, args))
    a.update(kwargs)
    th = a['theta']
    if a.get('degrees', True):
        th = np.radians(th)
    lhs = np.asarray(a['n0'] * np.sin(th))
    rhs = np.asarray(a['n1'] * np.sin(result))
    CTX.observe('snell_aor.law')
    scale = float(np.max(np.abs(lhs))) if lhs.size else 0.0
    err = float(np.max(np.abs(lhs - rhs))) if np.broadcast(lhs, rhs).size else 0.0
    if not (err <= 1e-12 * max(scale, 1.0)):
        CTX.violation('C17/snell_aor/law', 'snell_aor: n0 sin(theta0) != n1 sin(theta1)',
                      {'n0': a['n0'], 'n1': np.asarray(a['n1']), 'theta_rad': th, 'class': 'contract'}, err=err)


def post_stack(token, args, kwargs, result):
    names = ['stack', 'wavelength', 'polarization', 'aoi', 'ambient_index']
    a = dict(zip(names, args))
    a.update(kwargs)
    pol = str(a['polarization']).lower()
    aoi = float(a.get('aoi', 0))
    n0 = a.get('ambient_index', 1)
    if pol not in ('s', 'p') or isinstance(n0, complex) or not (0 <= aoi < 90):
        CTX.skip('energy-contract: outside domain (polarisation / complex ambient / aoi)')
        return
    n0 = float(n0)
    st = np.asarray(a['stack'])
    if st.ndim < 2 or st.shape[1] != 2:
        return
    L = st.shape[0]
    n = st[:, 0, ...].reshape(L, -1)
    r = np.asarray(result[0]).reshape(-1)
    t = np.asarray(result[1]).reshape(-1)
    if r.shape[0] != n.shape[1]:
        return   # shape faults are reported by the batched monitor
    th0 = math.radians(aoi)
    s0 = n0 * math.sin(th0)
    nre, nim = np.real(n), np.imag(n)
    with np.errstate(all='ignore'):
        lim = np.sin(np.arcsin(np.clip(nre.min(axis=0) / n0, None, 1.0)) - TIR_MARGIN) * n0   # n0 sin(theta_c - margin)
        tir = (nre.min(axis=0) < n0) & (s0 > lim)
        bad_exit = nim[-1] != 0
        gain = (nim < 0).any(axis=0)
        out = tir | bad_exit | gain
        lossless = (nim == 0).all(axis=0) & ~out
        absorbing = ~lossless & ~out
        ne = nre[-1]
        ce = np.sqrt(np.clip(1 - (s0 / ne) ** 2, 0, None))
        T = ne * ce / (n0 * math.cos(th0)) * np.abs(t) ** 2
        tot = np.abs(r) ** 2 + T
    if out.any():
        CTX.skip('energy-contract: outside domain (TIR / absorbing exit / gain)', int(out.sum()))
    batched = 'batched' if st.ndim > 2 else 'scalar'
    desc = {'fn': 'multilayer_stack_rt', 'pol': pol, 'aoi': aoi, 'n0': n0, 'wavelength': a['wavelength'], 'layers': L,
            'stack': st if st.size <= 32 else {'shape': list(st.shape)}, 'class': 'contract'}
    if lossless.any():
        CTX.observe('stack.energy-lossless', int(lossless.sum()))
        err = np.abs(tot[lossless] - 1)
        if not np.all(err <= TOL):    # NaN fails too
            CTX.violation(f'C17/stack/{pol}/energy-lossless/{aoi_class(aoi)}',
                          f'lossless stack, {pol}-polarisation: R + T != 1 ({batched} call)', desc,
                          R_plus_T=tot[lossless][:4], r=r[:4], t=t[:4])
    if absorbing.any():
        CTX.observe('stack.energy-absorbing', int(absorbing.sum()))
        v = tot[absorbing]
        if not np.all(v <= 1 + TOL) or not np.all(v >= 0):
            CTX.violation(f'C17/stack/{pol}/energy-absorbing/{aoi_class(aoi)}',
                          f'absorbing stack, {pol}-polarisation: R + T > 1 ({batched} call)', desc, R_plus_T=v[:4])


def install():
    from prysm import thinfilm
    attach(thinfilm, 'snell_aor', post=post_snell)
    attach(thinfilm, 'multilayer_stack_rt', post=post_stack)


# ------------------------------------------------------------------------------------------ single interface
def single_interface(ctx, tf, n0, n1, aoi, d, wl, desc, array_theta=False):
    """All single-interface laws for one (n0, n1, aoi[deg]); at most one violation per polarisation, keyed by the
    function(s) that deviate from the textbook formula."""
    th0 = math.radians(aoi)
    with ctx.guard('C17/single-interface', desc):
        th1 = tf.snell_aor(n0, n1, aoi)
        th1 = float(np.real(th1))
        if array_theta:
            a0 = np.array([th0, th0, 0.5 * th0])
            a1 = np.array([th1, th1, float(np.real(tf.snell_aor(n0, n1, 0.5 * aoi)))])
            pick = lambda v: float(np.asarray(v)[1])   # noqa: E731
        else:
            a0, a1 = th0, th1
            pick = float
        got = {'fresnel_rs': pick(tf.fresnel_rs(n0, n1, a0, a1)), 'fresnel_ts': pick(tf.fresnel_ts(n0, n1, a0, a1)),
               'fresnel_rp': pick(tf.fresnel_rp(n0, n1, a0, a1)), 'fresnel_tp': pick(tf.fresnel_tp(n0, n1, a0, a1))}
        c0, c1 = math.cos(th0), math.sqrt(max(0.0, 1 - (n0 * math.sin(th0) / n1) ** 2))
        fac = n1 * c1 / (n0 * c0)
        thB_deg = float(tf.brewsters_angle(n0, n1))
        thB_rad = float(tf.brewsters_angle(n0, n1, deg=False))
        for pol in 'sp':
            fr, ft = got['fresnel_r' + pol], got['fresnel_t' + pol]
            sr, stt = tf.multilayer_stack_rt([(n1, d)], wl, pol, aoi=aoi, ambient_index=n0)
            sr, stt = complex(sr), complex(stt)
            failed = []
            ctx.observe('fresnel.energy')
            if not abs(fr ** 2 + fac * ft ** 2 - 1) <= TOL:
                failed.append('fresnel-energy')
            ctx.observe('stack-vs-fresnel.r')
            if not abs(sr - fr) <= TOL:
                failed.append('stack-r!=fresnel-r')
            ctx.observe('stack-vs-fresnel.t')
            if not abs(abs(stt) - abs(ft)) <= TOL * max(1.0, abs(ft)):
                failed.append('|stack-t|!=|fresnel-t|')
            ref_r, ref_t = R.interface(pol, n0, c0, n1, c1)
            dev = {'fresnel_r' + pol: abs(fr - ref_r), 'fresnel_t' + pol: abs(ft - ref_t),
                   'stack_r': abs(sr - ref_r), 'stack_t': abs(abs(stt) - abs(ref_t))}
            if pol == 'p' and n0 != n1:
                # Brewster: r_p vanishes there and changes sign across it; the angle is atan(n1/n0)
                ctx.observe('brewster.angle')
                refB = R.brewster(n0, n1)
                if not (abs(thB_rad - refB) <= 1e-12 and abs(math.radians(thB_deg) - refB) <= 1e-12):
                    failed.append('brewster-angle')
                    dev['brewsters_angle'] = abs(thB_rad - refB) + abs(math.radians(thB_deg) - refB)
                tB1 = float(np.real(tf.snell_aor(n0, n1, refB, degrees=False)))
                ctx.observe('brewster.rp-zero')
                rB = float(tf.fresnel_rp(n0, n1, refB, tB1))
                if not abs(rB) <= TOL:
                    failed.append('rp(brewster)!=0')
                    dev['fresnel_rp'] = max(dev['fresnel_rp'], abs(rB))
                crit = R.critical(n0, n1)
                delta = math.radians(1.0)
                hi = refB + delta
                if hi < math.radians(89.9) and (crit is None or hi < crit - math.radians(0.1)):
                    ctx.observe('brewster.sign-change')
                    lo = refB - delta
                    rl = float(tf.fresnel_rp(n0, n1, lo, float(np.real(tf.snell_aor(n0, n1, lo, degrees=False)))))
                    rh = float(tf.fresnel_rp(n0, n1, hi, float(np.real(tf.snell_aor(n0, n1, hi, degrees=False)))))
                    if not rl * rh < 0:
                        failed.append('rp-no-sign-change-at-brewster')
                        dev['fresnel_rp'] = max(dev['fresnel_rp'], 1.0)
                else:
                    ctx.skip('brewster sign change: theta_B + 1 deg is beyond 89.9 deg or the critical angle')
            if failed:
                culprits = sorted(k for k, v in dev.items() if not v <= TOL)
                ctx.violation(f'C17/single-interface/{pol}/' + ('+'.join(culprits) if culprits else 'undiagnosed'),
                              f'single interface, {pol}-polarisation: ' + ', '.join(failed) +
                              ' (deviating from the textbook formula: ' + (', '.join(culprits) or 'none') + ')',
                              desc, failed=failed, fresnel_r=fr, fresnel_t=ft, stack_r=sr, stack_t_abs=abs(stt),
                              textbook_r=ref_r, textbook_t=ref_t, energy=fr ** 2 + fac * ft ** 2)


def max_aoi(n0, nmin, rng_top=89.5):
    if nmin < n0:
        return min(rng_top, math.degrees(math.asin(nmin / n0)) - 0.5)
    return rng_top


# ------------------------------------------------------------------------------------------ workload
def run(ctx):
    global CTX
    CTX = ctx
    install()
    try:
        _run(ctx)
    finally:
        detach_all()


def _run(ctx):
    from prysm import thinfilm as tf
    rng = ctx.rng('c17')

    # --- A. single interfaces: enumerated grid first (smallest / simplest first), then random -----------------
    idx = [1.5, 1.0, 1.33, 2.0, 4.0, 1.7]
    k = -1
    for n0 in [1.0, 1.5, 1.33, 1.7]:
        for n1 in idx:
            amax = max_aoi(n0, n1)
            for cls, aoi in (('normal', 0.0), ('oblique', 30.0), ('oblique', 0.5 * amax), ('near-limit', amax),
                             ('brewster', math.degrees(math.atan(n1 / n0)))):
                k += 1
                if not ctx.mine(k):
                    continue
                if aoi > amax:
                    ctx.skip('single interface: angle beyond the critical angle margin')
                    continue
                kind = 'matched' if n0 == n1 else ('external' if n0 < n1 else 'internal')
                arr = (k % 3 == 2)
                desc = {'wl': 'single-interface', 'n0': n0, 'n1': n1, 'aoi': aoi, 'd': 0.0, 'wavelength': 0.5, 'array_theta': arr,
                        'class': f'iface:{kind}:{cls}' + (':array-theta' if arr else '')}
                ctx.case(desc, nontrivial=(n0 != n1))
                single_interface(ctx, tf, n0, n1, aoi, 0.0, 0.5, desc, array_theta=arr)
    for _ in range(ctx.share(ctx.pick(600, 12000))):
        n0 = 1.0 if rng.random() < 0.4 else float(rng.uniform(1, 1.7))
        n1 = float(rng.uniform(1, 4))
        amax = max_aoi(n0, n1)
        u = rng.random()
        cls, aoi = ('normal', 0.0) if u < 0.15 else ('grazing', float(rng.uniform(min(80.0, amax), amax))) if u < 0.3 \
            else ('oblique', float(rng.uniform(0, amax)))
        kind = 'external' if n0 < n1 else 'internal'
        arr = rng.random() < 0.2
        desc = {'wl': 'single-interface', 'n0': n0, 'n1': n1, 'aoi': aoi, 'd': float(rng.uniform(0, 3)),
                'wavelength': float(rng.uniform(0.2, 2.0)), 'array_theta': arr,
                'class': f'iface:{kind}:{cls}' + (':array-theta' if arr else '')}
        ctx.case(desc)
        single_interface(ctx, tf, n0, n1, aoi, desc['d'], desc['wavelength'], desc, array_theta=arr)

    # --- B. stacks: energy (contract), Airy reference, zero-thickness and half-wave insertions --------------------
    Lmax = ctx.pick(6, 8)
    for it in range(ctx.share(ctx.pick(1000, 24000))):
        L = 1 + (it % Lmax) if it < 4 * Lmax else int(rng.integers(1, Lmax + 1))
        n0 = 1.0 if rng.random() < 0.5 else float(rng.uniform(1, 1.7))
        absorb = L > 1 and rng.random() < 0.3
        wl = float(rng.uniform(0.2, 2.0))
        st = []
        for l in range(L):
            n = float(rng.uniform(1, 4))
            if absorb and l < L - 1:
                n = n + 1j * float(rng.uniform(0, 0.5))
            d = 0.0 if rng.random() < 0.1 else float(rng.uniform(0, 5)) * wl
            st.append((n, d))
        nmin = min(np.real(n) for n, _ in st)
        amax = max_aoi(n0, nmin)
        u = rng.random()
        aoi = 0.0 if u < 0.2 else float(rng.uniform(0, amax)) if u < 0.9 else float(rng.uniform(min(80.0, amax), amax))
        container = ['list', 'ndarray'][int(rng.integers(2))]
        kind = 'absorbing' if absorb else 'lossless'
        desc = {'wl': 'stack', 'stack': [[n, d] for n, d in st], 'n0': n0, 'aoi': aoi, 'wavelength': wl, 'container': container,
                'class': f'stack:{kind}:L{L}:{aoi_class(aoi)}'}
        ctx.case(desc)
        arg = st if container == 'list' else np.asarray(st)
        th0 = math.radians(aoi)
        for pol in 'sp':
            ac = aoi_class(aoi)
            with ctx.guard(f'C17/stack/{pol}', desc):
                r, t = tf.multilayer_stack_rt(arg, wl, pol, aoi=aoi, ambient_index=n0)     # energy: contract
                r, t = complex(r), complex(t)
                rr, tt = R.stack_rt(st, wl, pol, th0, n0)
                ctx.observe('stack.airy-reference')
                er = min(abs(r - rr), abs(r + rr)) if pol == 'p' else abs(r - rr)
                if not er <= TOL:
                    ctx.violation(f'C17/stack/{pol}/ne-airy-reference/r/{ac}', f'{pol}: r of the stack differs from the Airy recursion',
                                  desc, got=r, ref=rr)
                elif not abs(abs(t) - abs(tt)) <= TOL * max(1.0, abs(tt)):
                    ctx.violation(f'C17/stack/{pol}/ne-airy-reference/t/{ac}', f'{pol}: |t| of the stack differs from the Airy recursion',
                                  desc, got=abs(t), ref=abs(tt))
                # zero-thickness layer at a non-final position
                p = int(rng.integers(0, L))
                nz = float(rng.uniform(max(1.0, nmin), 4)) + (1j * float(rng.uniform(0, 0.5)) if absorb else 0)
                st0 = st[:p] + [(nz, 0.0)] + st[p:]
                r0, t0 = tf.multilayer_stack_rt(st0, wl, pol, aoi=aoi, ambient_index=n0)
                ctx.observe('stack.zero-thickness')
                if not (abs(complex(r0) - r) <= TOL and abs(complex(t0) - t) <= TOL * max(1.0, abs(t))):
                    ctx.violation(f'C17/stack/{pol}/zero-thickness-layer/{ac}',
                                  f'{pol}: a zero-thickness layer at a non-final position changes r or t', desc,
                                  position=p, n_inserted=nz, r=[r, complex(r0)], t=[t, complex(t0)])
                # half-wave absentee layer (lossless) at a non-final position
                nh = float(rng.uniform(max(1.0, nmin), 4))
                ch = math.sqrt(1 - (n0 * math.sin(th0) / nh) ** 2)
                dh = wl / (2 * nh * ch) * int(rng.integers(1, 3))
                st1 = st[:p] + [(nh, dh)] + st[p:]
                r1, t1 = tf.multilayer_stack_rt(st1, wl, pol, aoi=aoi, ambient_index=n0)
                ctx.observe('stack.half-wave')
                if not (abs(abs(r1) - abs(r)) <= TOL and abs(abs(t1) - abs(t)) <= TOL * max(1.0, abs(t))):
                    ctx.violation(f'C17/stack/{pol}/half-wave-layer/{ac}',
                                  f'{pol}: a half-wave (absentee) layer changes |r| or |t|', desc,
                                  position=p, n_inserted=nh, d_inserted=dh, r=[abs(r), abs(r1)], t=[abs(t), abs(t1)])

    # --- C. batched == loop -----------------------------------------------------------------------------------
    trails = [((), '0d'), ((1,), '1d-len1'), ((3,), '1d'), ((1, 1), '2d-1x1'), ((2, 3), '2d'), ((3, 1), '2d'), ((1, 4), '2d'),
              ((2, 1, 3), '3d'), ((2, 2, 2), '3d')]
    if not ctx.quick:
        trails += [((17,), '1d'), ((5, 4), '2d'), ((3, 2, 4), '3d'), ((2, 1, 2, 2), '4d')]
    combos = []
    for trail, tcls in trails:
        for L in (1, 2, 3, 5):
            for cplx in (False, True):
                for ob in (False, True):
                    combos.append((trail, tcls, L, cplx, ob))
    reps = ctx.pick(2, 12)
    k = -1
    for rep in range(reps):
        for trail, tcls, L, cplx, ob in combos:
            k += 1
            if not ctx.mine(k):
                continue
            sub = ctx.subseed(rng)
            g = np.random.default_rng(sub)
            n0 = 1.0 if g.random() < 0.5 else float(g.uniform(1, 1.4))
            n = g.uniform(1.45, 4, (L,) + trail)
            d = g.uniform(0, 2, (L,) + trail)
            d[g.random(d.shape) < 0.1] = 0.0
            if cplx:
                n = n + 1j * g.uniform(0, 0.4, n.shape)
                n[-1] = n[-1].real
            aoi = float(g.uniform(1, 89.5)) if ob else 0.0
            wl = float(g.uniform(0.3, 1.5))
            stack = np.stack([n, d.astype(n.dtype)], axis=1)
            for pol in 'sp':
                desc = {'wl': 'batched', 'trail': list(trail), 'layers': L, 'complex': cplx, 'aoi': aoi, 'n0': n0, 'wavelength': wl,
                        'pol': pol, 'subseed': sub, 'class': f'batched:{tcls}:{"complex" if cplx else "real"}:{aoi_class(aoi)}'}
                ctx.case(desc)
                key = f'C17/batched/{pol}/{tcls}/{aoi_class(aoi)}'
                with ctx.guard(key, desc):
                    r, t = tf.multilayer_stack_rt(stack, wl, pol, aoi=aoi, ambient_index=n0)
                    r, t = np.asarray(r), np.asarray(t)
                    rl = np.empty(trail, dtype=complex)
                    tl = np.empty(trail, dtype=complex)
                    for ix in np.ndindex(*trail):
                        s = [(n[(l,) + ix], d[(l,) + ix]) for l in range(L)]
                        a, b = tf.multilayer_stack_rt(s, wl, pol, aoi=aoi, ambient_index=n0)
                        rl[ix], tl[ix] = complex(a), complex(b)
                    ok = ctx.close('batched.eq-loop', r, rl, key, f'batched r != per-element loop ({tcls}, {pol})', desc,
                                   rtol=1e-11, scale=1.0)
                    if ok:
                        ctx.close('batched.eq-loop', t, tl, key, f'batched t != per-element loop ({tcls}, {pol})', desc,
                                  rtol=1e-11, scale=max(1.0, float(np.max(np.abs(tl)))))

    # critical_angle: exercised for reach only, never asserted (argument order ambiguous)
    if ctx.shard == 0:
        with quiet(), np.errstate(all='ignore'):
            ctx.note('critical_angle_observed_not_asserted', {'critical_angle(1.0, 1.5)': float(tf.critical_angle(1.0, 1.5)),
                                                              'critical_angle(1.5, 1.0)': float(tf.critical_angle(1.5, 1.0)),
                                                              'rad(1.0, 1.5)': float(tf.critical_angle(1.0, 1.5, deg=False))})


def replay(ctx, rec):
    run(ctx)
