"""C17 — thin-film and Fresnel coefficients conserve energy and agree with each other.

Monitors
  contracts on the real functions (every call is seen, also the ones prysm makes internally):
      snell_aor              post: n0 sin(theta0) == n1 sin(theta1)                      (complex-safe)
      multilayer_stack_rt    post: R + T == 1 for a lossless stack, R + T <= 1 when inner layers absorb, with
                                   T = Re(n_exit cos(theta_exit)) / (n0 cos(theta0)) |t|^2; evaluated element-wise
                                   for batched stacks; calls outside the stated domain (total internal reflection
                                   somewhere in the stack, absorbing exit medium, gain) are skipped *and counted*
  law monitors driven by the workload:
      single-interface       Fresnel pair energy r^2 + (n1 c1 / n0 c0) t^2 == 1 (s and p); one-entry stack == Fresnel
                             functions (r incl. sign, |t|); r_p(theta_B) == 0 with a sign change across theta_B and
                             brewsters_angle == atan(n1/n0).  A failing case is attributed to the function(s) that
                             deviate from the textbook formula (reference used for attribution only).
      stack.airy-reference   r and |t| of 1..L layer stacks == independent Airy/Rouard interface recursion
                             (vp/refmodels/thinfilm_ref.py); r_p is accepted in either sign convention
      stack.zero-thickness   inserting a zero-thickness layer at a non-final position changes neither r nor t
      stack.half-wave        inserting d = lambda / (2 n cos(theta_layer)) leaves |r| and |t| unchanged
      batched.eq-loop        stack arrays of shape (L, 2, *trail) == the per-element loop, normal and oblique incidence
      stack.unit-invariance  class G: every thickness and the wavelength expressed in another length unit (factor 1e-12 .. 1e12, random
                             mantissa) leave r and t (complex) unchanged and equal to the Airy recursion; scalar and batched calls
      stack.special-values   class H: layers of index exactly 1 (first / inner / all inner / exit) with ambient 1 and ambient != 1, a layer at the
                             ambient index, equal neighbours (== merged layer), thickness exactly 0 (first / all / exit), exact quarter / half
                             wave, aoi exactly 0 / 45 / 89.999 (int and float), polarisation in either letter case; batched stacks with
                             index-1 / zero-thickness entries in only some elements
      stack.frustrated-tir   regime: dense ambient, steep angle, evanescent inner layer(s), propagating exit medium: R + T == 1, == Airy recursion,
                             zero-thickness insertion (low / high index), partly-evanescent batches == loop
      batched.sizes          class I: every batch size 1 .. 8 (thorough 16) x every layer count 1 .. 8, 1-D and (B,1) / (1,B) / (B,B) batches
      forms.*                class E (argument-form equivalence): integer-valued stacks handed over as python ints in tuples /
                             lists, int8..int64 / uint8 ndarrays, float32, complex, object and mixed containers, wavelength /
                             angle / ambient index as python int / float / numpy scalars / 0-d arrays, upper-case polarisation,
                             keyword vs positional, omitted vs explicit defaults after calls with other explicit values, integer
                             batches of size 1, 2, 3 -- each judged against the Airy reference AND against the same call with the
                             canonical forms (float64 ndarray, python floats); Fresnel functions with integer indices.  The
                             accepted forms are the table FORMS_* below (fixed from the tree as it is now).
"""
import math

import numpy as np

from ..contracts import attach, detach_all, quiet
from ..refmodels import thinfilm_ref as R
from ..util import precision

RULE = ('a single-precision warm-up first (config.precision = 32 and float32 stack arrays: single interfaces, thin stacks against '
        'the Airy reference, energy, batched == loop, at single-precision tolerances), then everything else in double at full '
        'tolerance (so a cache keyed without the precision would poison it); single interfaces: a grid of (n0, n1) pairs x angle '
        'classes enumerated first, then random, arguments as python floats / numpy.float64 / 0-d arrays / int ambient; stacks: '
        'every layer count 1..20 (thorough 1..40) enumerated first then random, real indices in [1, 4] (absorbing class: inner '
        'layers + i*[0, 0.5]), thickness 0..5 wavelengths incl. exact zeros, aoi 0 / oblique up to 89.5 deg or 0.5 deg below the '
        'smallest critical angle of the stack, ambient 1 or 1..1.7, list-of-tuples / float64 ndarray / complex ndarray / '
        'Fortran-ordered ndarray containers; batched: every trailing-shape class (0-d, 1-d incl. length 1, 2-d, 3-d, 4-d) x '
        'layers {1,2,3,5,8,13,20} x real/complex x normal/oblique x pol x C / Fortran / broadcast (non-contiguous) memory; '
        'histories: ONE stack array object evaluated repeatedly while exactly one of ambient index / angle / wavelength / '
        'polarisation changes, repeated, edited in place, passed inside a batch and again alone, each call judged against the '
        'Airy reference; ARGUMENT FORMS (class E): integer-valued stacks of 1..6 layers in every accepted container / dtype kind '
        '(python ints in tuples and lists, int16/32/64 and uint8 ndarrays, Fortran order, mixed int/float, float32, complex64/128), '
        'wavelength / angle / ambient index as python int / float / numpy scalars / 0-d arrays, upper-case polarisation, positional / '
        'keyword / re-ordered keyword calls, aoi and ambient_index omitted vs passed as their documented defaults after calls with other '
        'explicit values, the same argument objects twice, all-integer calls; x normal / oblique incidence x both polarisations; '
        'integer batches of size 1, 2, 3; Fresnel / Snell / Brewster functions with integer indices; UNITS (class G): stacks of 1..20 layers with '
        'all thicknesses and the wavelength multiplied by 1e-12..1e12 x random mantissa; SPECIAL VALUES (class H): 12 kinds of coincidence (index '
        'exactly 1 / equal to the ambient / equal neighbours / thickness exactly 0 / exact quarter and half wave / matched exit) x ambient {1.0, 1, 1.2, '
        '1.33, 1.5} x aoi {0, 0.0, 45, 45.0, 89.999, 30.0, 60, 89.0} (kept 1 deg inside the critical angle when a layer is below the ambient index) x '
        'letter case of the polarisation x list / ndarray / Fortran containers; BATCH SIZES (class I): batch 1..8 (thorough 16) x layers 1..8; FRUSTRATED TIR (regime): ambient 1.3..2, '
        'aoi 35..86 deg, 2..6 entries with >= 1 inner layer below n0 sin(aoi) (attenuation exponent <= 4), exit medium above it, scalar and partly-evanescent batches.  A case is non-trivial unless both '
        'media of a single interface are equal; distinct = distinct descriptor (all numeric parameters)')
ASSUMPTIONS = ['the last stack entry is the exit medium (documented usage); its thickness only adds a phase to t',
               'total internal reflection of a stack is decided by the exit medium alone: an evanescent INNER layer (index below n0 sin(aoi)) with a '
               'propagating lossless exit medium is inside the domain (R + T = 1); indices within 0.03 of n0 sin(aoi) and gaps with attenuation exponent > 4 are not driven',
               'power transmittance into a lossless exit medium is Re(n_e cos th_e)/(n0 cos th0) |t|^2 for both polarisations',
               'absorbing media are n + i k with k >= 0 (BYU / e^{-i w t} convention used by the module); absorbing exit media, '
               'gain media and angles at or beyond any critical angle of the stack are outside the stated domain',
               'critical_angle() is not asserted (argument order ambiguous in its docstring); the monitor uses its own asin(n1/n0)',
               'the sign of r_p is a convention: agreement between stack and Fresnel functions is required, the textbook '
               'reference is only used to name the deviating function; phase of t is not compared',
               'single precision (config.precision = 32 or float32 / complex64 stack arrays): energy to 5e-3, one-entry stack vs '
               'Fresnel and thin (<= 4 layers, <= 0.5 wavelengths each) stacks vs the Airy reference to 1e-3, batched vs loop to 1e-4 '
               '(measured round-off 2.4e-6, 1.7e-7, 5.1e-7, 0); thick or deep single-precision stacks are only held to the energy law',
               'double precision: 1e-10 up to 8 layers, 1e-9 for 9..40 layers (measured <= 8.7e-13 against the Airy recursion)',
               'grazing propagation (cos(theta) < 1e-3 in the ambient or in a layer, i.e. aoi 89.999 deg): the degrees -> sin -> arcsin -> cos chain is '
               'ill-conditioned like 1 / cos^2; the Airy comparison of the special-value cases uses TOL x (1e-3 / cos)^2 there (measured <= 2.2e-10 at '
               'cos = 1.7e-5, allowed 3.4e-7; r moves by 3e-4 between 89.99 and 89.999 deg) and the cases are counted as an event; the energy contract '
               'keeps its full tolerance',
               'argument forms: the forms in STACK_FORMS / SCALAR_FORMS are the ones the current tree accepts and treats as the same '
               'input (established by running every combination against the Airy recursion); float16 and object arrays and a '
               'numpy.float32 angle are not forms of the same double-precision input and are outside the workload']
REQUIRED = ['snell_aor.law', 'stack.energy-lossless', 'stack.energy-absorbing', 'fresnel.energy', 'stack-vs-fresnel.r',
            'stack-vs-fresnel.t', 'brewster.rp-zero', 'brewster.sign-change', 'brewster.angle', 'stack.airy-reference',
            'stack.zero-thickness', 'stack.half-wave', 'batched.eq-loop',
            'precision32.single-interface', 'precision32.airy-reference', 'precision32.batched-eq-loop', 'precision32.energy',
            'history.airy-reference', 'history.repeat', 'stack.argument-untouched', 'stack.deep',
            'forms.stack', 'forms.scalars', 'forms.call', 'forms.eq-canonical', 'forms.batched', 'forms.fresnel',
            'stack.unit-invariance', 'stack.special-values', 'batched.sizes', 'stack.frustrated-tir']

CTX = None
TOL = 1e-10          # observed round-off on the pinned tree: <= 1e-13 (stack vs Airy), <= 4e-15 (energy)
TOL_DEEP = 1e-9      # 9..40 layers: observed <= 8.7e-13
LOW_ENERGY = 5e-3    # single precision: observed <= 2.4e-6
LOW_AIRY = 1e-3      # single precision, thin stacks / single interfaces: observed <= 5.1e-7
LOW_BATCH = 1e-4     # single precision, batched vs loop: observed 0
TIR_MARGIN = math.radians(0.25)


def _is32():
    from prysm.conf import config
    return config.precision is np.float32


def tol_layers(L):
    return TOL if L <= 8 else TOL_DEEP


def _low(arr=None):
    """single precision legitimately in the chain: the configuration, or float32 / complex64 stack data"""
    dt = getattr(arr, 'dtype', None)
    return _is32() or (dt is not None and dt.kind in 'fc' and dt.itemsize <= (4 if dt.kind == 'f' else 8))


def attenuation(n, d, wavelength, n0, th0):
    """Total amplitude attenuation exponent sum_j 2 pi / lambda * Im(sqrt(n_j^2 - (n0 sin th0)^2)) * d_j over the inner
    layers (arrays of shape (L, ...)); the characteristic-matrix entries grow like exp(+that), so beyond a fraction of
    log(max float) the transfer-matrix formulation overflows: an opaque stack, outside what the monitor can decide."""
    n = np.asarray(n, dtype=complex)
    d = np.real(np.asarray(d, dtype=complex))
    if n.shape[0] < 2:
        return np.zeros(n.shape[1:])
    q = np.sqrt(n[:-1] ** 2 - (n0 * math.sin(th0)) ** 2)
    return (2 * np.pi / float(wavelength) * np.abs(np.imag(q)) * d[:-1]).sum(axis=0)


def attenuation_bound(low):
    return 0.4 * float(np.log(np.finfo(np.float32 if low else np.float64).max))      # 35 / 284


def attribute(base, arr, reproduces_in_default):
    """Key of a failure seen in single precision: `base` when the same call with float64 / complex128 data under
    precision 64 fails too (it is then not a precision effect; `reproduces_in_default()` re-runs it, only on failures),
    else `base` + the configuration label."""
    sfx = cfg_sfx(arr)
    if not sfx:
        return base
    try:
        with quiet():
            if reproduces_in_default():
                return base
    except Exception:  # noqa
        pass
    return base + sfx


def as_double(arr):
    a = np.asarray(arr)
    return a.astype(complex if a.dtype.kind == 'c' else float)


def cfg_sfx(arr=None):
    parts = []
    if _is32():
        parts.append('precision32')
    dt = getattr(arr, 'dtype', None)
    if dt is not None and dt.kind in 'fc' and dt.itemsize <= (4 if dt.kind == 'f' else 8):
        parts.append('float32-stack')
    return ('/' + '+'.join(parts)) if parts else ''


def aoi_class(aoi):
    return 'normal' if aoi == 0 else 'oblique'


# ------------------------------------------------------------------------------------------ contracts
def post_snell(token, args, kwargs, result):
    names = ['n0', 'n1', 'theta', 'degrees']
    a = dict(zip(names, args))
    a.update(kwargs)
    th = a['theta']
    if a.get('degrees', True):
        th = np.radians(th)
    lhs = np.asarray(a['n0'] * np.sin(th))
    rhs = np.asarray(a['n1'] * np.sin(result))
    CTX.observe('snell_aor.law')
    scale = float(np.max(np.abs(lhs))) if lhs.size else 0.0
    err = float(np.max(np.abs(lhs - rhs))) if np.broadcast(lhs, rhs).size else 0.0
    def single(v):
        dt = getattr(v, 'dtype', None)
        return dt is not None and dt.kind in 'fc' and dt.itemsize <= (4 if dt.kind == 'f' else 8)
    low = single(result) or single(a['n0']) or single(a['n1']) or single(a['theta'])      # a float32 operand rounds n0/n1
    if not (err <= (1e-4 if low else 1e-12) * max(scale, 1.0)):
        CTX.violation('C17/snell_aor/law', 'snell_aor: n0 sin(theta0) != n1 sin(theta1)',
                      {'n0': a['n0'], 'n1': np.asarray(a['n1']), 'theta_rad': th, 'class': 'contract'}, err=err)


def post_stack(token, args, kwargs, result):
    names = ['stack', 'wavelength', 'polarization', 'aoi', 'ambient_index']
    a = dict(zip(names, args))
    a.update(kwargs)
    pol = str(a['polarization']).lower()
    aoi = float(a.get('aoi', 0))
    n0 = a.get('ambient_index', 1)
    if pol not in ('s', 'p') or isinstance(n0, complex) or not (0 <= aoi < 90):
        CTX.skip('energy-contract: outside domain (polarisation / complex ambient / aoi)')
        return
    n0 = float(n0)
    st = np.asarray(a['stack'])
    if st.ndim < 2 or st.shape[1] != 2:
        return
    L = st.shape[0]
    n = st[:, 0, ...].reshape(L, -1)
    if np.asarray(result[0]).size != n.shape[1]:
        return   # shape faults are reported by the batched monitor
    th0 = math.radians(aoi)
    s0 = n0 * math.sin(th0)
    nre, nim = np.real(n), np.imag(n)
    with np.errstate(all='ignore'):
        lim = np.sin(np.arcsin(np.clip(nre.min(axis=0) / n0, None, 1.0)) - TIR_MARGIN) * n0   # n0 sin(theta_c - margin)
        tir = (nre.min(axis=0) < n0) & (s0 > lim)
        bad_exit = nim[-1] != 0
        gain = (nim < 0).any(axis=0)
        opaque = attenuation(n, st[:, 1, ...].reshape(L, -1), a['wavelength'], n0, th0) > attenuation_bound(_low(st))
        out = tir | bad_exit | gain | opaque
        lossless = (nim == 0).all(axis=0) & ~out
        absorbing = ~lossless & ~out
        ne = nre[-1]
        ce = np.sqrt(np.clip(1 - (s0 / ne) ** 2, 0, None))

    def totals(res):
        r_ = np.asarray(res[0]).reshape(-1)
        t_ = np.asarray(res[1]).reshape(-1)
        with np.errstate(all='ignore'):
            return np.abs(r_) ** 2 + ne * ce / (n0 * math.cos(th0)) * np.abs(t_) ** 2, r_, t_

    def bad(tot_, etol_):
        b1 = lossless.any() and not np.all(np.abs(tot_[lossless] - 1) <= etol_)        # NaN fails too
        b2 = absorbing.any() and (not np.all(tot_[absorbing] <= 1 + etol_) or not np.all(tot_[absorbing] >= 0))
        return bool(b1), bool(b2)

    tot, r, t = totals(result)
    if out.any():
        if opaque.any():
            CTX.skip('energy-contract: opaque stack (attenuation beyond the floating-point range of the matrix method)', int(opaque.sum()))
        if (out & ~opaque).any():
            CTX.skip('energy-contract: outside domain (TIR / absorbing exit / gain)', int((out & ~opaque).sum()))
    batched = 'batched' if st.ndim > 2 else 'scalar'
    low = _low(st)
    etol = LOW_ENERGY if low else tol_layers(L)
    desc = {'fn': 'multilayer_stack_rt', 'pol': pol, 'aoi': aoi, 'n0': n0, 'wavelength': a['wavelength'], 'layers': L,
            'stack': st if st.size <= 32 else {'shape': list(st.shape)}, 'dtype': str(st.dtype), 'precision': 32 if _is32() else 64,
            'class': 'contract'}

    def default_fails(which):
        from prysm import thinfilm
        with precision(64):
            res2 = thinfilm.multilayer_stack_rt(as_double(st), a['wavelength'], pol, aoi=aoi, ambient_index=n0)    # bypasses the monitors
        return bad(totals(res2)[0], tol_layers(L))[which]

    if low:
        CTX.observe('precision32.energy', int((lossless | absorbing).sum()))
    b_lossless, b_absorbing = bad(tot, etol)
    if lossless.any():
        CTX.observe('stack.energy-lossless', int(lossless.sum()))
        if b_lossless:
            CTX.violation(attribute(f'C17/stack/{pol}/energy-lossless/{aoi_class(aoi)}', st, lambda: default_fails(0)),
                          f'lossless stack, {pol}-polarisation: R + T != 1 ({batched} call)', desc,
                          R_plus_T=tot[lossless][:4], r=r[:4], t=t[:4])
    if absorbing.any():
        CTX.observe('stack.energy-absorbing', int(absorbing.sum()))
        if b_absorbing:
            CTX.violation(attribute(f'C17/stack/{pol}/energy-absorbing/{aoi_class(aoi)}', st, lambda: default_fails(1)),
                          f'absorbing stack, {pol}-polarisation: R + T > 1 ({batched} call)', desc, R_plus_T=tot[absorbing][:4])


def install_monitors(ctx):
    global CTX
    CTX = ctx
    install()


def install():
    from prysm import thinfilm
    attach(thinfilm, 'snell_aor', post=post_snell)
    attach(thinfilm, 'multilayer_stack_rt', post=post_stack)


# ------------------------------------------------------------------------------------------ single interface
def as_num(v, kind):
    """the same number in another container (python float, numpy.float64 scalar, 0-d array, python int when integral)"""
    if kind == 'np64':
        return np.float64(v)
    if kind == '0d':
        return np.array(float(v))
    if kind == 'int' and float(v) == int(v):
        return int(v)
    return float(v)


def single_interface(ctx, tf, n0, n1, aoi, d, wl, desc, array_theta=False, num='py'):
    """All single-interface laws for one (n0, n1, aoi[deg]); at most one violation per polarisation, keyed by the
    function(s) that deviate from the textbook formula."""
    th0 = math.radians(aoi)
    # containers handed to prysm (the laws themselves are evaluated with plain python floats); the ambient index is
    # documented as a float: python float / numpy.float64 / python int only
    n0c = as_num(n0, {'np64': 'np64', '0d': 'np64', 'int-ambient': 'int'}.get(num, 'py'))
    n1c = as_num(n1, {'np64': 'np64', '0d': '0d', 'int-ambient': 'np64'}.get(num, 'py'))
    with ctx.guard('C17/single-interface', desc):
        th1 = tf.snell_aor(n0c, n1c, aoi)
        th1 = float(np.real(th1))
        if array_theta:
            a0 = np.array([th0, th0, 0.5 * th0])
            a1 = np.array([th1, th1, float(np.real(tf.snell_aor(n0c, n1c, 0.5 * aoi)))])
            pick = lambda v: float(np.asarray(v)[1])   # noqa: E731
        else:
            a0, a1 = th0, th1
            pick = float
        got = {'fresnel_rs': pick(tf.fresnel_rs(n0c, n1c, a0, a1)), 'fresnel_ts': pick(tf.fresnel_ts(n0c, n1c, a0, a1)),
               'fresnel_rp': pick(tf.fresnel_rp(n0c, n1c, a0, a1)), 'fresnel_tp': pick(tf.fresnel_tp(n0c, n1c, a0, a1))}
        c0, c1 = math.cos(th0), math.sqrt(max(0.0, 1 - (n0 * math.sin(th0) / n1) ** 2))
        fac = n1 * c1 / (n0 * c0)
        thB_deg = float(tf.brewsters_angle(n0c, n1c))
        thB_rad = float(tf.brewsters_angle(n0c, n1c, deg=False))
        for pol in 'sp':
            fr, ft = got['fresnel_r' + pol], got['fresnel_t' + pol]
            sr, stt = tf.multilayer_stack_rt([(n1c, d)], wl, pol, aoi=aoi, ambient_index=n0c)
            sr, stt = complex(sr), complex(stt)
            failed = []
            ctx.observe('fresnel.energy')
            if not abs(fr ** 2 + fac * ft ** 2 - 1) <= TOL:
                failed.append('fresnel-energy')
            ctx.observe('stack-vs-fresnel.r')
            if not abs(sr - fr) <= TOL:
                failed.append('stack-r!=fresnel-r')
            ctx.observe('stack-vs-fresnel.t')
            if not abs(abs(stt) - abs(ft)) <= TOL * max(1.0, abs(ft)):
                failed.append('|stack-t|!=|fresnel-t|')
            ref_r, ref_t = R.interface(pol, n0, c0, n1, c1)
            dev = {'fresnel_r' + pol: abs(fr - ref_r), 'fresnel_t' + pol: abs(ft - ref_t),
                   'stack_r': abs(sr - ref_r), 'stack_t': abs(abs(stt) - abs(ref_t))}
            if pol == 'p' and n0 != n1:
                # Brewster: r_p vanishes there and changes sign across it; the angle is atan(n1/n0)
                ctx.observe('brewster.angle')
                refB = R.brewster(n0, n1)
                if not (abs(thB_rad - refB) <= 1e-12 and abs(math.radians(thB_deg) - refB) <= 1e-12):
                    failed.append('brewster-angle')
                    dev['brewsters_angle'] = abs(thB_rad - refB) + abs(math.radians(thB_deg) - refB)
                tB1 = float(np.real(tf.snell_aor(n0c, n1c, refB, degrees=False)))
                ctx.observe('brewster.rp-zero')
                rB = float(tf.fresnel_rp(n0c, n1c, refB, tB1))
                if not abs(rB) <= TOL:
                    failed.append('rp(brewster)!=0')
                    dev['fresnel_rp'] = max(dev['fresnel_rp'], abs(rB))
                crit = R.critical(n0, n1)
                delta = math.radians(1.0)
                hi = refB + delta
                if hi < math.radians(89.9) and (crit is None or hi < crit - math.radians(0.1)):
                    ctx.observe('brewster.sign-change')
                    lo = refB - delta
                    rl = float(tf.fresnel_rp(n0c, n1c, lo, float(np.real(tf.snell_aor(n0c, n1c, lo, degrees=False)))))
                    rh = float(tf.fresnel_rp(n0c, n1c, hi, float(np.real(tf.snell_aor(n0c, n1c, hi, degrees=False)))))
                    if not rl * rh < 0:
                        failed.append('rp-no-sign-change-at-brewster')
                        dev['fresnel_rp'] = max(dev['fresnel_rp'], 1.0)
                else:
                    ctx.skip('brewster sign change: theta_B + 1 deg is beyond 89.9 deg or the critical angle')
            if failed:
                culprits = sorted(k for k, v in dev.items() if not v <= TOL)
                ctx.violation(f'C17/single-interface/{pol}/' + ('+'.join(culprits) if culprits else 'undiagnosed'),
                              f'single interface, {pol}-polarisation: ' + ', '.join(failed) +
                              ' (deviating from the textbook formula: ' + (', '.join(culprits) or 'none') + ')',
                              desc, failed=failed, fresnel_r=fr, fresnel_t=ft, stack_r=sr, stack_t_abs=abs(stt),
                              textbook_r=ref_r, textbook_t=ref_t, energy=fr ** 2 + fac * ft ** 2)


def max_aoi(n0, nmin, rng_top=89.5):
    if nmin < n0:
        return min(rng_top, math.degrees(math.asin(nmin / n0)) - 0.5)
    return rng_top


# ------------------------------------------------------------------------------------------ workload
def run(ctx):
    global CTX
    CTX = ctx
    from prysm.conf import config
    old = 32 if config.precision is np.float32 else 64
    install()
    try:
        _run(ctx)
    finally:
        config.precision = old
        detach_all()


def random_stack(rng, L, absorb, wl, thin=False, nlo=1.0, kscale=None):
    st = []
    kscale = min(1.0, 6.0 / L) if kscale is None else kscale       # deep absorbing stacks: total attenuation stays representable
    for l in range(L):
        n = float(rng.uniform(nlo, 4))
        if absorb and l < L - 1:
            n = n + 1j * float(rng.uniform(0, 0.5)) * kscale
        if thin:
            d = float(rng.uniform(0, 0.5)) * wl
        else:
            d = 0.0 if rng.random() < 0.1 else float(rng.uniform(0, 5)) * wl
        st.append((n, d))
    return st


def as_container(st, container):
    """The stack in the container class of the case (all documented forms)."""
    if container == 'list':
        return st
    cplx = any(isinstance(n, complex) for n, _ in st)
    arr = np.asarray(st, dtype=complex if cplx else float)
    if container == 'complex-ndarray':
        return arr.astype(complex)
    if container == 'fortran-ndarray':
        return np.asfortranarray(arr)
    if container == 'strided-ndarray':
        big = np.zeros((arr.shape[0] * 2, 4), dtype=arr.dtype)
        v = big[::2, 1:3]
        v[...] = arr
        return v
    return arr


def judge_stack(ctx, tf, desc, st, arg, wl, pol, aoi, n0, keyf, mon='stack.airy-reference', low=False, tol=None):
    """One call of multilayer_stack_rt against the Airy recursion.  Returns (r, t) or None."""
    L = len(st)
    tol = tol if tol is not None else (LOW_AIRY if low else tol_layers(L))
    att = float(attenuation(np.array([n for n, _ in st]), np.array([d for _, d in st]), wl, n0, math.radians(aoi)))
    if att > attenuation_bound(low or _low(arg if isinstance(arg, np.ndarray) else None)):
        ctx.skip('stack: opaque (attenuation beyond the floating-point range of the matrix method)')
        return None
    r, t = tf.multilayer_stack_rt(arg, wl, pol, aoi=aoi, ambient_index=n0)     # energy: contract
    r, t = complex(r), complex(t)
    rr, tt = R.stack_rt(st, wl, pol, math.radians(aoi), n0)
    ctx.observe(mon)
    ac = aoi_class(aoi)
    er = min(abs(r - rr), abs(r + rr)) if pol == 'p' else abs(r - rr)
    if not er <= tol:
        ctx.violation(keyf(f'C17/stack/{pol}/ne-airy-reference/r/{ac}'), f'{pol}: r of the stack differs from the Airy recursion',
                      desc, got=r, ref=rr, layers=L)
    elif not abs(abs(t) - abs(tt)) <= tol * max(1.0, abs(tt)):
        ctx.violation(keyf(f'C17/stack/{pol}/ne-airy-reference/t/{ac}'), f'{pol}: |t| of the stack differs from the Airy recursion',
                      desc, got=abs(t), ref=abs(tt), layers=L)
    return r, t


def _run(ctx):
    from prysm import thinfilm as tf
    rng = ctx.rng('c17')
    warmup32(ctx, tf)              # class C: single precision first, then everything below in double at full tolerance
    singles(ctx, tf, rng)
    stacks(ctx, tf, rng)
    batched(ctx, tf, rng)
    histories(ctx, tf)
    unit_scales(ctx, tf)           # class G: thickness / wavelength rescaled together
    specials(ctx, tf)              # class H: index exactly 1, thickness exactly 0, exact angles, letter case
    batch_sizes(ctx, tf)           # class I: every batch size x layer count
    frustrated(ctx, tf)            # regime (pass 5): evanescent inner layer, propagating exit medium
    forms(ctx, tf)

    # critical_angle: exercised for reach only, never asserted (argument order ambiguous)
    if ctx.shard == 0:
        with quiet(), np.errstate(all='ignore'):
            ctx.note('critical_angle_observed_not_asserted', {'critical_angle(1.0, 1.5)': float(tf.critical_angle(1.0, 1.5)),
                                                              'critical_angle(1.5, 1.0)': float(tf.critical_angle(1.5, 1.0)),
                                                              'rad(1.0, 1.5)': float(tf.critical_angle(1.0, 1.5, deg=False))})


# --- 0. single-precision warm-up ----------------------------------------------------------------------------------
def warmup32(ctx, tf):
    """config.precision = 32 (and float32 / complex64 stack arrays under either configuration) for every routine the
    double-precision workloads use afterwards.  Laws at single-precision tolerances; thick / deep stacks only through the
    energy contract."""
    rng = ctx.rng('c17-p32')
    # single interfaces: one-entry stack == textbook Fresnel
    for _ in range(ctx.share(ctx.pick(240, 4000))):
        n0 = 1.0 if rng.random() < 0.4 else float(rng.uniform(1, 1.7))
        n1 = float(rng.uniform(1, 4))
        aoi = 0.0 if rng.random() < 0.2 else float(rng.uniform(0, max_aoi(n0, n1)))
        th0 = math.radians(aoi)
        c0, c1 = math.cos(th0), math.sqrt(max(0.0, 1 - (n0 * math.sin(th0) / n1) ** 2))
        desc = {'wl': 'p32-single-interface', 'n0': n0, 'n1': n1, 'aoi': aoi, 'precision': 32,
                'class': f'p32:iface:{"external" if n0 < n1 else "internal"}:{aoi_class(aoi)}'}
        ctx.case(desc, nontrivial=n0 != n1)
        with precision(32), ctx.guard('C17/single-interface/precision32', desc):
            for pol in 'sp':
                sr, stt = tf.multilayer_stack_rt([(n1, float(rng.uniform(0, 3)))], 0.5, pol, aoi=aoi, ambient_index=n0)
                rr, tt = R.interface(pol, n0, c0, n1, c1)
                ctx.observe('precision32.single-interface')
                if not (abs(complex(sr) - rr) <= LOW_AIRY and abs(abs(complex(stt)) - abs(tt)) <= LOW_AIRY * max(1.0, abs(tt))):
                    def dflt(pol=pol, rr=rr, tt=tt):
                        with precision(64):
                            a_, b_ = tf.multilayer_stack_rt([(n1, 1.0)], 0.5, pol, aoi=aoi, ambient_index=n0)
                        return not (abs(complex(a_) - rr) <= TOL and abs(abs(complex(b_)) - abs(tt)) <= TOL * max(1.0, abs(tt)))
                    ctx.violation(attribute(f'C17/single-interface/{pol}/stack_r+stack_t', None, dflt), f'single interface, {pol}: one-entry stack differs from '
                                  'the textbook Fresnel coefficients beyond single-precision round-off', desc, r=[complex(sr), rr], t=[abs(complex(stt)), abs(tt)])
    # thin stacks against the Airy reference in the four (array dtype, precision) combinations; thick / deep ones: energy only
    cfgs = [('float64', 32), ('float32', 32), ('float32', 64)]
    for it in range(ctx.share(ctx.pick(480, 8000))):
        dt, prec = cfgs[it % 3]
        thin = it % 4 != 3
        L = 1 + it % 4 if thin else int(rng.integers(1, 21))
        absorb = L > 1 and rng.random() < 0.25
        n0 = 1.0 if rng.random() < 0.5 else float(rng.uniform(1, 1.5))
        wl = float(rng.uniform(0.3, 1.5))
        st = random_stack(rng, L, absorb, wl, thin=thin, nlo=1.45 if thin else 1.0, kscale=min(1.0, 1.5 / L))
        arr = np.asarray(st, dtype=(np.complex64 if dt == 'float32' else complex) if absorb else dt)
        st = [((complex(a) if absorb else float(np.real(a))), float(np.real(b))) for a, b in arr]      # the values the library sees
        nmin = min(np.real(n) for n, _ in st)
        aoi = 0.0 if rng.random() < 0.2 else float(rng.uniform(0, min(80.0, max_aoi(n0, nmin))))
        desc = {'wl': 'p32-stack', 'stack': [[n, d] for n, d in st], 'n0': n0, 'aoi': aoi, 'wavelength': wl, 'dtype': str(arr.dtype),
                'precision': prec, 'thin': thin, 'class': f'p32:stack:{"thin" if thin else "thick"}:L{L}:{arr.dtype}/p{prec}'}
        ctx.case(desc)
        with precision(prec):
            for pol in 'sp':
                with ctx.guard(f'C17/stack/{pol}/precision32', desc):
                    if thin:
                        def dflt(pol=pol):
                            with precision(64):
                                a_, b_ = tf.multilayer_stack_rt(as_double(arr), wl, pol, aoi=aoi, ambient_index=n0)
                            rr, tt = R.stack_rt(st, wl, pol, math.radians(aoi), n0)
                            er = min(abs(complex(a_) - rr), abs(complex(a_) + rr)) if pol == 'p' else abs(complex(a_) - rr)
                            return not (er <= TOL and abs(abs(complex(b_)) - abs(tt)) <= TOL * max(1.0, abs(tt)))
                        judge_stack(ctx, tf, desc, st, arr, wl, pol, aoi, n0, lambda k: attribute(k, arr, dflt), mon='precision32.airy-reference', low=True)
                    else:
                        tf.multilayer_stack_rt(arr, wl, pol, aoi=aoi, ambient_index=n0)        # the energy contract decides
    # batched == loop in single precision
    for it in range(ctx.share(ctx.pick(48, 800))):
        g = np.random.default_rng(ctx.subseed(rng))
        L = int(g.integers(1, 8))
        trail = [(3,), (2, 3), (1,), (2, 1, 2)][it % 4]
        dt, prec = cfgs[it % 3]
        n = g.uniform(1.45, 4, (L,) + trail)
        d = g.uniform(0, 2, (L,) + trail)
        aoi = float(g.uniform(1, 85)) if it % 2 else 0.0
        n0 = 1.0 if g.random() < 0.5 else float(g.uniform(1, 1.4))
        stack = np.stack([n, d], axis=1).astype(dt)
        desc = {'wl': 'p32-batched', 'trail': list(trail), 'layers': L, 'aoi': aoi, 'n0': n0, 'dtype': dt, 'precision': prec,
                'class': f'p32:batched:{len(trail)}d:{dt}/p{prec}'}
        ctx.case(desc)
        with precision(prec):
            for pol in 'sp':
                def dflt(pol=pol):
                    with precision(64):
                        s64 = as_double(stack)
                        r_, t_ = tf.multilayer_stack_rt(s64, 0.7, pol, aoi=aoi, ambient_index=n0)
                        for ix in np.ndindex(*trail):
                            a_, b_ = tf.multilayer_stack_rt([(s64[(l, 0) + ix], s64[(l, 1) + ix]) for l in range(L)], 0.7, pol, aoi=aoi, ambient_index=n0)
                            if not (abs(complex(np.asarray(r_)[ix]) - complex(a_)) <= 1e-10 and
                                    abs(complex(np.asarray(t_)[ix]) - complex(b_)) <= 1e-10 * max(1.0, abs(complex(b_)))):
                                return True
                    return False
                tcls = {1: '1d', 2: '2d', 3: '3d'}[len(trail)] if trail != (1,) else '1d-len1'
                base = f'C17/batched/{pol}/{tcls}/{aoi_class(aoi)}'
                key = base if base in ctx.violations else base + cfg_sfx(stack)
                with ctx.guard(key, desc):
                    r, t = tf.multilayer_stack_rt(stack, 0.7, pol, aoi=aoi, ambient_index=n0)
                    rl = np.empty(trail, dtype=complex)
                    tl = np.empty(trail, dtype=complex)
                    for ix in np.ndindex(*trail):
                        s = np.asarray([(stack[(l, 0) + ix], stack[(l, 1) + ix]) for l in range(L)], dtype=dt)
                        a, b = tf.multilayer_stack_rt(s, 0.7, pol, aoi=aoi, ambient_index=n0)
                        rl[ix], tl[ix] = complex(a), complex(b)
                    ctx.observe('precision32.batched-eq-loop')
                    okr = np.asarray(r).shape == rl.shape and np.all(np.abs(np.asarray(r) - rl) <= LOW_BATCH)
                    okt = okr and np.all(np.abs(np.asarray(t) - tl) <= LOW_BATCH * max(1.0, float(np.max(np.abs(tl)))))
                    if not (okr and okt):
                        ctx.violation(attribute(base, stack, dflt), f'batched {"t" if okr else "r"} != per-element loop ({pol}, single precision)', desc)


# --- A. single interfaces: enumerated grid first (smallest / simplest first), then random --------------------------
def singles(ctx, tf, rng):
    idx = [1.5, 1.0, 1.33, 2.0, 4.0, 1.7]
    nums = ['py', 'np64', '0d', 'int-ambient']
    k = -1
    for n0 in [1.0, 1.5, 1.33, 1.7]:
        for n1 in idx:
            amax = max_aoi(n0, n1)
            for cls, aoi in (('normal', 0.0), ('oblique', 30.0), ('oblique', 0.5 * amax), ('near-limit', amax),
                             ('brewster', math.degrees(math.atan(n1 / n0)))):
                k += 1
                if not ctx.mine(k):
                    continue
                if aoi > amax:
                    ctx.skip('single interface: angle beyond the critical angle margin')
                    continue
                kind = 'matched' if n0 == n1 else ('external' if n0 < n1 else 'internal')
                arr = (k % 3 == 2)
                num = nums[(k // 3) % 4]
                desc = {'wl': 'single-interface', 'n0': n0, 'n1': n1, 'aoi': aoi, 'd': 0.0, 'wavelength': 0.5, 'array_theta': arr, 'numbers': num,
                        'class': f'iface:{kind}:{cls}' + (':array-theta' if arr else '') + (f':{num}' if num != 'py' else '')}
                ctx.case(desc, nontrivial=(n0 != n1))
                single_interface(ctx, tf, n0, n1, aoi, 0.0, 0.5, desc, array_theta=arr, num=num)
    for _ in range(ctx.share(ctx.pick(1500, 40000))):
        n0 = 1.0 if rng.random() < 0.4 else float(rng.uniform(1, 1.7))
        n1 = float(rng.uniform(1, 4))
        amax = max_aoi(n0, n1)
        u = rng.random()
        cls, aoi = ('normal', 0.0) if u < 0.15 else ('grazing', float(rng.uniform(min(80.0, amax), amax))) if u < 0.3 \
            else ('oblique', float(rng.uniform(0, amax)))
        kind = 'external' if n0 < n1 else 'internal'
        arr = rng.random() < 0.2
        num = nums[int(rng.integers(4))] if rng.random() < 0.3 else 'py'
        desc = {'wl': 'single-interface', 'n0': n0, 'n1': n1, 'aoi': aoi, 'd': float(rng.uniform(0, 3)),
                'wavelength': float(rng.uniform(0.2, 2.0)), 'array_theta': arr, 'numbers': num,
                'class': f'iface:{kind}:{cls}' + (':array-theta' if arr else '') + (f':{num}' if num != 'py' else '')}
        ctx.case(desc)
        single_interface(ctx, tf, n0, n1, aoi, desc['d'], desc['wavelength'], desc, array_theta=arr, num=num)


# --- B. stacks: energy (contract), Airy reference, zero-thickness and half-wave insertions ---------------------------
CONTAINERS = ['list', 'ndarray', 'complex-ndarray', 'fortran-ndarray', 'strided-ndarray']


def stacks(ctx, tf, rng):
    Lmax = ctx.pick(20, 40)
    nst = ctx.share(ctx.pick(3000, 220000))
    for it in range(nst):
        # every layer count 1..Lmax first (twice: lossless and with absorbing inner layers), then random with a tail of deep stacks
        if it < 2 * Lmax:
            L = 1 + (it + ctx.shard) % Lmax
        else:
            L = int(rng.integers(1, 9)) if rng.random() < 0.6 else int(rng.integers(9, Lmax + 1))
        n0 = 1.0 if rng.random() < 0.5 else float(rng.uniform(1, 1.7))
        absorb = L > 1 and (rng.random() < 0.3 if it >= 2 * Lmax else it >= Lmax)
        wl = float(rng.uniform(0.2, 2.0))
        st = random_stack(rng, L, absorb, wl)
        nmin = min(np.real(n) for n, _ in st)
        amax = max_aoi(n0, nmin)
        u = rng.random()
        aoi = 0.0 if u < 0.2 else float(rng.uniform(0, amax)) if u < 0.9 else float(rng.uniform(min(80.0, amax), amax))
        container = CONTAINERS[int(rng.integers(len(CONTAINERS)))]
        kind = 'absorbing' if absorb else 'lossless'
        desc = {'wl': 'stack', 'stack': [[n, d] for n, d in st] if L <= 8 else {'layers': L, 'first': [list(st[0]), list(st[1])]},
                'layers': L, 'n0': n0, 'aoi': aoi, 'wavelength': wl, 'container': container, 'it': it,
                'class': f'stack:{kind}:L{L}:{aoi_class(aoi)}'}
        ctx.case(desc)
        arg = as_container(st, container)
        keep = None if container == 'list' else np.array(arg, copy=True)
        th0 = math.radians(aoi)
        TL = tol_layers(L)
        if L > 8:
            ctx.observe('stack.deep')
        for pol in 'sp':
            ac = aoi_class(aoi)
            with ctx.guard(f'C17/stack/{pol}', desc):
                res = judge_stack(ctx, tf, desc, st, arg, wl, pol, aoi, n0, lambda k: k)
                if res is None:
                    continue
                r, t = res
                if keep is not None:
                    # class A: the caller's array is re-used for the second polarisation and must still hold the stack
                    ctx.require('stack.argument-untouched', np.array_equal(arg, keep), 'C17/stack/argument-mutated',
                                'multilayer_stack_rt modified the stack array it was given', desc)
                # zero-thickness layer at a non-final position
                p = int(rng.integers(0, L))
                nz = float(rng.uniform(max(1.0, nmin), 4)) + (1j * float(rng.uniform(0, 0.5)) if absorb else 0)
                st0 = st[:p] + [(nz, 0.0)] + st[p:]
                r0, t0 = tf.multilayer_stack_rt(st0, wl, pol, aoi=aoi, ambient_index=n0)
                ctx.observe('stack.zero-thickness')
                if not (abs(complex(r0) - r) <= TL and abs(complex(t0) - t) <= TL * max(1.0, abs(t))):
                    ctx.violation(f'C17/stack/{pol}/zero-thickness-layer/{ac}',
                                  f'{pol}: a zero-thickness layer at a non-final position changes r or t', desc,
                                  position=p, n_inserted=nz, r=[r, complex(r0)], t=[t, complex(t0)])
                # half-wave absentee layer (lossless) at a non-final position
                nh = float(rng.uniform(max(1.0, nmin), 4))
                ch = math.sqrt(1 - (n0 * math.sin(th0) / nh) ** 2)
                dh = wl / (2 * nh * ch) * int(rng.integers(1, 3))
                st1 = st[:p] + [(nh, dh)] + st[p:]
                r1, t1 = tf.multilayer_stack_rt(st1, wl, pol, aoi=aoi, ambient_index=n0)
                ctx.observe('stack.half-wave')
                if not (abs(abs(r1) - abs(r)) <= TL and abs(abs(t1) - abs(t)) <= TL * max(1.0, abs(t))):
                    ctx.violation(f'C17/stack/{pol}/half-wave-layer/{ac}',
                                  f'{pol}: a half-wave (absentee) layer changes |r| or |t|', desc,
                                  position=p, n_inserted=nh, d_inserted=dh, r=[abs(r), abs(r1)], t=[abs(t), abs(t1)])
    ctx.note('stacks', f'every layer count 1..{Lmax} enumerated (lossless and absorbing), then random with 40% deep (9..{Lmax}) stacks')


# --- C. batched == loop -------------------------------------------------------------------------------------------------
def batched(ctx, tf, rng):
    # batch sizes 1, 2, 3 are a standing class: a (2, 2, 2) stack array (two layers, batch of two) is ambiguous with 2x2 matrices
    trails = [((), '0d'), ((1,), '1d-len1'), ((2,), '1d-len2'), ((3,), '1d'), ((1, 1), '2d-1x1'), ((2, 2), '2d-2x2'), ((2, 3), '2d'), ((3, 1), '2d'),
              ((1, 4), '2d'), ((2, 1, 3), '3d'), ((2, 2, 2), '3d'), ((2, 1, 2, 2), '4d')]
    if not ctx.quick:
        trails += [((17,), '1d'), ((64,), '1d'), ((5, 4), '2d'), ((16, 9), '2d'), ((3, 2, 4), '3d'), ((4, 3, 5), '3d'), ((2, 3, 1, 2), '4d'),
                   ((2, 1, 2, 1, 3), '5d')]
    combos = []
    for trail, tcls in trails:
        for L in ((1, 2, 3, 5, 8, 13, 20) if len(trail) <= 2 else (1, 2, 5, 13)):
            for cplx in (False, True):
                for ob in (False, True):
                    combos.append((trail, tcls, L, cplx, ob))
    reps = ctx.pick(2, 16)
    k = -1
    for rep in range(reps):
        for trail, tcls, L, cplx, ob in combos:
            k += 1
            if not ctx.mine(k):
                continue
            sub = ctx.subseed(rng)
            g = np.random.default_rng(sub)
            n0 = 1.0 if g.random() < 0.5 else float(g.uniform(1, 1.4))
            vary = ['both', 'both', 'thickness-only', 'index-only'][k % 4]        # batches in which only one quantity varies
            n = g.uniform(1.45, 4, (L,) + trail)
            d = g.uniform(0, 2, (L,) + trail)
            if vary == 'thickness-only':
                n = np.broadcast_to(n[(slice(None),) + (0,) * len(trail)].reshape((L,) + (1,) * len(trail)), (L,) + trail).copy()
            if vary == 'index-only':
                d = np.broadcast_to(d[(slice(None),) + (0,) * len(trail)].reshape((L,) + (1,) * len(trail)), (L,) + trail).copy()
            d[g.random(d.shape) < 0.1] = 0.0
            if cplx:
                n = n + 1j * g.uniform(0, 0.4, n.shape)
                n[-1] = n[-1].real
            aoi = float(g.uniform(1, 89.5)) if ob else 0.0
            wl = float(g.uniform(0.3, 1.5))
            stack = np.stack([n, d.astype(n.dtype)], axis=1)
            layout = ['C', 'F', 'C', 'moved'][(k // 4) % 4]
            if layout == 'F':
                stack = np.asfortranarray(stack)
            elif layout == 'moved' and stack.ndim > 2:
                stack = np.moveaxis(np.ascontiguousarray(np.moveaxis(stack, -1, 0)), 0, -1)      # same values, non-contiguous view
            keep = np.array(stack, copy=True)
            for pol in 'sp':
                desc = {'wl': 'batched', 'trail': list(trail), 'layers': L, 'complex': cplx, 'aoi': aoi, 'n0': n0, 'wavelength': wl,
                        'pol': pol, 'subseed': sub, 'varies': vary, 'layout': layout,
                        'class': f'batched:{tcls}:{"complex" if cplx else "real"}:{aoi_class(aoi)}'}
                ctx.case(desc)
                key = f'C17/batched/{pol}/{tcls}/{aoi_class(aoi)}'
                with ctx.guard(key, desc):
                    r, t = tf.multilayer_stack_rt(stack, wl, pol, aoi=aoi, ambient_index=n0)
                    r, t = np.asarray(r), np.asarray(t)
                    rl = np.empty(trail, dtype=complex)
                    tl = np.empty(trail, dtype=complex)
                    for ix in np.ndindex(*trail):
                        s = [(n[(l,) + ix], d[(l,) + ix]) for l in range(L)]
                        a, b = tf.multilayer_stack_rt(s, wl, pol, aoi=aoi, ambient_index=n0)
                        rl[ix], tl[ix] = complex(a), complex(b)
                    rt_ = 1e-11 if L <= 8 else 1e-10
                    ok = ctx.close('batched.eq-loop', r, rl, key, f'batched r != per-element loop ({tcls}, {pol})', desc,
                                   rtol=rt_, scale=1.0)
                    if ok:
                        ctx.close('batched.eq-loop', t, tl, key, f'batched t != per-element loop ({tcls}, {pol})', desc,
                                  rtol=rt_, scale=max(1.0, float(np.max(np.abs(tl)))))
                    ctx.require('stack.argument-untouched', np.array_equal(stack, keep), 'C17/stack/argument-mutated',
                                'multilayer_stack_rt modified the stack array it was given', desc)


# --- D. histories: one stack object, one thing changes per call -------------------------------------------------------------
def histories(ctx, tf):
    """Class B / A: the SAME stack array object is evaluated again and again while exactly one of ambient index, angle,
    wavelength, polarisation changes, while nothing changes (repeat), after it was edited in place, and after it travelled
    inside a batched call.  Every call is judged against the Airy recursion (a process-independent reference); a failure
    that the plain stack workload already showed in this process keeps the plain key."""
    rng = ctx.rng('c17-history')
    nh = ctx.pick(120, 4000)
    for h in range(nh):
        if not ctx.mine(h):
            continue
        g = np.random.default_rng(ctx.subseed(rng))
        L = [1, 2, 3, 5, 8, 12, 20][h % 7]
        absorb = L > 1 and h % 3 == 2
        wls = [float(g.uniform(0.4, 0.7)), float(g.uniform(0.8, 1.6))]
        st = random_stack(g, L, absorb, wls[0], nlo=1.3)
        arr = np.asarray(st, dtype=complex if absorb else float)
        n0s = [1.0, float(g.uniform(1.05, 1.3))]
        nmin = min(np.real(n) for n, _ in st)
        amax = min(max_aoi(n0s[0], nmin), max_aoi(n0s[1], nmin), 85.0)
        aois = [float(g.uniform(5, amax)), float(g.uniform(5, amax)), 0.0]
        state = {'n0': 0, 'aoi': 0, 'wl': 0, 'pol': 's'}
        script = ['first', 'ambient', 'repeat', 'aoi', 'wavelength', 'pol', 'ambient', 'aoi', 'in-place-edit', 'repeat', 'after-batched',
                  'aoi', 'ambient', 'wavelength', 'pol', 'repeat']
        if h >= 14:
            script = ['first'] + [script[1 + int(i)] for i in g.integers(0, len(script) - 1, ctx.pick(12, 40))]
        last = None
        first_fail = [None]
        for si, what in enumerate(script):
            if what == 'ambient':
                state['n0'] = 1 - state['n0']
            elif what == 'aoi':
                state['aoi'] = (state['aoi'] + 1 + int(g.integers(0, 2))) % 3
            elif what == 'wavelength':
                state['wl'] = 1 - state['wl']
            elif what == 'pol':
                state['pol'] = 'p' if state['pol'] == 's' else 's'
            elif what == 'in-place-edit':
                # same object, new content (a memo keyed on the object would now be stale)
                j = int(g.integers(0, L))
                arr[j, 1] = float(g.uniform(0, 3)) * wls[0]
                if j < L - 1 or not absorb:
                    arr[j, 0] = float(g.uniform(1.3, 4)) + (1j * float(g.uniform(0, 0.5)) if absorb and j < L - 1 else 0)
                nmin_new = float(np.min(np.real(arr[:, 0])))
                if nmin_new < nmin:
                    arr[j, 0] = nmin + (arr[j, 0] - np.real(arr[j, 0]))
            elif what == 'after-batched':
                # the same layers travel through the batched code path (as one element of a batch), then alone again
                other = np.stack([arr, arr * 1.0], axis=-1)
                other[:, 1, 1] *= 0.5
                with ctx.guard('C17/history/batched', {'class': 'history'}):
                    tf.multilayer_stack_rt(other, wls[state['wl']], state['pol'], aoi=aois[state['aoi']], ambient_index=n0s[state['n0']])
            n0, aoi, wl, pol = n0s[state['n0']], aois[state['aoi']], wls[state['wl']], state['pol']
            cur = [((complex(a) if absorb else float(np.real(a))), float(np.real(b))) for a, b in arr]
            desc = {'wl': 'history', 'history': h, 'step': si, 'changed': what, 'layers': L, 'absorbing': absorb, 'n0': n0, 'aoi': aoi, 'wavelength': wl,
                    'pol': pol, 'stack': [[n, d] for n, d in cur] if L <= 5 else {'layers': L}, 'script': script[:si + 1][-6:],
                    'class': f'history:{what}:L{L}:{"absorbing" if absorb else "lossless"}'}
            ctx.case(desc)

            def keyf(k, what=what):
                if k in ctx.violations:
                    return k
                first_fail[0] = first_fail[0] or what
                return k.replace('/ne-airy-reference/', f'/history:{first_fail[0]}/ne-airy-reference/')
            keep = np.array(arr, copy=True)
            with ctx.guard(f'C17/stack/{pol}/history', desc):
                res = judge_stack(ctx, tf, desc, cur, arr, wl, pol, aoi, n0, keyf, mon='history.airy-reference')
                ctx.require('stack.argument-untouched', np.array_equal(arr, keep), 'C17/stack/argument-mutated',
                            'multilayer_stack_rt modified the stack array it was given', desc)
                if what == 'repeat' and last is not None and res is not None:
                    ctx.observe('history.repeat')
                    if not (res[0] == last[0] and res[1] == last[1]):
                        ctx.violation(f'C17/stack/{pol}/history:repeat-call-differs', 'the same call with the same argument objects returns a different '
                                      'result the second time', desc, first=list(last), second=list(res))
                last = res
    ctx.note('histories', f'{nh} histories on one stack array object each (layers 1..20), one quantity changed per call')


# --- F. hardening pass 3: unit rescaling (G), special values (H), batch sizes (I) -----------------------------------------------
UNIT_DECADES = [1e-12, 1e-9, 1e-6, 1e-3, 1e3, 1e6, 1e9, 1e12]


def regime(k):
    return 'tiny' if k < 1e-2 else 'huge' if k > 1e2 else 'unit'


def _special_key(ctx, key, part):
    """`key` when the plain workloads already showed it in this process (the defect is not specific), else `key` with the class
    label of the sweep (`scale:...` / `special:...` / `size:...`) in front of the symptom."""
    if key in ctx.violations or not part:
        return key
    for marker in ('/ne-airy-reference/', '/energy-'):
        if marker in key:
            return key.replace(marker, f'/{part}{marker}', 1)
    return key + '/' + part


def unit_scales(ctx, tf):
    """Class G.  Only the ratio thickness / wavelength enters the coefficients: the same stack with every thickness and the
    wavelength expressed in another unit (factor 1e-12 .. 1e12, mantissa random -- metres instead of microns, nanometres, ...)
    must return the same r and t (complex, to round-off) and still equal the Airy recursion; lossless and absorbing, 1..20
    layers, normal / oblique, list / ndarray / complex ndarray containers, scalar and batched calls."""
    rng = ctx.rng('c17-units')
    nc = ctx.share(ctx.pick(360, 80000))
    for it in range(nc):
        g = np.random.default_rng(ctx.subseed(rng))
        L = 1 + it % 8 if it % 5 else int(g.integers(9, 21))
        absorb = L > 1 and it % 3 == 2
        wl = float(g.uniform(0.3, 1.5))
        st = random_stack(g, L, absorb, wl)
        if it % 7 == 0:
            st[int(g.integers(L))] = (st[0][0], 0.0)            # an exactly-zero thickness stays exactly zero in every unit
        n0 = 1.0 if g.random() < 0.5 else float(g.uniform(1, 1.7))
        nmin = min(np.real(n) for n, _ in st)
        amax = max_aoi(n0, nmin)
        aoi = 0.0 if it % 4 == 0 else float(g.uniform(0, amax))
        k = UNIT_DECADES[(it // 2) % len(UNIT_DECADES)] * float(g.uniform(1, 9.99))
        reg = regime(k)
        container = CONTAINERS[it % 3]
        stk = [(n, d * k) for n, d in st]
        wlk = wl * k
        batched_call = it % 4 == 3
        desc = {'wl': 'unit-scale', 'layers': L, 'absorbing': absorb, 'n0': n0, 'aoi': aoi, 'wavelength': wl, 'unit_factor': k, 'container': container,
                'batched': batched_call, 'stack': [[n, d] for n, d in st] if L <= 6 else {'layers': L},
                'class': f'scale:units-{reg}:L{L}:{"absorbing" if absorb else "lossless"}:{aoi_class(aoi)}' + (':batched' if batched_call else '')}
        ctx.case(desc)
        ac = aoi_class(aoi)
        TL = tol_layers(L)
        for pol in 'sp':
            with ctx.guard(f'C17/stack/{pol}/scale:units-{reg}', desc):
                if batched_call:
                    # batch of three: the stack in the original unit, in the other unit is a separate call (the wavelength is a scalar)
                    arr = np.asarray(st, dtype=complex if absorb else float)
                    b0 = np.stack([arr, arr, arr], axis=-1)
                    b0[:, 1, 1] *= 0.5
                    bk = b0.copy()
                    bk[:, 1, :] *= k
                    r0, t0 = tf.multilayer_stack_rt(b0, wl, pol, aoi=aoi, ambient_index=n0)
                    r1, t1 = tf.multilayer_stack_rt(bk, wlk, pol, aoi=aoi, ambient_index=n0)
                    r0, t0, r1, t1 = (np.asarray(v) for v in (r0, t0, r1, t1))
                else:
                    res = judge_stack(ctx, tf, desc, st, as_container(st, container), wl, pol, aoi, n0, lambda key: key)
                    if res is None:
                        continue
                    res1 = judge_stack(ctx, tf, dict(desc, unit='rescaled'), stk, as_container(stk, container), wlk, pol, aoi, n0,
                                       lambda key: _special_key(ctx, key, f'scale:units-{reg}'))
                    r0, t0 = (np.asarray(v) for v in res)
                    r1, t1 = (np.asarray(v) for v in res1)
                ctx.observe('stack.unit-invariance')
                ok = r0.shape == r1.shape and bool(np.all(np.abs(r1 - r0) <= TL)) and bool(np.all(np.abs(t1 - t0) <= TL * max(1.0, float(np.max(np.abs(t0))))))
                if not ok:
                    ctx.violation(f'C17/stack/{pol}/scale:units-{reg}/rt-depend-on-length-unit/{ac}', f'{pol}: r or t changes when every thickness and the '
                                  'wavelength are expressed in another length unit (same ratios)', desc, r=[np.ravel(r0)[0], np.ravel(r1)[0]],
                                  t=[np.ravel(t0)[0], np.ravel(t1)[0]])
    ctx.note('unit_scales', {'factors': UNIT_DECADES, 'cases': nc})


SPECIAL_AOI = [0, 0.0, 45, 45.0, 89.999, 30.0, 60, 89.0]
POL_CASES = {'s': ['s', 'S'], 'p': ['p', 'P']}


def specials(ctx, tf):
    """Class H.  Stacks at the values where a shortcut is tempting: a layer whose index is exactly 1 (first / inner / exit medium)
    with ambient 1 and with ambient != 1 at oblique incidence, a layer whose index equals the ambient index exactly, two adjacent
    layers with exactly the same index (must equal the merged layer), thickness exactly 0 (one layer, every layer, the exit
    medium), exact quarter- and half-wave layers, angles exactly 0 / 45 / 89.999 deg as python int and float, the polarisation in
    either letter case -- scalar and batched calls, each judged against the Airy recursion and the energy contract."""
    rng = ctx.rng('c17-special')
    kinds = ['index-1-first', 'index-1-inner', 'index-1-exit', 'index-1-all-inner', 'index=ambient', 'equal-neighbours', 'all-thickness-0',
             'first-thickness-0', 'exit-thickness-0', 'quarter-wave', 'half-wave', 'matched-exit']
    ambients = [1.0, 1, 1.2, 1.33, 1.5]
    k = -1
    for rep in range(ctx.pick(2, 240)):
        for kind in kinds:
            for n0 in ambients:
                for ai, aoi in enumerate(SPECIAL_AOI):
                    k += 1
                    if not ctx.mine(k):
                        continue
                    g = np.random.default_rng(ctx.subseed(rng))
                    L = [2, 3, 4, 6][(k // 3) % 4] if rep else [2, 3][k % 2]
                    wl = 1.0 if k % 3 == 0 else float(g.uniform(0.4, 1.6))
                    nlo = max(float(n0), 1.0) if aoi > 40 else 1.0          # steep angles: no layer below the ambient index (no critical angle)
                    st = [(float(g.uniform(max(nlo, 1.3), 4)), float(g.uniform(0.05, 2.0)) * wl) for _ in range(L)]
                    one = [1, 1.0][k % 2]
                    if kind == 'index-1-first':
                        st[0] = (one, st[0][1])
                    elif kind == 'index-1-inner':
                        st[min(1, L - 2)] = (one, st[1][1])
                    elif kind == 'index-1-exit':
                        st[-1] = (one, st[-1][1])
                    elif kind == 'index-1-all-inner':
                        st = [(one, d) for _, d in st[:-1]] + [st[-1]]
                    elif kind == 'index=ambient':
                        st[int(g.integers(0, L))] = (float(n0), st[0][1])
                    elif kind == 'equal-neighbours':
                        j = int(g.integers(0, L - 1))
                        st[j + 1] = (st[j][0], st[j + 1][1])
                    elif kind == 'all-thickness-0':
                        st = [(n, [0, 0.0][k % 2]) for n, _ in st]
                    elif kind == 'first-thickness-0':
                        st[0] = (st[0][0], 0)
                    elif kind == 'exit-thickness-0':
                        st[-1] = (st[-1][0], 0.0)
                    elif kind in ('quarter-wave', 'half-wave'):
                        # exactly representable: n = 2, optical thickness exactly lambda / 4 (lambda / 2) at normal incidence
                        st[0] = (2.0, wl / (8.0 if kind == 'quarter-wave' else 4.0))
                    elif kind == 'matched-exit':
                        st[-1] = (float(n0), st[-1][1])
                    nmin = min(float(np.real(n)) for n, _ in st)
                    has_one = kind.startswith('index-1')
                    a_eff = float(aoi)
                    if nmin < float(n0):
                        # a layer below the ambient index: stay 1 deg (at least) inside the critical angle
                        a_eff = min(a_eff, math.degrees(math.asin(nmin / float(n0))) - 1.0)
                        a_arg = a_eff
                    else:
                        a_arg = aoi                                         # the exact python int / float of the table
                    stf = [(float(n), float(d)) for n, d in st]
                    polform = k % 2
                    container = ['list', 'ndarray', 'fortran-ndarray'][(k // 2) % 3]
                    arg = st if container == 'list' else as_container(stf, container)
                    spec = 'index=1' if has_one else {'index=ambient': 'index=ambient', 'matched-exit': 'index=ambient', 'equal-neighbours': 'equal-neighbours',
                                                      'all-thickness-0': 'thickness=0', 'first-thickness-0': 'thickness=0', 'exit-thickness-0': 'thickness=0',
                                                      'quarter-wave': 'exact-quarter-or-half-wave', 'half-wave': 'exact-quarter-or-half-wave'}[kind]
                    if has_one and float(n0) != 1.0:
                        spec = 'index=1+ambient!=1'
                    if a_eff > 89.9:
                        spec = 'aoi=89.999'                                 # grazing incidence is the rarer coincidence: it names the case
                    desc = {'wl': 'special', 'kind': kind, 'n0': n0, 'n0_type': type(n0).__name__, 'aoi': a_arg, 'aoi_type': type(a_arg).__name__, 'wavelength': wl,
                            'stack': [[n, d] for n, d in st], 'container': container, 'class': f'special:{kind}:ambient={"1" if float(n0) == 1 else "not-1"}:aoi={aoi}'}
                    ctx.case(desc)
                    for pol in 'sp':
                        parg = POL_CASES[pol][polform]
                        part = f'special:{spec}'
                        with ctx.guard(f'C17/stack/{pol}/special:{spec}', desc):
                            att = 0.0
                            r, t = tf.multilayer_stack_rt(arg, wl, parg, aoi=a_arg, ambient_index=n0)          # energy: contract
                            r, t = complex(r), complex(t)
                            rr, tt = R.stack_rt(stf, wl, pol, math.radians(a_eff), float(n0))
                            ctx.observe('stack.special-values')
                            ac = aoi_class(a_eff)
                            er = min(abs(r - rr), abs(r + rr)) if pol == 'p' else abs(r - rr)
                            # grazing propagation in the ambient or inside a layer (cos(theta) < 1e-3: aoi 89.999 deg): the degrees -> radians ->
                            # sin -> arcsin -> cos chain is ill-conditioned like 1 / cos^2 -- tolerance widened accordingly (measured 1.3e-10 with a
                            # layer at the ambient index, 2.2e-10 with a layer 1 % above it, at cos = 1.7e-5; allowed 3.4e-7; r moves by 3e-4
                            # between 89.99 and 89.999 deg, so a clamp or a shortcut to r = -1 is still seen) and counted
                            cmin = min([math.cos(math.radians(a_eff))] +
                                       [math.sqrt(max(1e-300, 1 - (float(n0) * math.sin(math.radians(a_eff)) / n_) ** 2)) for n_, _ in stf])
                            TS = TOL * max(1.0, (1e-3 / cmin) ** 2)
                            if cmin < 1e-3:
                                ctx.event('special: grazing propagation inside a layer, Airy comparison at the widened tolerance')
                            bad = None
                            if not er <= TS:
                                bad = 'r'
                            elif not abs(abs(t) - abs(tt)) <= TS * max(1.0, abs(tt)):
                                bad = 't'
                            if bad:
                                key = f'C17/stack/{pol}/ne-airy-reference/{bad}/{ac}'
                                if polform and key not in ctx.violations:
                                    # upper-case polarisation: is it the letter case?  (same call in lower case)
                                    with quiet():
                                        r_l, t_l = tf.multilayer_stack_rt(arg, wl, pol, aoi=a_arg, ambient_index=n0)
                                    er_l = min(abs(complex(r_l) - rr), abs(complex(r_l) + rr)) if pol == 'p' else abs(complex(r_l) - rr)
                                    if er_l <= TS and abs(abs(complex(t_l)) - abs(tt)) <= TS * max(1.0, abs(tt)):
                                        key, part = 'C17/stack/form:polarization=upper-case', ''
                                ctx.violation(_special_key(ctx, key, part), f'{pol}: {bad} of a stack at a special value ({kind}, ambient {n0}, aoi {a_arg}) differs '
                                              'from the Airy recursion', desc, got=[r, abs(t)], ref=[rr, abs(tt)])
                                continue
                            if kind == 'equal-neighbours':
                                merged = stf[:j] + [(stf[j][0], stf[j][1] + stf[j + 1][1])] + stf[j + 2:]
                                if j + 1 == L - 1:
                                    merged = stf[:j] + [(stf[j][0], stf[j + 1][1])]          # merged into the exit medium: its own thickness drops out of |t|
                                r2, t2 = tf.multilayer_stack_rt(merged, wl, pol, aoi=a_arg, ambient_index=n0)
                                ctx.require('stack.special-values', abs(complex(r2) - r) <= TS and abs(abs(complex(t2)) - abs(t)) <= TS * max(1.0, abs(t)),
                                            f'C17/stack/{pol}/special:equal-neighbours/not-merged-layer/{ac}',
                                            'two adjacent layers of exactly the same index do not act as one layer of the summed thickness', desc)
    # batched stacks at special values: index-1 layers in SOME elements of the batch, zero thickness in some, both letter cases
    kb = -1
    for rep in range(ctx.pick(3, 400)):
        for n0 in (1.0, 1.33):
            for aoi in (0.0, 35.0):
                for B in (1, 2, 3, 5):
                    kb += 1
                    if not ctx.mine(kb):
                        continue
                    g = np.random.default_rng(ctx.subseed(rng))
                    L = int(g.integers(1, 6))
                    n = g.uniform(1.4, 4, (L, B))
                    d = g.uniform(0, 2, (L, B))
                    mask1 = g.random((L, B)) < 0.35
                    n[mask1] = 1.0                                     # exactly 1 in some elements only
                    d[g.random((L, B)) < 0.3] = 0.0
                    if kb % 3 == 0:
                        n[:, 0] = 1.0                                  # one element: every layer (and the exit medium) is vacuum
                    stack = np.stack([n, d], axis=1)
                    desc = {'wl': 'special-batched', 'batch': B, 'layers': L, 'n0': n0, 'aoi': aoi, 'stack': stack.tolist() if stack.size <= 40 else {'shape': list(stack.shape)},
                            'class': f'special:batched:index=1-in-some-elements:B{B}:{aoi_class(aoi)}:ambient={"1" if n0 == 1 else "not-1"}'}
                    ctx.case(desc)
                    for pol in 'sp':
                        parg = POL_CASES[pol][(kb // 2) % 2]
                        spec = 'index=1+ambient!=1' if n0 != 1.0 else 'index=1'
                        with ctx.guard(f'C17/batched/{pol}/special:{spec}', desc):
                            r, t = tf.multilayer_stack_rt(stack, 0.8, parg, aoi=aoi, ambient_index=n0)
                            r, t = np.asarray(r), np.asarray(t)
                            ctx.observe('stack.special-values')
                            ok = r.shape == (B,) and t.shape == (B,)
                            for b_ in range(B if ok else 0):
                                rr, tt = R.stack_rt([(float(n[l, b_]), float(d[l, b_])) for l in range(L)], 0.8, pol, math.radians(aoi), n0)
                                er = min(abs(r[b_] - rr), abs(r[b_] + rr)) if pol == 'p' else abs(r[b_] - rr)
                                ok = ok and bool(er <= TOL) and bool(abs(abs(t[b_]) - abs(tt)) <= TOL * max(1.0, abs(tt)))
                            if not ok:
                                key = f'C17/batched/{pol}/special:{spec}/ne-airy-reference/{aoi_class(aoi)}'
                                prior = [k_ for k_ in ctx.violations if k_.startswith(f'C17/batched/{pol}/') and k_.endswith('/' + aoi_class(aoi))
                                         and '/special:' not in k_]
                                if prior:
                                    key = prior[0]          # the plain batched workload already showed it: not specific to the special values
                                elif parg != pol:
                                    # upper-case polarisation: the same call in lower case decides whether the letter case is the mechanism
                                    with quiet():
                                        rl_, tl_ = (np.asarray(v) for v in tf.multilayer_stack_rt(stack, 0.8, pol, aoi=aoi, ambient_index=n0))
                                    okl = rl_.shape == (B,)
                                    for b_ in range(B if okl else 0):
                                        rr, tt = R.stack_rt([(float(n[l, b_]), float(d[l, b_])) for l in range(L)], 0.8, pol, math.radians(aoi), n0)
                                        er = min(abs(rl_[b_] - rr), abs(rl_[b_] + rr)) if pol == 'p' else abs(rl_[b_] - rr)
                                        okl = okl and bool(er <= TOL) and bool(abs(abs(tl_[b_]) - abs(tt)) <= TOL * max(1.0, abs(tt)))
                                    if okl:
                                        key = 'C17/stack/form:polarization=upper-case'
                                ctx.violation(key, 'batched stack with layers of index exactly 1 / '
                                              'thickness exactly 0 in some elements differs from the Airy recursion', desc, got_shape=list(r.shape))
    ctx.note('specials', {'kinds': kinds, 'ambient': [str(a) for a in ambients], 'aoi': [str(a) for a in SPECIAL_AOI]})


def batch_sizes(ctx, tf):
    """Class I.  Every batch size 1 .. 8 (thorough 1 .. 16) x every layer count 1 .. 8 -- in particular batch == layers and
    batch == 2 (a (2, 2, 2) stack array is ambiguous with 2 x 2 matrices) -- as 1-D batches and as (B, 1) / (1, B) / (B, B)
    2-D batches, real and absorbing, normal and oblique: the batched call == the per-element loop == the Airy recursion."""
    rng = ctx.rng('c17-batch-sizes')
    Bmax = ctx.pick(8, 16)
    k = -1
    for rep in range(ctx.pick(1, 24)):
        for L in range(1, 9):
            for B in range(1, Bmax + 1):
                for ob in (False, True):
                    k += 1
                    if not ctx.mine(k):
                        continue
                    g = np.random.default_rng(ctx.subseed(rng))
                    trail = [(B,), (B,), (B, 1), (1, B), (B,), (B, B) if B <= 4 else (B,)][(k // 2 + rep) % 6]
                    cplx = (L + B + rep) % 3 == 0
                    n = g.uniform(1.45, 4, (L,) + trail)
                    d = g.uniform(0, 2, (L,) + trail)
                    d[g.random(d.shape) < 0.1] = 0.0
                    if cplx:
                        n = n + 1j * g.uniform(0, 0.4, n.shape)
                        n[-1] = n[-1].real
                    n0 = 1.0 if g.random() < 0.5 else float(g.uniform(1, 1.4))
                    aoi = float(g.uniform(1, 89)) if ob else 0.0
                    wl = float(g.uniform(0.3, 1.5))
                    stack = np.stack([n, d.astype(n.dtype)], axis=1)
                    if len(trail) == 1:
                        tcls = {1: '1d-len1', 2: '1d-len2'}.get(B, 'size:batch=layers' if B == L else '1d')
                    else:
                        tcls = '2d-1x1' if trail == (1, 1) else '2d-2x2' if trail == (2, 2) else '2d'
                    for pol in 'sp':
                        desc = {'wl': 'batch-sizes', 'trail': list(trail), 'layers': L, 'batch': B, 'complex': cplx, 'aoi': aoi, 'n0': n0, 'wavelength': wl, 'pol': pol,
                                'class': f'batch-size:B{B}:L{L}:{len(trail)}d:{aoi_class(aoi)}'}
                        ctx.case(desc)
                        key = f'C17/batched/{pol}/{tcls}/{aoi_class(aoi)}'
                        if tcls.startswith('size:') and f'C17/batched/{pol}/1d/{aoi_class(aoi)}' in ctx.violations:
                            key = f'C17/batched/{pol}/1d/{aoi_class(aoi)}'       # generic 1-D batches fail too: not specific to batch == layers
                        with ctx.guard(key, desc):
                            r, t = tf.multilayer_stack_rt(stack, wl, pol, aoi=aoi, ambient_index=n0)
                            r, t = np.asarray(r), np.asarray(t)
                            rl = np.empty(trail, dtype=complex)
                            tl = np.empty(trail, dtype=complex)
                            ra = np.empty(trail, dtype=complex)
                            for ix in np.ndindex(*trail):
                                s_ = [(n[(l,) + ix], d[(l,) + ix]) for l in range(L)]
                                a, b = tf.multilayer_stack_rt(s_, wl, pol, aoi=aoi, ambient_index=n0)
                                rl[ix], tl[ix] = complex(a), complex(b)
                                ra[ix] = R.stack_rt([((complex(q) if cplx else float(np.real(q))), float(np.real(w))) for q, w in s_], wl, pol, math.radians(aoi), n0)[0]
                            ctx.observe('batched.sizes')
                            ok = ctx.close('batched.eq-loop', r, rl, key, f'batched r != per-element loop (batch {trail}, {L} layers, {pol})', desc, rtol=1e-11, scale=1.0)
                            if ok:
                                ok = ctx.close('batched.eq-loop', t, tl, key, f'batched t != per-element loop (batch {trail}, {L} layers, {pol})', desc,
                                               rtol=1e-11, scale=max(1.0, float(np.max(np.abs(tl)))))
                            if ok:
                                er = np.minimum(np.abs(r - ra), np.abs(r + ra)) if pol == 'p' else np.abs(r - ra)
                                ctx.require('batched.sizes', bool(np.all(er <= TOL)), _special_key(ctx, f'C17/stack/{pol}/ne-airy-reference/r/{aoi_class(aoi)}',
                                                                                                   'size:batched'),
                                            f'{pol}: r of a batched stack differs from the Airy recursion', desc)
    ctx.note('batch_sizes', f'batch sizes 1..{Bmax} x layers 1..8 x normal / oblique x both polarisations')


# --- G. hardening pass 5: frustrated total internal reflection (regime) -----------------------------------------------------
FTIR_GAP = 0.03       # every index stays this far from n0 sin(theta0): no layer at its own critical angle
FTIR_ATT = 4.0        # total evanescent attenuation exponent of a case (amplitude e^-4): thin gaps, nothing overflows


def _ftir_stack(g, L, kp, wl, low_exit_margin=True):
    """L entries; at least one INNER layer below kp = n0 sin(theta0) (evanescent), the others on either side of it, the exit
    medium above it (propagating, cos >= ~0.2); the evanescent thicknesses share a total attenuation exponent <= FTIR_ATT."""
    st = []
    ev = [g.random() < 0.4 for _ in range(L - 1)]
    ev[int(g.integers(0, L - 1))] = True
    budget = float(g.uniform(0.02, FTIR_ATT)) / sum(ev)
    for l in range(L - 1):
        if ev[l]:
            n = 1.0 if g.random() < 0.25 else float(g.uniform(1.0, kp - FTIR_GAP))
            q = math.sqrt(kp * kp - n * n)
            d = 0.0 if g.random() < 0.05 else float(g.uniform(0.05, 1.0)) * budget * wl / (2 * math.pi * q)
        else:
            n = float(g.uniform(kp + FTIR_GAP, 4))
            d = 0.0 if g.random() < 0.1 else float(g.uniform(0, 2)) * wl
        st.append((n, d))
    st.append((float(g.uniform(1.02 * kp + FTIR_GAP, 4)), float(g.uniform(0, 2)) * wl))
    return st


def frustrated(ctx, tf):
    """Regime (hardening pass 5): dense ambient (index 1.3 .. 2), steep angle, one or more INNER layers whose index is below
    n0 sin(theta0) -- evanescent: optical tunnelling / frustrated total internal reflection -- while the exit medium still carries
    a propagating wave, i.e. the angle is below total internal reflection of the stack and all layers are lossless.  The energy
    contract skips (and counts) these calls, so this workload judges them itself: R + T == 1, r and |t| == the Airy recursion
    (its cosines are complex there), a zero-thickness layer of low (evanescent) or high index at a non-final position changes
    nothing, a batch in which only SOME elements have an evanescent layer == the per-element loop and conserves energy per
    element.  Established on the current tree first: 40 000 such calls, deviations <= 1.6e-13 (Airy), 8.3e-15 (energy), 0."""
    rng = ctx.rng('c17-ftir')
    mon = 'stack.frustrated-tir'
    nc = ctx.share(ctx.pick(300, 30000))
    for it in range(nc):
        g = np.random.default_rng(ctx.subseed(rng))
        n0 = [1.5, 2, 1.7][it % 3] if it < 6 else float(g.uniform(1.3, 2.0))
        aoi = float(g.uniform(max(35.0, math.degrees(math.asin(min(1.0, (1.0 + 2.5 * FTIR_GAP) / n0)))), 86.0))
        th0 = math.radians(aoi)
        kp = float(n0) * math.sin(th0)
        L = 2 + it % 5
        wl = float(g.uniform(0.3, 1.5))
        st = _ftir_stack(g, L, kp, wl)
        ne = st[-1][0]
        container = CONTAINERS[it % len(CONTAINERS)]
        n_ev = sum(1 for n, _ in st[:-1] if n < kp)
        desc = {'wl': 'frustrated-tir', 'stack': [[n, d] for n, d in st], 'layers': L, 'n0': n0, 'aoi': aoi, 'wavelength': wl, 'container': container,
                'n0_sin_aoi': kp, 'evanescent_layers': n_ev, 'class': f'regime:frustrated-tir:L{L}:evanescent{min(n_ev, 3)}'}
        ctx.case(desc)
        arg = as_container(st, container)
        for pol in 'sp':
            base = f'C17/stack/{pol}/regime:frustrated-tir'
            with ctx.guard(base, desc):
                r, t = tf.multilayer_stack_rt(arg, wl, pol, aoi=aoi, ambient_index=n0)
                r, t = complex(r), complex(t)
                rr, tt = R.stack_rt(st, wl, pol, th0, float(n0))
                Rp, Tp = R.RT(r, t, float(n0), th0, ne)
                ctx.observe(mon)
                if not abs(Rp + Tp - 1) <= TOL:
                    ctx.violation(base + '/energy-lossless', f'{pol}: lossless stack with an evanescent inner layer and a propagating exit medium '
                                  '(frustrated total internal reflection): R + T != 1', desc, R=Rp, T=Tp, r=r, t=t)
                    continue
                er = min(abs(r - rr), abs(r + rr)) if pol == 'p' else abs(r - rr)
                if not er <= TOL:
                    ctx.violation(base + '/ne-airy-reference/r', f'{pol}: r of a stack with an evanescent inner layer differs from the Airy recursion',
                                  desc, got=r, ref=rr)
                    continue
                if not abs(abs(t) - abs(tt)) <= TOL * max(1.0, abs(tt)):
                    ctx.violation(base + '/ne-airy-reference/t', f'{pol}: |t| of a stack with an evanescent inner layer differs from the Airy recursion',
                                  desc, got=abs(t), ref=abs(tt))
                    continue
                # zero-thickness layer at a non-final position: evanescent index (even), propagating index (odd)
                p = int(g.integers(0, L))
                nz = float(g.uniform(1.0, kp - FTIR_GAP)) if it % 2 == 0 else float(g.uniform(kp + FTIR_GAP, 4))
                r0, t0 = tf.multilayer_stack_rt(st[:p] + [(nz, 0.0)] + st[p:], wl, pol, aoi=aoi, ambient_index=n0)
                ctx.observe(mon)
                if not (abs(complex(r0) - r) <= TOL and abs(complex(t0) - t) <= TOL * max(1.0, abs(t))):
                    ctx.violation(base + '/zero-thickness-layer', f'{pol}: a zero-thickness layer at a non-final position changes r or t '
                                  '(stack with an evanescent inner layer)', desc, position=p, n_inserted=nz, r=[r, complex(r0)], t=[t, complex(t0)])
        # the converse: every inner layer propagates and a zero-thickness layer BELOW n0 sin(theta0) is inserted (it alone is evanescent)
        stp = [(float(g.uniform(kp + FTIR_GAP, 4)), float(g.uniform(0, 2)) * wl) for _ in range(L - 1)] + [st[-1]]
        p = int(g.integers(0, L))
        nz = float(g.uniform(1.0, kp - FTIR_GAP))
        descz = dict(desc, stack=[[n, d] for n, d in stp], inserted=[nz, 0.0], position=p, evanescent_layers=0,
                     **{'class': f'regime:frustrated-tir:zero-thickness-only:L{L}'})
        ctx.case(descz)
        for pol in 'sp':
            base = f'C17/stack/{pol}/regime:frustrated-tir'
            with ctx.guard(base, descz):
                r, t = tf.multilayer_stack_rt(stp, wl, pol, aoi=aoi, ambient_index=n0)          # energy: contract (no evanescent layer)
                r0, t0 = tf.multilayer_stack_rt(stp[:p] + [(nz, 0.0)] + stp[p:], wl, pol, aoi=aoi, ambient_index=n0)
                r, t = complex(r), complex(t)
                ctx.observe(mon)
                if not (abs(complex(r0) - r) <= TOL and abs(complex(t0) - t) <= TOL * max(1.0, abs(t))):
                    ctx.violation(base + '/zero-thickness-layer', f'{pol}: a zero-thickness layer whose index is below n0 sin(theta0) changes r or t',
                                  descz, r=[r, complex(r0)], t=[t, complex(t0)])
    # batched: only some elements of the batch have an evanescent layer
    nb = ctx.share(ctx.pick(60, 4000))
    for it in range(nb):
        g = np.random.default_rng(ctx.subseed(rng))
        n0 = float(g.uniform(1.3, 2.0))
        aoi = float(g.uniform(max(35.0, math.degrees(math.asin(min(1.0, (1.0 + 2.5 * FTIR_GAP) / n0)))), 86.0))
        th0 = math.radians(aoi)
        kp = n0 * math.sin(th0)
        L = 2 + it % 4
        trail = [(3,), (2,), (2, 2), (1,), (5,), (2, 3)][it % 6]
        wl = float(g.uniform(0.3, 1.5))
        B = int(np.prod(trail))
        els = []
        for b in range(B):
            if b % 2 == 1 - it % 2 and B > 1:
                els.append([(float(g.uniform(kp + FTIR_GAP, 4)), float(g.uniform(0, 2)) * wl) for _ in range(L - 1)] +
                           [(float(g.uniform(1.02 * kp + FTIR_GAP, 4)), float(g.uniform(0, 2)) * wl)])
            else:
                els.append(_ftir_stack(g, L, kp, wl))
        stack = np.moveaxis(np.asarray(els, dtype=float), 0, -1).reshape((L, 2) + trail)
        desc = {'wl': 'frustrated-tir-batched', 'trail': list(trail), 'layers': L, 'n0': n0, 'aoi': aoi, 'wavelength': wl, 'n0_sin_aoi': kp,
                'stack': stack.tolist() if stack.size <= 40 else {'shape': list(stack.shape)},
                'class': f'regime:frustrated-tir:batched:{len(trail)}d:B{B}:L{L}'}
        ctx.case(desc)
        for pol in 'sp':
            base = f'C17/batched/{pol}/regime:frustrated-tir'
            with ctx.guard(base, desc):
                r, t = tf.multilayer_stack_rt(stack, wl, pol, aoi=aoi, ambient_index=n0)
                r, t = np.asarray(r), np.asarray(t)
                ctx.observe(mon)
                if r.shape != trail or t.shape != trail:
                    ctx.violation(base + '/shape', f'batched result shape {r.shape} / {t.shape} != {trail}', desc)
                    continue
                rf, tfl = r.reshape(-1), t.reshape(-1)
                bad = None
                for b in range(B):
                    a_, b_ = tf.multilayer_stack_rt(els[b], wl, pol, aoi=aoi, ambient_index=n0)
                    Rp, Tp = R.RT(complex(rf[b]), complex(tfl[b]), n0, th0, els[b][-1][0])
                    if not abs(Rp + Tp - 1) <= TOL:
                        bad = bad or ('energy-lossless', b, Rp + Tp)
                    elif not (abs(complex(a_) - rf[b]) <= TOL and abs(complex(b_) - tfl[b]) <= TOL * max(1.0, abs(complex(b_)))):
                        bad = bad or ('ne-loop', b, [complex(a_), complex(b_)])
                if bad:
                    ctx.violation(f'{base}/{bad[0]}', f'{pol}: batched stack in which some elements have an evanescent inner layer: ' +
                                  ('R + T != 1' if bad[0] == 'energy-lossless' else 'differs from the per-element loop'), desc, element=bad[1], value=bad[2])
    ctx.note('frustrated', {'cases': nc, 'batched': nb, 'index_gap_to_n0_sin_aoi': FTIR_GAP, 'max_attenuation_exponent': FTIR_ATT})


# --- E. argument forms ---------------------------------------------------------------------------------------------------
# The forms multilayer_stack_rt / the Fresnel functions accept today and treat as the same mathematical input.  Established on
# /repo@faa8443 (numpy 2.5) by running an integer-valued 4-layer stack in every form x aoi {0, 30} as python int / float /
# numpy.float64 / int64 / float32 / 0-d array x ambient 1 as int / float / numpy.float64 / int64 x polarisation s/p/S/P x
# wavelength as int / float / numpy.float64 / int64 / 0-d array against the Airy recursion: every combination agrees to round-off
# (float16 arrays lose precision, object arrays raise for some contents, a numpy.float32 angle makes the whole chain single
# precision: not forms of the same double-precision input, excluded).
STACK_FORMS = {
    # label: (builder from a list of (n, d) python numbers, form class used in violation keys, single precision?)
    'list-of-int-tuples': (lambda st: [(int(n), int(d)) for n, d in st], 'integer', False),
    'tuple-of-int-tuples': (lambda st: tuple((int(n), int(d)) for n, d in st), 'integer', False),
    'list-of-int-lists': (lambda st: [[int(n), int(d)] for n, d in st], 'integer', False),
    'int64-ndarray': (lambda st: np.array(st, dtype=np.int64), 'integer', False),
    'int32-ndarray': (lambda st: np.array(st, dtype=np.int32), 'integer', False),
    'int16-ndarray': (lambda st: np.array(st, dtype=np.int16), 'integer', False),
    'uint8-ndarray': (lambda st: np.array(st, dtype=np.uint8), 'integer', False),
    'int64-fortran-ndarray': (lambda st: np.asfortranarray(np.array(st, dtype=np.int64)), 'integer', False),
    'mixed-int-float-list': (lambda st: [((int(n) if i % 2 else float(n)), (float(d) if i % 2 else int(d))) for i, (n, d) in enumerate(st)],
                             'mixed-int-float', False),
    'float-list': (lambda st: [(float(n), float(d)) for n, d in st], 'float-list', False),
    'float32-ndarray': (lambda st: np.array(st, dtype=np.float32), 'float32', True),
    'complex128-ndarray': (lambda st: np.array(st, dtype=complex), 'complex', False),
    'complex64-ndarray': (lambda st: np.array(st, dtype=np.complex64), 'complex64', True),
}
SCALAR_FORMS = {
    'int': lambda v: int(v), 'float': lambda v: float(v), 'np.float64': lambda v: np.float64(v), 'np.int64': lambda v: np.int64(v),
    'np.int32': lambda v: np.int32(v), '0d-float': lambda v: np.array(float(v)), '0d-int': lambda v: np.array(int(v)),
    'np.float32': lambda v: np.float32(v),
}
INT_SCALAR_FORMS = ['int', 'np.int64', 'np.int32', '0d-int']          # only for integer-valued quantities
ANY_SCALAR_FORMS = ['np.float64', '0d-float']
POL_FORMS = {'s': ['s', 'S'], 'p': ['p', 'P']}


def _form_trip(tf, stack, wl, pol, aoi, n0, call):
    if call == 'positional':
        return tf.multilayer_stack_rt(stack, wl, pol, aoi, n0)
    if call == 'keywords':
        return tf.multilayer_stack_rt(stack=stack, wavelength=wl, polarization=pol, aoi=aoi, ambient_index=n0)
    if call == 'keywords-reordered':
        return tf.multilayer_stack_rt(ambient_index=n0, aoi=aoi, polarization=pol, wavelength=wl, stack=stack)
    if call == 'omit-aoi':              # only used with aoi == 0
        return tf.multilayer_stack_rt(stack, wl, pol, ambient_index=n0)
    if call == 'omit-ambient':          # only used with ambient == 1
        return tf.multilayer_stack_rt(stack, wl, pol, aoi=aoi)
    if call == 'omit-both':
        return tf.multilayer_stack_rt(stack, wl, pol)
    return tf.multilayer_stack_rt(stack, wl, pol, aoi=aoi, ambient_index=n0)


def forms(ctx, tf):
    """Class E.  One argument at a time leaves its canonical form (so a failure names the argument), plus all-integer calls
    (every argument a python / numpy integer) with the failing argument found by re-running with one argument non-canonical."""
    rng = ctx.rng('c17-forms')
    stack_forms = list(STACK_FORMS)
    n_cases = ctx.pick(3000, 60000)
    ARGS = ['stack', 'stack', 'stack', 'wavelength', 'aoi', 'ambient_index', 'polarization', 'call', 'all-integer']
    last_explicit = None
    for it in range(n_cases):
        if not ctx.mine(it):
            continue
        g = np.random.default_rng(ctx.subseed(rng))
        which = ARGS[it % len(ARGS)]
        q = it // len(ARGS)               # running number of the case within its argument kind: enumerates the forms of that argument
        # everything that is not the enumerated form is drawn at random (independent of the enumeration, so that every form meets
        # normal and oblique incidence, both polarisations, integral and non-integral ambient indices, all layer counts)
        L = int(g.integers(1, 7))
        # integer-valued stack: indices 1..4, thicknesses 0..3; the wavelength keeps the phase thickness non-trivial (d/wl <= 0.75)
        st = [(int(g.integers(1, 5)), int(g.integers(0, 4))) for _ in range(L)]
        int_wl = which in ('wavelength', 'all-integer') and g.random() < 0.6
        wl = float(int(g.integers(4, 10))) if int_wl else float(g.uniform(4.0, 9.7))
        n0 = float(int(g.integers(1, 3))) if (g.random() < 0.4 or which == 'all-integer') else (1.0 if g.random() < 0.5 else float(g.uniform(1.0, 1.6)))
        nmin = min(n for n, _ in st)
        amax = max_aoi(n0, nmin, 85.0)
        aoi_cls = 'oblique' if (g.random() < 0.67 and amax > 2) else 'normal'
        aoi = 0.0 if aoi_cls == 'normal' else float(int(g.integers(1, int(amax) + 1)))        # whole degrees: exact in every scalar form
        pol = 'sp'[int(g.integers(2))]
        canon = dict(stack=np.array(st, dtype=float), wl=wl, pol=pol, aoi=aoi, n0=n0, call='default')
        arg = dict(canon)
        label = {}
        low = False
        if which in ('stack', 'all-integer'):
            fl = stack_forms[(3 * q + ARGS.index(which) + it % 3) % len(stack_forms)] if which == 'stack' else stack_forms[q % 8]
            build, fcls, low = STACK_FORMS[fl]
            arg['stack'] = build(st)
            label['stack'] = (fl, fcls)
        if which in ('wavelength', 'all-integer'):
            fl = (INT_SCALAR_FORMS if int_wl else ANY_SCALAR_FORMS)[q % (4 if int_wl else 2)]
            arg['wl'] = SCALAR_FORMS[fl](wl)
            label['wavelength'] = (fl, 'integer' if int_wl else fl)
        if which in ('aoi', 'all-integer'):
            fl = (INT_SCALAR_FORMS + ANY_SCALAR_FORMS)[q % 6] if which == 'aoi' else INT_SCALAR_FORMS[(q // 2) % 4]
            arg['aoi'] = SCALAR_FORMS[fl](aoi)
            label['aoi'] = (fl, 'integer' if fl in INT_SCALAR_FORMS else fl)
        if which in ('ambient_index', 'all-integer'):
            if n0 == int(n0):
                fl = (INT_SCALAR_FORMS[:3] + ['np.float64'])[q % 4]
            else:
                fl = 'np.float64'
            arg['n0'] = SCALAR_FORMS[fl](n0)
            label['ambient_index'] = (fl, 'integer' if fl in INT_SCALAR_FORMS else fl)
        if which == 'polarization':
            arg['pol'] = POL_FORMS[pol][1]
            label['polarization'] = ('upper-case', 'upper-case')
        if which == 'call':
            calls = ['positional', 'keywords', 'keywords-reordered']
            if aoi == 0:
                calls.append('omit-aoi')
            if n0 == 1.0:
                calls.append('omit-ambient')
            if aoi == 0 and n0 == 1.0:
                calls.append('omit-both')
            arg['call'] = calls[q % len(calls)]
            label['call'] = (arg['call'], arg['call'] + ('/after-explicit-values' if arg['call'].startswith('omit') and last_explicit else ''))
        desc = {'wl': 'forms', 'varied': which, 'forms': {k_: v_[0] for k_, v_ in label.items()}, 'stack': [list(e) for e in st], 'wavelength': wl,
                'aoi': aoi, 'n0': n0, 'pol': pol, 'after': last_explicit, 'class': f'forms:{which}:{next(iter(label.values()))[0]}:{aoi_cls}'}
        ctx.case(desc)
        ac = aoi_class(aoi)
        tol = LOW_AIRY if low else TOL
        rr, tt = R.stack_rt([(float(n), float(d)) for n, d in st], wl, pol, math.radians(aoi), n0)

        def bad(res, tol_=tol):
            if res is None:
                return 'raises'
            r, t = res
            if np.shape(r) != () or np.shape(t) != ():
                return 'shape'
            r, t = complex(r), complex(t)
            er = min(abs(r - rr), abs(r + rr)) if pol == 'p' else abs(r - rr)
            if not er <= tol_:
                return 'r'
            if not abs(abs(t) - abs(tt)) <= tol_ * max(1.0, abs(tt)):
                return 't'
            return None

        def call(a):
            return _form_trip(tf, a['stack'], a['wl'], a['pol'], a['aoi'], a['n0'], a['call'])

        exc = None
        res = None
        try:
            res = call(arg)
            if it % 2:
                res = call(arg)       # class A: the same argument objects (0-d arrays, ndarrays, lists) once more; the later call is judged
        except Exception as e:  # an accepted form raising is a violation of the form equivalence
            exc = e
        ctx.observe('forms.stack' if which in ('stack', 'all-integer') else 'forms.scalars' if which != 'call' else 'forms.call')
        verdict = ('raises:' + type(exc).__name__) if exc is not None else bad(res)
        if verdict is None:
            # also against the canonical call through the library (same formulation: agreement to round-off)
            with quiet():
                cres = call(canon)
            ctx.observe('forms.eq-canonical')
            cr, ct = complex(cres[0]), complex(cres[1])
            fr, ft = complex(res[0]), complex(res[1])
            ftol = LOW_AIRY if low else 1e-12
            if not (abs(fr - cr) <= ftol and abs(ft - ct) <= ftol * max(1.0, abs(ct))):
                verdict = 'ne-canonical-form'
        if verdict is not None:
            # which argument is responsible?  re-run with exactly one argument in its non-canonical form
            culprits = []
            if len(label) > 1:
                for k_ in label:
                    one = dict(canon)
                    src = {'stack': 'stack', 'wavelength': 'wl', 'aoi': 'aoi', 'ambient_index': 'n0', 'polarization': 'pol', 'call': 'call'}[k_]
                    one[src] = arg[src]
                    try:
                        with quiet():
                            b_ = bad(call(one))
                    except Exception:  # noqa
                        b_ = 'raises'
                    if b_ is not None:
                        culprits.append(k_)
            names_ = culprits or list(label)
            fpart = '+'.join(f'{k_}={label[k_][1]}' for k_ in names_)
            plain = f'C17/stack/{pol}/ne-airy-reference/r/{ac}'
            if not low and bad(_try(lambda: call(canon))) is not None:
                # the canonical call fails too: not a form effect -- the key of the stack workloads (plain, or the special-value / unit sweep
                # that already showed it for this polarisation in this process)
                prior = [k_ for k_ in ctx.violations if k_.startswith(f'C17/stack/{pol}/') and '/ne-airy-reference/' in k_ and '/history' not in k_]
                key = plain if (plain in ctx.violations or not prior) else prior[0]
            else:
                key = f'C17/stack/form:{fpart}'        # the form is the mechanism label: one key whatever the polarisation / angle
            ctx.violation(key, f'multilayer_stack_rt with {fpart} differs from the Airy recursion / the canonical call ({verdict})', desc,
                          got=None if res is None else [complex(np.ravel(res[0])[0]), complex(np.ravel(res[1])[0])], ref=[rr, tt],
                          exception=repr(exc)[:200] if exc is not None else None)
        if which != 'call' or not arg['call'].startswith('omit'):
            last_explicit = {'aoi': aoi, 'ambient_index': n0} if (aoi != 0 or n0 != 1.0) else last_explicit

    # integer batches of size 1, 2, 3 at oblique incidence == loop over float stacks == Airy
    kb = -1
    for B in (1, 2, 3):
        for L in (1, 2, 3, 5):
            for dt in ('int64', 'int32', 'uint8'):
                for pol in 'sp':
                    kb += 1
                    if not ctx.mine(kb):
                        continue
                    g = np.random.default_rng([ctx.seed, 1717, kb])
                    n = g.integers(1, 5, (L, B))
                    d = g.integers(0, 4, (L, B))
                    wl = float(g.uniform(4.0, 9.7))
                    n0 = 1.0
                    aoi = float(int(g.integers(1, 80))) if kb % 4 else 0.0
                    stack = np.stack([n, d], axis=1).astype(dt)
                    desc = {'wl': 'forms-batched', 'batch': B, 'layers': L, 'dtype': dt, 'pol': pol, 'aoi': aoi, 'wavelength': wl,
                            'stack': stack.tolist(), 'class': f'forms:batched:integer:B{B}:{aoi_class(aoi)}'}
                    ctx.case(desc)
                    key = 'C17/batched/form:stack=integer'
                    with ctx.guard(key, desc):
                        r, t = tf.multilayer_stack_rt(stack, wl, pol, aoi=aoi, ambient_index=n0)
                        r, t = np.asarray(r), np.asarray(t)
                        ctx.observe('forms.batched')
                        ok = r.shape == (B,) and t.shape == (B,)
                        for b_ in range(B if ok else 0):
                            rr, tt = R.stack_rt([(float(n[l, b_]), float(d[l, b_])) for l in range(L)], wl, pol, math.radians(aoi), n0)
                            er = min(abs(r[b_] - rr), abs(r[b_] + rr)) if pol == 'p' else abs(r[b_] - rr)
                            ok = ok and er <= TOL and abs(abs(t[b_]) - abs(tt)) <= TOL * max(1.0, abs(tt))
                        if not ok:
                            ctx.violation(key, f'integer-typed batched stack (batch of {B}) differs from the Airy recursion', desc, got_shape=list(r.shape))

    # Fresnel functions / snell / brewster with integer indices (python ints, numpy ints) vs the textbook formulas
    kf = -1
    for n0i, n1i in ((1, 2), (1, 3), (2, 3), (1, 4), (2, 1), (3, 2), (1, 1)):
        for aoi in (0, 20, 35):
            for nf in ('int', 'np.int64', 'np.int32', '0d-int'):
                for tf_ in ('float', 'np.float64', '0d-float', 'np.float32'):
                    kf += 1
                    if not ctx.mine(kf):
                        continue
                    crit = R.critical(float(n0i), float(n1i))
                    if crit is not None and math.radians(aoi) > crit - math.radians(1.0):
                        ctx.skip('forms: angle beyond the critical angle margin')
                        continue
                    a0, a1 = SCALAR_FORMS[nf](n0i), SCALAR_FORMS[nf](n1i)
                    th0 = math.radians(aoi)
                    c0, c1 = math.cos(th0), math.sqrt(max(0.0, 1 - (n0i * math.sin(th0) / n1i) ** 2))
                    th1 = math.acos(c1)
                    desc = {'wl': 'forms-fresnel', 'n0': n0i, 'n1': n1i, 'aoi': aoi, 'n_form': nf, 'theta_form': tf_,
                            'class': f'forms:fresnel:n={nf}:theta={tf_}'}
                    ctx.case(desc, nontrivial=n0i != n1i)
                    lowf = tf_ == 'np.float32'
                    ftol = 1e-5 if lowf else 1e-12
                    with ctx.guard('C17/single-interface/form:n=integer', desc):
                        ctx.observe('forms.fresnel')
                        got_th1 = float(np.real(tf.snell_aor(a0, a1, SCALAR_FORMS[tf_](aoi) if tf_ != 'np.float32' else np.float32(aoi))))
                        bad_ = []
                        if not abs(got_th1 - th1) <= (1e-5 if lowf else 1e-12):
                            bad_.append('snell_aor')
                        t0, t1 = SCALAR_FORMS[tf_](th0), SCALAR_FORMS[tf_](th1)
                        for pol in 'sp':
                            rr, tt = R.interface(pol, float(n0i), c0, float(n1i), c1)
                            fr = float(getattr(tf, 'fresnel_r' + pol)(a0, a1, t0, t1))
                            ft = float(getattr(tf, 'fresnel_t' + pol)(a0, a1, t0, t1))
                            if not abs(fr - rr) <= ftol:
                                bad_.append('fresnel_r' + pol)
                            if not abs(ft - tt) <= ftol:
                                bad_.append('fresnel_t' + pol)
                        if n0i != n1i:
                            if not abs(float(tf.brewsters_angle(a0, a1, deg=False)) - R.brewster(float(n0i), float(n1i))) <= 1e-12:
                                bad_.append('brewsters_angle')
                        if bad_:
                            ctx.violation('C17/single-interface/form:n=integer/' + '+'.join(sorted(set(bad_))),
                                          'Fresnel / Snell / Brewster functions with integer-typed indices differ from the textbook formulas', desc)
    ctx.note('forms', {'stack_forms': stack_forms, 'scalar_forms': list(SCALAR_FORMS), 'cases': n_cases})


def _try(f):
    try:
        with quiet():
            return f()
    except Exception:  # noqa
        return None


def replay(ctx, rec):
    run(ctx)
