"""C20 — Jones and Mueller calculus preserve the algebra of polarisation optics.

Monitors
  contracts on the real functions of prysm.x.polarization (every call is seen, also internal ones, e.g. the
  linear_retarder call made by half_wave_plate):
      <fn>.input-unchanged              array arguments are bit-identical after the call (snapshot before)
      linear_retarder / half_wave_plate / quarter_wave_plate / vector_vortex_retarder   post: J^H J == I, and the phase
                                        difference of the two eigen-polarisations is the retardance
                                        (tr(J)^2 / det(J) == 2 + 2 cos(d): free of global phase, sign and orientation conventions)
      jones_rotation_matrix             post: R R^T == I, det R == 1
  law monitors driven by the workload (tolerance 1e-12 x scale of the reference):
      rotation.group                    R(a) R(b) == R(a + b), R(0) == I, batched == per-element
      retarder.group                    J(d1, th) J(d2, th) == J(d1 + d2, th); J(0, th) == I; HWP^2 == I; QWP^2 == HWP
      element.rotation-conjugation      J(th) == R(-th) J(0) R(th)  (retarder, HWP, QWP, diattenuator, polariser, vortex `rotate`)
      polarizer.idempotent / .malus     P^2 == P;  |P(th) e(phi)|^2 == cos^2(th - phi)   (e = linear_pol_vector)
      diattenuator.algebra              D(a) D(b) == D(a b); D(1) == I; D(0) == polariser
      element.batched                   shape= / array-retardance forms == per-element construction
      vortex.reference / .batched       (only where unitary) Mawet et al. eq. 7 closed form; grid == per-element (0-d) calls
      mueller.multiplicative            M(A B) == M(A) M(B)  (broadcast=True any leading shape, broadcast=False 2x2)
      mueller.orthogonal                J unitary  =>  M M^T == I and M00 == 1
      mueller.reference                 M == (1/2) tr(s_i J s_j J^H) in either sign convention of S3
      mueller.batched / kron            batched == per-element; broadcast_kron == numpy.kron per element
      pauli.reconstruct                 sum_i c_i sigma_i == J  (scalar and batched)
      adapter.componentwise             jones_adapter(f)(J)[..., i, j] == f(J[..., i, j]) for focus, unfocus,
                                        focus_fixed_sampling, unfocus_fixed_sampling, angular_spectrum; 2-D input passes through
      add_jones_propagation             (exercised last, originals restored) patched module functions == direct adapter form
      apply_polarization_optic          == optic * field[..., None, None]

Hardening pass (blind-spot classes of HARDENING.md)
  A repeat / aliasing   every constructor called again after the caller edited the array a previous call returned; the same theta
                        grid / retardance array / Jones batch objects through the same and other routines twice (later call
                        judged); Jones batches as C / F / strided / axes-moved arrays; theta as numpy scalars, 0-d and float32
                        arrays, shape= as list
  B histories           add_jones_propagation switched on in steps (one step history per shard: all at once and again, two
                        steps, one routine at a time, subset / same subset / rest / default, overlapping subsets, tuple and set
                        arguments, empty list then default); after each step every routine named so far must be polarisation-
                        aware (judged by behaviour only, against the saved originals); prysm.propagation restored afterwards
  C configuration       the whole law suite (reduced) under config.precision = 32 (complex64 elements; complex128 inputs too),
                        then under precision 64 at full tolerance (keys carry /precision=32, /after-precision-32); complex64 and
                        float32 inputs under precision 64
  E argument forms      (hardening pass 2; everything except the propagation adapter) angles / retardances / alpha / charge / rotate
                        as python int, numpy float64 / int64 / float32 scalars and 0-d arrays, judged against closed forms written
                        out here; keyword vs positional, omitted vs explicit defaults after calls with other values; shape= as list /
                        ndarray / numpy ints / range / empty; vortex theta grids float32 / int64 / F-ordered / read-only / strided;
                        Jones arrays complex64 / float64 / float32 / int64 / int32 / uint8 / bool through jones_to_mueller (both
                        broadcast forms, broadcast flag forms), broadcast_kron and pauli_coefficients, leading shapes incl. (2,),
                        (2,2), (2,2,2); every constructor judged after the caller edited, in place, matrices earlier calls returned
  D regimes             long call histories: > 2600 (thorough 30000) Jones-to-Mueller conversions and constructor calls under
                        precision 64 and > 700 (10000) under precision 32 in one process, the last calls judged

Hardening pass 3 (HARDENING3.md), everything except the propagation adapter (_run_pass3; the adapter has its own magnitude workload)
  H special values      orientations at every exact multiple of 45 degrees in [-360, 360] x retardances exactly 0, +-pi/2, +-pi,
                        +-2 pi, 4 pi, and one ulp to either side of each; diattenuation exactly 0 / 1 / 0.5: every constructor (scalar,
                        shape=, array retardance) against R(-th) diag(1, x) R(th) incl. global phase, group laws, Malus at multiples of
                        45 degrees, Mueller orthogonality / M00 / Pauli-trace reference; vortex retarders on grids of exact multiples
                        of 45 degrees for integer and half-integer charges (keys carry /special:theta=k*45deg[,ret=<class>][~1ulp])
  G magnitudes          jones_to_mueller blind to a global phase and homogeneous of degree 2, multiplicative and orthogonal-up-to-s^4 for
                        factors 1e-12 ... 1e12 (both broadcast forms), batches with per-element magnitudes judged element by element;
                        pauli_coefficients / reconstruction / broadcast_kron homogeneous; apply_polarization_optic bilinear
                        (keys carry /scale:<regime>)
"""
import math

import numpy as np

from ..contracts import attach, detach_all, quiet
from ..core import Ctx

RULE = ('angles / retardances uniform over [-2 pi, 2 pi] plus the special values 0, +-pi/2, +-pi, 2 pi; diattenuation in [0, 1] '
        'incl. 0 and 1; vortex charges -3..6 and half-integers, theta grids 0-d, 1-d, 1x1 .. 16x16 (square and not); random '
        'complex 2x2 matrices and batches with leading shapes of 1 to 3 dimensions; propagation grids 2..16 samples, every '
        'parity combination.  Special values and smallest shapes first.  A case is non-trivial unless the element is the '
        'identity by construction (all angles and retardances zero); distinct = distinct descriptor.  Hardening workloads: '
        'repeat (7 leading shapes x 4 memory layouts, 9 constructors, every consumer of a Jones batch twice), configuration '
        '(reduced suite under precision 32 then 64), long histories (thousands of calls per process), step histories of '
        'add_jones_propagation (8 histories, one per shard)')
ASSUMPTIONS = ['numpy matmul / kron / einsum are the reference linear algebra',
               'only the batched forms the API supports are exercised: shape= with scalar parameters, array retardance with '
               'shape=retardance.shape for linear_retarder, theta arrays for jones_rotation_matrix(shape=theta.shape) and the '
               'vortex retarder; array theta for the plate constructors and array alpha / array vortex retardance raise and are '
               'outside the workload',
               'the sign convention of Stokes S3 is not fixed by the statement: the Mueller reference accepts both',
               'theta grids handed to vector_vortex_retarder are floating-point arrays (the argument-form workload adds integer-valued '
               'int64 grids, which the current tree accepts)',
               'argument forms of the constructors / Mueller / Pauli / Kronecker routines (_run_forms): a form is demanded only when the '
               'current tree accepts it as the same input (table above _run_forms); closed forms R(-th) diag(1, x) R(th) and Mawet eq. 7 '
               'are written out in this module; float32 scalars / grids / complex64 Jones arrays are single-precision data (1e-3)',
               'Jones *vector* helpers (linear_pol_vector is used for Malus only; circular_pol_vector) are not part of the property',
               'the routines are deterministic functions of the values of their arguments; an array a routine returned belongs to '
               'the caller (editing it must not change later results)',
               'complex64 threshold 1e-3 (x scale) for every call made while config.precision is 32 and for calls that are handed '
               'single-precision data; measured round-off 1e-7..6e-7',
               'add_jones_propagation(names): afterwards every routine in names accepts a (..., 2, 2) Jones field and propagates it '
               'component by component, and still handles a 2-D field as before; judged by behaviour against the functions saved '
               'before the first step (whether and how the module object was replaced is not part of the statement)']
REQUIRED = ['jones_rotation_matrix.proper-rotation', 'linear_retarder.unitary', 'vector_vortex_retarder.unitary', 'linear_retarder.retardance',
            'vector_vortex_retarder.input-unchanged', 'rotation.group', 'retarder.group', 'element.rotation-conjugation',
            'polarizer.idempotent', 'polarizer.malus', 'diattenuator.algebra', 'element.batched', 'vortex.reference', 'vortex.batched',
            'mueller.multiplicative', 'mueller.orthogonal', 'mueller.reference', 'mueller.batched', 'kron.eq-numpy',
            'pauli.reconstruct', 'adapter.componentwise', 'add_jones_propagation.eq-direct', 'apply_polarization_optic.elementwise',
            'add_jones_propagation.later-step', 'repeat.cases', 'repeat.result-owned-by-caller', 'repeat.result-survives-later-call', 'repeat.same-args',
            'repeat.argument-forms', 'precision32.suite', 'precision32-then-64.suite', 'long-history.cases', 'long-history.mueller',
            'long-history.elements', 'form.closed-form', 'form.scalar-arguments', 'form.call-syntax', 'form.shape', 'form.jones-dtypes',
            'form.returned-matrix-edited', 'adapter.argument-forms', 'add_jones_propagation.argument-forms']

CTX = None
TOL = 1e-12
TOL64 = 1e-12
# complex64 (prysm.conf.config.precision = 32: every constructor returns complex64; or single-precision inputs): measured
# round-off of the law residuals 1e-7 .. 6e-7 (x scale); threshold more than 3 decades above
TOL32 = 1e-3
I2 = np.eye(2)
PROP_FUNCS = ['focus', 'unfocus', 'focus_fixed_sampling', 'unfocus_fixed_sampling', 'angular_spectrum']


def H(a):
    return np.conj(np.swapaxes(a, -1, -2))


def maxabs(a):
    a = np.asarray(a)
    if a.size == 0:
        return 0.0
    if not np.all(np.isfinite(a)):
        return float('inf')
    return float(np.max(np.abs(a)))


def ret_class(retardance):
    r = np.asarray(retardance, dtype=float)
    return '=pi' if np.all(np.abs(np.cos(r / 2)) < 1e-9) else '!=pi'


# ------------------------------------------------------------------------------------------ contracts
def _snap(args, kwargs):
    snaps = []
    for where, seq in (('arg', list(enumerate(args))), ('kw', list(kwargs.items()))):
        for k, v in seq:
            if isinstance(v, np.ndarray):
                snaps.append((where, k, v, v.copy()))
    return snaps


def _make_pre():
    def pre(args, kwargs):
        return _snap(args, kwargs)
    return pre


def _check_unchanged(fn, token, extra_desc=None):
    for where, k, live, old in token or ():
        CTX.observe(f'{fn}.input-unchanged')
        same = live.shape == old.shape and np.array_equal(live, old, equal_nan=True)
        if not same:
            d = {'fn': fn, 'argument': f'{where}:{k}', 'shape': list(old.shape), 'class': 'contract'}
            d.update(extra_desc or {})
            CTX.violation(f'C20/{fn}/mutates-input', f'{fn} modifies the array the caller passed in (argument {k})', d,
                          before=old if old.size <= 8 else old.ravel()[:8], after=live if live.size <= 8 else live.ravel()[:8])


def _tol_for(args, kwargs):
    """Single-precision data (a float32 angle / grid, complex64 matrices) carry 6e-8: such calls get the complex64 threshold."""
    for v in list(args) + list(kwargs.values()):
        if getattr(v, 'dtype', None) in (np.float32, np.complex64, np.float16):
            return max(TOL, TOL32)
    return TOL


def _post_plain(fn):
    def post(token, args, kwargs, result):
        _check_unchanged(fn, token)
    return post


def _post_unitary(fn, names):
    def post(token, args, kwargs, result):
        a = dict(zip(names, args))
        a.update(kwargs)
        extra = {}
        if fn == 'vector_vortex_retarder':
            extra = {'charge': a.get('charge'), 'retardance': a.get('retardance', math.pi), 'rotate': a.get('rotate', 0)}
        _check_unchanged(fn, token, extra)
        CTX.observe(f'{fn}.unitary')
        J = np.asarray(result)
        err = maxabs(H(J) @ J - I2)
        tol = _tol_for(args, kwargs)
        if not err <= tol:
            desc = {'fn': fn, 'class': 'contract', 'shape': list(J.shape)}
            old = {id(live): before for _, _, live, before in token or ()}    # values as passed (the call may have altered them)
            for k, v in a.items():
                v = old.get(id(v), v)
                if not isinstance(v, np.ndarray) or v.size <= 4:
                    desc[k] = v
            if fn == 'vector_vortex_retarder':
                key = f'C20/{fn}/non-unitary/retardance{ret_class(a.get("retardance", math.pi))}'
            elif fn == 'linear_retarder':
                key = f'C20/{fn}/non-unitary'
            else:
                key = f'C20/{fn}/non-unitary'
            CTX.violation(key, f'{fn} returns a matrix with J^H J != I', desc, err=err)
            return
        # the retardance is what the argument says: eigenvalue ratio e^{+-i d}  <=>  tr(J)^2 / det(J) == 2 + 2 cos(d)
        # (independent of global phase, of the sign convention of d and of the orientation)
        if fn == 'half_wave_plate':
            d = math.pi
        elif fn == 'quarter_wave_plate':
            d = math.pi / 2
        else:
            d = a.get('retardance', math.pi)
        old = {id(live): before for _, _, live, before in token or ()}
        d = np.asarray(old.get(id(d), d), dtype=float)
        CTX.observe(f'{fn}.retardance')
        tr = J[..., 0, 0] + J[..., 1, 1]
        det = J[..., 0, 0] * J[..., 1, 1] - J[..., 0, 1] * J[..., 1, 0]
        try:
            err = maxabs(tr * tr / det - (2 + 2 * np.cos(d)))
        except ValueError:      # shapes that do not broadcast: reported by the batched monitors
            return
        if not err <= 4 * tol:
            CTX.violation(f'C20/{fn}/retardance-not-delta', f'{fn}: phase difference between the two eigen-polarisations is not the retardance '
                          '(tr(J)^2/det(J) != 2 + 2 cos(retardance))', {'fn': fn, 'class': 'contract', 'retardance': d if d.size <= 4 else 'array'},
                          err=err)
    return post


def _post_rotation(token, args, kwargs, result):
    _check_unchanged('jones_rotation_matrix', token)
    CTX.observe('jones_rotation_matrix.proper-rotation')
    Rm = np.asarray(result)
    err = maxabs(np.swapaxes(Rm, -1, -2) @ Rm - I2)
    det = Rm[..., 0, 0] * Rm[..., 1, 1] - Rm[..., 0, 1] * Rm[..., 1, 0]
    tol = _tol_for(args, kwargs)
    if not (err <= tol and maxabs(det - 1) <= tol and maxabs(np.imag(Rm)) == 0):
        th = args[0] if args else kwargs.get('theta')
        CTX.violation('C20/jones_rotation_matrix/not-a-rotation', 'jones_rotation_matrix is not a proper real rotation (R R^T != I or det != 1)',
                      {'fn': 'jones_rotation_matrix', 'theta': th if np.size(th) <= 4 else 'array', 'class': 'contract'}, err=err)


def install():
    from prysm.x import polarization as pol
    attach(pol, 'jones_rotation_matrix', pre=_make_pre(), post=_post_rotation)
    attach(pol, 'linear_retarder', pre=_make_pre(), post=_post_unitary('linear_retarder', ['retardance', 'theta', 'shape']))
    attach(pol, 'half_wave_plate', pre=_make_pre(), post=_post_unitary('half_wave_plate', ['theta', 'shape']))
    attach(pol, 'quarter_wave_plate', pre=_make_pre(), post=_post_unitary('quarter_wave_plate', ['theta', 'shape']))
    attach(pol, 'vector_vortex_retarder', pre=_make_pre(),
           post=_post_unitary('vector_vortex_retarder', ['charge', 'theta', 'retardance', 'rotate']))
    for fn in ('linear_diattenuator', 'linear_polarizer', 'broadcast_kron', 'jones_to_mueller', 'pauli_coefficients',
               'apply_polarization_optic', 'linear_pol_vector'):
        attach(pol, fn, pre=_make_pre(), post=_post_plain(fn))


# ------------------------------------------------------------------------------------------ references (no prysm)
def ref_rot(th):
    c, s = math.cos(th), math.sin(th)
    return np.array([[c, s], [-s, c]])


def ref_vortex(charge, theta, retardance, rotate):
    """Mawet et al., Opt. Express 17, 1902 (2009), eq. 7 (the paper the docstring cites), lossless case:
    J = sin(d/2) [[cos l.th, sin l.th], [sin l.th, -cos l.th]] - i cos(d/2) I, conjugated by the rotation."""
    th = np.asarray(theta, dtype=float) * charge
    out = np.zeros(th.shape + (2, 2), dtype=complex)
    s, c = math.sin(retardance / 2), math.cos(retardance / 2)
    out[..., 0, 0] = s * np.cos(th) - 1j * c
    out[..., 0, 1] = s * np.sin(th)
    out[..., 1, 0] = s * np.sin(th)
    out[..., 1, 1] = -s * np.cos(th) - 1j * c
    return ref_rot(-rotate) @ out @ ref_rot(rotate)


SIG = [np.eye(2, dtype=complex), np.array([[1, 0], [0, -1]], dtype=complex), np.array([[0, 1], [1, 0]], dtype=complex),
       np.array([[0, -1j], [1j, 0]], dtype=complex)]


def ref_mueller(J):
    M = np.empty((4, 4))
    Jh = J.conj().T
    for i in range(4):
        for j in range(4):
            M[i, j] = 0.5 * np.trace(SIG[i] @ J @ SIG[j] @ Jh).real
    return M


D3 = np.diag([1.0, 1.0, 1.0, -1.0])


def rand_c(g, shape):
    return g.standard_normal(shape) + 1j * g.standard_normal(shape)


def rand_unitary(g, lead=()):
    a = rand_c(g, lead + (2, 2))
    q, r = np.linalg.qr(a)
    return q * np.exp(1j * g.uniform(0, 2 * np.pi, lead + (1, 1)))


SPECIAL = [0.0, math.pi / 2, math.pi, -math.pi / 2, -math.pi, 2 * math.pi, math.pi / 4, 1.0]


def angle(g, i=None):
    if i is not None and i < len(SPECIAL):
        return SPECIAL[i]
    return float(g.uniform(-2 * math.pi, 2 * math.pi))


def law(ctx, monitor, got, ref, key, what, desc, scale=None, tol=None):
    tol = TOL if tol is None else tol          # the module-level tolerance is read at call time (configuration workloads swap it)
    ref = np.asarray(ref)
    sc = max(1.0, maxabs(ref)) if scale is None else scale
    return ctx.close(monitor, got, ref, key, what, desc, rtol=tol, scale=sc)


# ------------------------------------------------------------------------------------------ workload
def run(ctx):
    global CTX
    CTX = ctx
    from prysm import propagation
    saved = {k: getattr(propagation, k) for k in PROP_FUNCS}
    install()
    try:
        _run_precision(ctx)          # first: its 32-bit pass must be the first use of every routine in this process
        _run(ctx)
        _run_repeat(ctx)
        _run_long_history(ctx)
        _run_forms(ctx)
        _run_pass3(ctx)
        _run_adapter_forms(ctx)
        _run_monkeypatch(ctx, saved)
    finally:
        for k, v in saved.items():
            setattr(propagation, k, v)
        detach_all()


def _run(ctx, frac=1.0, label='c20', wl_suffix=''):
    """The law suite.  frac scales every count (the configuration workloads run a reduced copy), label seeds the generator."""
    from prysm.x import polarization as pol
    from prysm import propagation
    rng = ctx.rng(label)

    def cnt(q, t):
        return max(1, int(round(ctx.pick(q, t) * frac)))

    # --- 1. rotation matrix, retarders, polarisers, diattenuators (scalar forms) ---------------------------
    n1 = max(ctx.share(cnt(1200, 180000)), 1)
    for it in range(n1):
        i = it if ctx.shard == 0 else None      # special values first on shard 0
        th, th2, d1, d2 = angle(rng, i), angle(rng), angle(rng, i), angle(rng)
        alpha, beta = ([0.0, 1.0, 0.5][it % 3] if it < 6 else float(rng.uniform(0, 1))), float(rng.uniform(0, 1))
        desc = {'wl': 'elements', 'theta': th, 'theta2': th2, 'ret': d1, 'ret2': d2, 'alpha': alpha, 'beta': beta,
                'class': 'elements:scalar' + (':special' if i is not None and i < len(SPECIAL) else '')}
        ctx.case(desc, nontrivial=not (th == 0 and d1 == 0))
        with ctx.guard('C20/elements', desc):
            Rt = pol.jones_rotation_matrix(th)
            Rm = pol.jones_rotation_matrix(-th)
            law(ctx, 'rotation.group', Rt @ pol.jones_rotation_matrix(th2), pol.jones_rotation_matrix(th + th2),
                'C20/jones_rotation_matrix/group-law', 'R(a) R(b) != R(a+b)', desc)
            law(ctx, 'rotation.group', Rm @ Rt, I2, 'C20/jones_rotation_matrix/group-law', 'R(-a) R(a) != I', desc)
            # retarders
            J = pol.linear_retarder(d1, th)
            J0 = pol.linear_retarder(d1)
            law(ctx, 'element.rotation-conjugation', J, Rm @ J0 @ Rt, 'C20/linear_retarder/rotation-conjugation',
                'linear_retarder(d, th) != R(-th) linear_retarder(d, 0) R(th)', desc)
            law(ctx, 'retarder.group', J @ pol.linear_retarder(d2, th), pol.linear_retarder(d1 + d2, th),
                'C20/linear_retarder/group-law', 'J(d1, th) J(d2, th) != J(d1 + d2, th)', desc)
            law(ctx, 'retarder.group', pol.linear_retarder(0.0, th), I2, 'C20/linear_retarder/group-law', 'J(0, th) != I', desc)
            Hw, Qw = pol.half_wave_plate(th), pol.quarter_wave_plate(th)
            law(ctx, 'retarder.group', Hw @ Hw, I2, 'C20/half_wave_plate/group-law', 'HWP(th)^2 != I', desc)
            law(ctx, 'retarder.group', Qw @ Qw, Hw, 'C20/quarter_wave_plate/group-law', 'QWP(th)^2 != HWP(th)', desc)
            law(ctx, 'element.rotation-conjugation', Hw, Rm @ pol.half_wave_plate() @ Rt, 'C20/half_wave_plate/rotation-conjugation',
                'HWP(th) != R(-th) HWP(0) R(th)', desc)
            law(ctx, 'element.rotation-conjugation', Qw, Rm @ pol.quarter_wave_plate() @ Rt, 'C20/quarter_wave_plate/rotation-conjugation',
                'QWP(th) != R(-th) QWP(0) R(th)', desc)
            # polariser
            P = pol.linear_polarizer(th)
            law(ctx, 'polarizer.idempotent', P @ P, P, 'C20/linear_polarizer/not-idempotent', 'P(th)^2 != P(th)', desc)
            law(ctx, 'element.rotation-conjugation', P, Rm @ pol.linear_polarizer() @ Rt, 'C20/linear_polarizer/rotation-conjugation',
                'P(th) != R(-th) P(0) R(th)', desc)
            phi_deg = float(np.degrees(th2))
            e = pol.linear_pol_vector(phi_deg)
            out = P @ e
            law(ctx, 'polarizer.malus', float(np.sum(np.abs(out) ** 2)), math.cos(th - math.radians(phi_deg)) ** 2,
                'C20/linear_polarizer/malus', '|P(th) e(phi)|^2 != cos^2(th - phi)', desc, scale=1.0)
            e_arr = pol.linear_pol_vector(np.array([phi_deg, 0.0]))
            out = P @ e_arr
            law(ctx, 'polarizer.malus', np.sum(np.abs(out[..., 0]) ** 2, axis=-1),
                np.array([math.cos(th - math.radians(phi_deg)) ** 2, math.cos(th) ** 2]),
                'C20/linear_polarizer/malus', '|P(th) e(phi)|^2 != cos^2(th - phi) (array of input angles)', desc, scale=1.0)
            # diattenuator
            Da = pol.linear_diattenuator(alpha, th)
            law(ctx, 'element.rotation-conjugation', Da, Rm @ pol.linear_diattenuator(alpha) @ Rt,
                'C20/linear_diattenuator/rotation-conjugation', 'D(a, th) != R(-th) D(a, 0) R(th)', desc)
            law(ctx, 'diattenuator.algebra', Da @ pol.linear_diattenuator(beta, th), pol.linear_diattenuator(alpha * beta, th),
                'C20/linear_diattenuator/product-law', 'D(a, th) D(b, th) != D(a b, th)', desc)
            law(ctx, 'diattenuator.algebra', pol.linear_diattenuator(1, th), I2, 'C20/linear_diattenuator/product-law', 'D(1, th) != I', desc)
            law(ctx, 'diattenuator.algebra', pol.linear_diattenuator(0, th), P, 'C20/linear_diattenuator/product-law', 'D(0, th) != P(th)', desc)
            # Mueller of the unitary elements
            for nm, U in (('linear_retarder', J), ('half_wave_plate', Hw), ('quarter_wave_plate', Qw)):
                for bc in (True, False):
                    M = pol.jones_to_mueller(U, broadcast=bc)
                    ok = law(ctx, 'mueller.orthogonal', M @ M.T, np.eye(4), f'C20/jones_to_mueller/unitary-not-orthogonal/broadcast={bc}',
                             'unitary Jones matrix: M M^T != I', desc)
                    if ok:
                        law(ctx, 'mueller.orthogonal', M[0, 0], 1.0, f'C20/jones_to_mueller/M00!=1/broadcast={bc}',
                            'unitary Jones matrix: M00 != 1', desc)

    # --- 2. batched element forms ----------------------------------------------------------------------------
    shapes = [(1,), (3,), (1, 1), (2, 3), (4, 1), (2, 1, 3), (16, 16)]
    n2 = cnt(6, 400)
    k = -1
    for rep in range(n2):
        for shp in shapes:
            k += 1
            if not ctx.mine(k):
                continue
            th, d1, alpha = angle(rng), angle(rng), float(rng.uniform(0, 1))
            desc = {'wl': 'elements-batched', 'shape': list(shp), 'theta': th, 'ret': d1, 'alpha': alpha, 'rep': rep,
                    'class': f'elements:batched:{len(shp)}d'}
            ctx.case(desc)
            with ctx.guard('C20/elements-batched', desc):
                for nm, b, s in (('linear_retarder', pol.linear_retarder(d1, th, shape=shp), pol.linear_retarder(d1, th)),
                                 ('half_wave_plate', pol.half_wave_plate(th, shape=shp), pol.half_wave_plate(th)),
                                 ('quarter_wave_plate', pol.quarter_wave_plate(th, shape=shp), pol.quarter_wave_plate(th)),
                                 ('linear_polarizer', pol.linear_polarizer(th, shape=shp), pol.linear_polarizer(th)),
                                 ('linear_diattenuator', pol.linear_diattenuator(alpha, th, shape=shp), pol.linear_diattenuator(alpha, th)),
                                 ('jones_rotation_matrix', pol.jones_rotation_matrix(th, shape=shp), pol.jones_rotation_matrix(th))):
                    law(ctx, 'element.batched', b, np.broadcast_to(s, shp + (2, 2)), f'C20/{nm}/batched!=per-element/shape-arg',
                        f'{nm}(shape=...) != the scalar element repeated', desc)
                ret = rng.uniform(-2 * math.pi, 2 * math.pi, shp)
                tha = rng.uniform(-2 * math.pi, 2 * math.pi, shp)
                b = pol.linear_retarder(ret.copy(), th, shape=shp)
                ref = np.empty(shp + (2, 2), dtype=complex)
                refR = np.empty(shp + (2, 2), dtype=complex)
                for ix in np.ndindex(*shp):
                    ref[ix] = pol.linear_retarder(float(ret[ix]), th)
                    refR[ix] = pol.jones_rotation_matrix(float(tha[ix]))
                law(ctx, 'element.batched', b, ref, 'C20/linear_retarder/batched!=per-element/array-retardance',
                    'linear_retarder(array retardance) != per-element construction', desc)
                law(ctx, 'element.batched', pol.jones_rotation_matrix(tha.copy(), shape=shp), refR,
                    'C20/jones_rotation_matrix/batched!=per-element/array-theta', 'jones_rotation_matrix(array theta) != per-element', desc)
                for idx in range(4):
                    law(ctx, 'element.batched', pol.pauli_spin_matrix(idx, shape=shp), np.broadcast_to(pol.pauli_spin_matrix(idx), shp + (2, 2)),
                        'C20/pauli_spin_matrix/batched!=per-element', 'pauli_spin_matrix(shape=...) != the 2x2 matrix repeated', desc)

    # --- 3. vector vortex retarder ------------------------------------------------------------------------------
    charges = [2, 1, -1, 0, 3, -2, -3, 4, 5, 6, 0.5, 1.5, -0.5, 2.5]
    grids = [(), (1,), (5,), (1, 1), (2, 2), (3, 4), (4, 3), (7, 7), (16, 16), (2, 3, 2)]
    rets = [math.pi / 2, math.pi, 1.0, 0.0, -math.pi, 2 * math.pi]
    k = -1
    nv = cnt(3, 250)
    for rep in range(nv):
        for shp in grids:
            for ci, charge in enumerate(charges):
                k += 1
                if not ctx.mine(k):
                    continue
                ret = rets[(ci + rep) % len(rets)] if rep == 0 else angle(rng)
                rot = 0.0 if (rep == 0 and ci % 2 == 0) else angle(rng)
                theta = rng.uniform(-math.pi, math.pi, shp) if shp != () else np.array(float(rng.uniform(-math.pi, math.pi)))
                desc = {'wl': 'vortex', 'charge': charge, 'grid': list(shp), 'retardance': ret, 'rotate': rot, 'rep': rep,
                        'theta': theta if theta.size <= 4 else 'uniform(-pi, pi), see subseed', 'class':
                        f'vortex:grid{len(shp)}d:ret{ret_class(ret)}:{"int" if float(charge).is_integer() else "half"}-charge'}
                ctx.case(desc)
                with ctx.guard('C20/vector_vortex_retarder', desc):
                    arg = theta.copy()
                    V = pol.vector_vortex_retarder(charge, arg, ret, rot)          # contracts: unitary + input unchanged
                    unitary = maxabs(H(V) @ V - I2) <= TOL
                    V0 = pol.vector_vortex_retarder(charge, theta.copy(), ret, 0)
                    law(ctx, 'element.rotation-conjugation', V, pol.jones_rotation_matrix(-rot) @ V0 @ pol.jones_rotation_matrix(rot),
                        'C20/vector_vortex_retarder/rotation-conjugation', 'vortex(rotate) != R(-rot) vortex(0) R(rot)', desc)
                    if shp != () and theta.size <= 64:
                        ref = np.empty(shp + (2, 2), dtype=complex)
                        for ix in np.ndindex(*shp):
                            ref[ix] = pol.vector_vortex_retarder(charge, np.array(float(theta[ix])), ret, rot)
                        law(ctx, 'vortex.batched', V, ref, 'C20/vector_vortex_retarder/batched!=per-element',
                            'vortex on a theta grid != per-element (0-d theta) construction', desc)
                    if unitary:
                        law(ctx, 'vortex.reference', V, ref_vortex(charge, theta, ret, rot), 'C20/vector_vortex_retarder/ne-mawet-eq7',
                            'unitary vortex retarder differs from Mawet et al. eq. 7', desc)
                        M = pol.jones_to_mueller(V)
                        law(ctx, 'mueller.orthogonal', M @ np.swapaxes(M, -1, -2), np.broadcast_to(np.eye(4), M.shape),
                            'C20/jones_to_mueller/unitary-not-orthogonal/broadcast=True', 'unitary Jones matrix: M M^T != I', desc)
                    else:
                        ctx.skip('vortex closed-form comparison: element is not unitary (already reported by the contract)')

    # --- 4. Mueller / Kronecker / Pauli on random complex matrices ----------------------------------------------------
    leads = [(), (1,), (4,), (1, 1), (2, 3), (3, 1), (2, 1, 3), (2, 2, 2)]
    nm_ = cnt(40, 4500)
    k = -1
    for rep in range(nm_):
        for lead in leads:
            k += 1
            if not ctx.mine(k):
                continue
            sub = ctx.subseed(rng)
            g = np.random.default_rng(sub)
            A, B = rand_c(g, lead + (2, 2)), rand_c(g, lead + (2, 2))
            U = rand_unitary(g, lead)
            desc = {'wl': 'mueller', 'lead': list(lead), 'subseed': sub, 'class': f'mueller:lead{len(lead)}d'}
            ctx.case(desc)
            with ctx.guard('C20/jones_to_mueller', desc):
                MA, MB, MAB = pol.jones_to_mueller(A), pol.jones_to_mueller(B), pol.jones_to_mueller(A @ B)
                law(ctx, 'mueller.multiplicative', MAB, MA @ MB, 'C20/jones_to_mueller/not-multiplicative/broadcast=True',
                    'M(A B) != M(A) M(B)', desc)
                MU = pol.jones_to_mueller(U)
                ok = law(ctx, 'mueller.orthogonal', MU @ np.swapaxes(MU, -1, -2), np.broadcast_to(np.eye(4), MU.shape),
                         'C20/jones_to_mueller/unitary-not-orthogonal/broadcast=True', 'unitary Jones matrix: M M^T != I', desc)
                if ok:
                    law(ctx, 'mueller.orthogonal', MU[..., 0, 0], np.ones(lead), 'C20/jones_to_mueller/M00!=1/broadcast=True',
                        'unitary Jones matrix: M00 != 1', desc)
                refM = np.empty(lead + (4, 4))
                one = np.empty(lead + (4, 4))
                kr = np.empty(lead + (4, 4), dtype=complex)
                for ix in np.ndindex(*lead):
                    refM[ix] = ref_mueller(A[ix])
                    one[ix] = pol.jones_to_mueller(A[ix])
                    kr[ix] = np.kron(A[ix], B[ix])
                ctx.observe('mueller.reference')
                sc = max(1.0, maxabs(refM))
                e1, e2 = maxabs(MA - refM), maxabs(MA - D3 @ refM @ D3)
                if not min(e1, e2) <= TOL * sc:
                    ctx.violation('C20/jones_to_mueller/ne-pauli-trace-reference', 'M != (1/2) tr(s_i J s_j J^H) in either S3 sign convention',
                                  desc, err=min(e1, e2))
                if lead != ():
                    law(ctx, 'mueller.batched', MA, one, 'C20/jones_to_mueller/batched!=per-element', 'batched Mueller != per-element', desc)
                law(ctx, 'kron.eq-numpy', pol.broadcast_kron(A, B), kr, 'C20/broadcast_kron/ne-numpy-kron', 'broadcast_kron != numpy.kron per element', desc)
                if lead == ():
                    M2 = pol.jones_to_mueller(A @ B, broadcast=False)
                    law(ctx, 'mueller.multiplicative', M2, pol.jones_to_mueller(A, broadcast=False) @ pol.jones_to_mueller(B, broadcast=False),
                        'C20/jones_to_mueller/not-multiplicative/broadcast=False', 'M(A B) != M(A) M(B)', desc)
                    law(ctx, 'mueller.batched', M2, MAB, 'C20/jones_to_mueller/broadcast-forms-differ', 'broadcast=False result != broadcast=True result', desc)
            with ctx.guard('C20/pauli', desc):
                c = pol.pauli_coefficients(A)
                rec = sum(np.asarray(ci)[..., None, None] * pol.pauli_spin_matrix(i, shape=lead if lead != () else None)
                          for i, ci in enumerate(c))
                law(ctx, 'pauli.reconstruct', rec, A, 'C20/pauli/reconstruction', 'sum_i c_i sigma_i != J', desc)

    # --- 5. jones_adapter applied directly to the propagation routines ---------------------------------------------------
    sizes = [(2, 2), (3, 3), (4, 4), (5, 4), (4, 7), (8, 8), (9, 6), (16, 16), (3, 1), (1, 5)]
    if not ctx.quick:
        sizes += [(7, 7), (6, 11), (12, 12), (13, 16), (24, 24), (31, 17), (32, 33)]
    k = -1
    for rep in range(cnt(4, 200)):
        for shp in sizes:
            for fname in PROP_FUNCS:
                k += 1
                if not ctx.mine(k):
                    continue
                sub = ctx.subseed(rng)
                g = np.random.default_rng(sub)
                Jf = rand_c(g, shp + (2, 2))
                Q = [2, 1, 1.5, 3][int(g.integers(4))]
                nout = int(g.integers(2, 12))
                if fname in ('focus', 'unfocus'):
                    args, kw = ((Q,), {}) if g.random() < 0.7 else ((), {'Q': Q})
                elif fname == 'angular_spectrum':
                    args, kw = (0.6, 0.1, float(g.uniform(1, 50))), ({'Q': Q} if g.random() < 0.7 else {})
                else:
                    args = (0.1, 100.0, 0.5, float(g.uniform(1, 6)), nout)
                    kw = {} if g.random() < 0.5 else {'shift': (float(g.uniform(-3, 3)), float(g.uniform(-3, 3)))}
                    if g.random() < 0.3:
                        kw['method'] = 'czt'
                desc = {'wl': 'adapter', 'fn': fname, 'shape': list(shp), 'args': list(args), 'kwargs': kw, 'subseed': sub,
                        'class': f'adapter:{fname}:{"sq" if shp[0] == shp[1] else "nonsq"}'}
                ctx.case(desc)
                f = getattr(propagation, fname)
                try:
                    with quiet():
                        comps = [[np.asarray(f(Jf[..., i, j].copy(), *args, **kw)) for j in range(2)] for i in range(2)]
                except Exception as e:  # the scalar routine itself fails on this input: some other property's business
                    ctx.skip(f'adapter: scalar {fname} itself raises {type(e).__name__} on this input (not a C20 matter)')
                    continue
                with ctx.guard(f'C20/jones_adapter/{fname}', desc):
                    snap = Jf.copy()
                    out = pol.jones_adapter(f)(Jf, *args, **kw)
                    ref = np.empty(comps[0][0].shape + (2, 2), dtype=np.result_type(*[c.dtype for row in comps for c in row]))
                    for i in range(2):
                        for j in range(2):
                            ref[..., i, j] = comps[i][j]
                    law(ctx, 'adapter.componentwise', out, ref, f'C20/jones_adapter/{fname}/component-mismatch',
                        f'jones_adapter({fname})(J)[..., i, j] != {fname}(J[..., i, j])', desc)
                    ctx.require('adapter.input-unchanged', np.array_equal(Jf, snap), f'C20/jones_adapter/{fname}/mutates-input',
                                'jones_adapter modified the Jones field passed in', desc)
                    a2 = Jf[..., 0, 1].copy()
                    law(ctx, 'adapter.componentwise', pol.jones_adapter(f)(a2, *args, **kw), comps[0][1],
                        f'C20/jones_adapter/{fname}/2d-passthrough', 'jones_adapter on a 2-D (scalar) field != the plain routine', desc)
                # apply_polarization_optic
                with ctx.guard('C20/apply_polarization_optic', desc):
                    field = rand_c(g, shp)
                    got = pol.apply_polarization_optic(field.copy(), Jf)
                    law(ctx, 'apply_polarization_optic.elementwise', got, Jf * field[..., None, None],
                        'C20/apply_polarization_optic/elementwise', 'apply_polarization_optic != optic * field[..., None, None]', desc)


# ------------------------------------------------------------------------------------------ hardening workloads
class Tagged:
    """View of the run context that appends a class label to every violation key and descriptor class going through it."""

    def __init__(self, ctx, suffix):
        self._ctx = ctx
        self._suffix = suffix

    def __getattr__(self, k):
        return getattr(self._ctx, k)

    def violation(self, key, what, desc=None, **detail):
        self._ctx.violation(key + '/' + self._suffix, what, desc, **detail)

    def case(self, desc, nontrivial=True, cls=None):
        d = dict(desc)
        d['phase'] = self._suffix
        d['class'] = f"{self._suffix}:{d.get('class')}"
        self._ctx.case(d, nontrivial=nontrivial, cls=cls)

    close = Ctx.close
    equal = Ctx.equal
    require = Ctx.require
    guard = Ctx.guard


class phase:
    """with phase(tagged_ctx, tol): contracts report to the tagged context, the module tolerance is swapped."""

    def __init__(self, ctx, tol):
        self.ctx, self.tol = ctx, tol

    def __enter__(self):
        global CTX, TOL
        self.old = (CTX, TOL)
        CTX, TOL = self.ctx, self.tol
        return self.ctx

    def __exit__(self, *a):
        global CTX, TOL
        CTX, TOL = self.old


def _run_precision(ctx):
    """Class C: the whole law suite (reduced) with prysm.conf.config.precision = 32 (complex64 elements, complex64 and
    complex128 inputs), then again under precision 64 at full tolerance: a table built once at 32 bits and kept would poison
    the second pass.  Runs before everything else so that the 32-bit pass is the first use of every routine in the process."""
    from ..util import precision
    from prysm.x import polarization as pol
    t32, t64 = Tagged(ctx, 'precision=32'), Tagged(ctx, 'after-precision-32')
    with precision(32), phase(t32, TOL32):
        ctx.observe('precision32.suite')
        _run(t32, frac=ctx.pick(0.12, 0.06), label='c20-p32')
        # mixed dtypes under precision 32: double-precision Jones matrices handed to the conversions
        g = ctx.rng('c20-p32-mixed')
        for lead in [(), (3,), (2, 2)]:
            A, B = rand_c(g, lead + (2, 2)), rand_c(g, lead + (2, 2))
            desc = {'wl': 'mixed-dtype', 'lead': list(lead), 'input': 'complex128', 'class': 'mueller:complex128-input'}
            t32.case(desc)
            with t32.guard('C20/jones_to_mueller', desc):
                law(t32, 'mueller.multiplicative', pol.jones_to_mueller(A @ B), pol.jones_to_mueller(A) @ pol.jones_to_mueller(B),
                    'C20/jones_to_mueller/not-multiplicative/broadcast=True', 'M(A B) != M(A) M(B) (complex128 input under precision 32)', desc)
                c = pol.pauli_coefficients(A)
                rec = sum(np.asarray(ci)[..., None, None] * pol.pauli_spin_matrix(i, shape=lead if lead != () else None) for i, ci in enumerate(c))
                law(t32, 'pauli.reconstruct', rec, A, 'C20/pauli/reconstruction', 'sum_i c_i sigma_i != J (complex128 input under precision 32)', desc)
    with phase(t64, TOL64):
        ctx.observe('precision32-then-64.suite')
        _run(t64, frac=ctx.pick(0.12, 0.06), label='c20-p32')     # the same label: the same cases as in the 32-bit pass
        # mixed dtypes under precision 64: single-precision Jones matrices (float32 tolerance: the data carry 6e-8)
        g = ctx.rng('c20-p64-mixed')
        for lead in [(), (3,), (2, 2)]:
            A, B = rand_c(g, lead + (2, 2)).astype(np.complex64), rand_c(g, lead + (2, 2)).astype(np.complex64)
            desc = {'wl': 'mixed-dtype', 'lead': list(lead), 'input': 'complex64', 'class': 'mueller:complex64-input'}
            t64.case(desc)
            with t64.guard('C20/jones_to_mueller', desc):
                law(t64, 'mueller.multiplicative', pol.jones_to_mueller(A @ B), pol.jones_to_mueller(A) @ pol.jones_to_mueller(B),
                    'C20/jones_to_mueller/not-multiplicative/broadcast=True/complex64-input', 'M(A B) != M(A) M(B) (complex64 input)', desc,
                    tol=TOL32)


LAYOUTS = ['C', 'F', 'strided', 'moved-axes']


def _lay(a, how):
    """The same Jones batch (..., 2, 2) in another memory layout."""
    if how == 'C':
        return np.ascontiguousarray(a)
    if how == 'F':
        return np.asfortranarray(a)
    if how == 'strided':
        big = np.zeros(a.shape[:-2] + (4, 6), dtype=a.dtype)
        big[..., ::2, 1::3] = a
        return big[..., ::2, 1::3]
    # matrix axes stored first in memory, leading axes last
    return np.moveaxis(np.ascontiguousarray(np.moveaxis(a, (-2, -1), (0, 1))), (0, 1), (-2, -1))


def _run_repeat(ctx):
    """Class A: the same array objects (theta grids, retardance arrays, Jones batches) passed again to the same and to other
    routines of the property; arrays the routines returned edited by the caller before the next call; Jones batches in other
    memory layouts; angles / shapes in other scalar and container types."""
    from prysm.x import polarization as pol
    from prysm import propagation
    rng = ctx.rng('c20-repeat')
    n = ctx.share(ctx.pick(120, 12000))
    leads = [(), (1,), (3,), (2, 2), (4, 3), (2, 1, 3), (8, 8)]
    for it in range(n):
        sub = ctx.subseed(rng)
        g = np.random.default_rng(sub)
        lead = leads[it % len(leads)]
        layout = LAYOUTS[(it // len(leads)) % len(LAYOUTS)]
        th, d1, rot = angle(g), angle(g), angle(g)
        charge = [2, 1, -1, 3, 0.5, 4][it % 6]
        desc = {'wl': 'repeat', 'lead': list(lead), 'layout': layout, 'theta': th, 'ret': d1, 'charge': charge, 'rotate': rot,
                'subseed': sub, 'class': f'repeat:lead{len(lead)}d:{layout}'}
        ctx.case(desc)
        ctx.observe('repeat.cases')
        # ---- constructors: what they return belongs to the caller; a second call must not see the caller's edits
        with ctx.guard('C20/repeat/constructors', desc):
            shp = lead if lead != () else None
            ctors = [('jones_rotation_matrix', lambda: pol.jones_rotation_matrix(th, shape=shp)),
                     ('linear_retarder', lambda: pol.linear_retarder(d1, th, shape=shp)),
                     ('half_wave_plate', lambda: pol.half_wave_plate(th, shape=shp)),
                     ('quarter_wave_plate', lambda: pol.quarter_wave_plate(th, shape=shp)),
                     ('linear_polarizer', lambda: pol.linear_polarizer(th, shape=shp)),
                     ('linear_diattenuator', lambda: pol.linear_diattenuator(0.37, th, shape=shp)),
                     ('pauli_spin_matrix', lambda: pol.pauli_spin_matrix(it % 4, shape=shp)),
                     ('linear_pol_vector', lambda: pol.linear_pol_vector(31.0)),
                     ('circular_pol_vector', lambda: pol.circular_pol_vector('left' if it % 2 else 'right'))]
            th_b = th + 0.3
            others = {'jones_rotation_matrix': lambda: pol.jones_rotation_matrix(th_b, shape=shp),
                      'linear_retarder': lambda: pol.linear_retarder(d1 + 0.2, th_b, shape=shp),
                      'half_wave_plate': lambda: pol.half_wave_plate(th_b, shape=shp),
                      'quarter_wave_plate': lambda: pol.quarter_wave_plate(th_b, shape=shp),
                      'linear_polarizer': lambda: pol.linear_polarizer(th_b, shape=shp),
                      'linear_diattenuator': lambda: pol.linear_diattenuator(0.81, th_b, shape=shp),
                      'pauli_spin_matrix': lambda: pol.pauli_spin_matrix((it + 1) % 4, shape=shp),
                      'linear_pol_vector': lambda: pol.linear_pol_vector(75.0),
                      'circular_pol_vector': lambda: pol.circular_pol_vector('right' if it % 2 else 'left')}
            for nm, f in ctors:
                r1 = f()
                keep = np.array(r1)
                others[nm]()                            # a later call with other arguments must leave the earlier result alone
                law(ctx, 'repeat.result-survives-later-call', r1, keep, f'C20/{nm}/repeat/result-changed-by-later-call',
                    f'an array {nm} returned changes when {nm} is called again with other arguments', desc)
                r1[...] = 7.5 - 2j                      # the caller scribbles over what it was handed
                r2 = f()
                law(ctx, 'repeat.result-owned-by-caller', r2, keep, f'C20/{nm}/repeat/after-caller-edits-result',
                    f'{nm} returns something else after the caller modified the array a previous call returned', desc)
        # ---- the same theta grid through the vortex retarder and the rotation matrix, twice
        with ctx.guard('C20/repeat/theta-grid', desc):
            gshape = lead if lead != () else (3,)
            theta = g.uniform(-math.pi, math.pi, gshape)
            theta0 = theta.copy()
            V1 = np.array(pol.vector_vortex_retarder(charge, theta, d1, rot))
            R1 = np.array(pol.jones_rotation_matrix(theta, shape=gshape))
            V2 = pol.vector_vortex_retarder(charge, theta, d1, rot)
            law(ctx, 'repeat.same-args', V2, V1, 'C20/vector_vortex_retarder/repeat/same-theta-object',
                'vector_vortex_retarder called twice with the same theta array gives two results', desc)
            law(ctx, 'vortex.reference', V2, ref_vortex(charge, theta0, d1, rot), 'C20/vector_vortex_retarder/ne-mawet-eq7',
                'vortex retarder (second call with the same theta array) differs from Mawet et al. eq. 7', desc)
            law(ctx, 'repeat.same-args', pol.jones_rotation_matrix(theta, shape=gshape), R1,
                'C20/jones_rotation_matrix/repeat/same-theta-object', 'jones_rotation_matrix called twice with the same theta array gives '
                'two results', desc)
            # theta in other dtypes / containers: float32 grid (single-precision data), 0-d array, numpy scalars
            t32 = theta0.astype(np.float32)
            law(ctx, 'repeat.argument-forms', pol.vector_vortex_retarder(charge, t32, d1, rot), ref_vortex(charge, t32.astype(float), d1, rot),
                'C20/vector_vortex_retarder/theta-float32', 'vortex retarder on a float32 theta grid differs from eq. 7 on the same values',
                desc, tol=TOL32)
            for form, val in (('numpy-float64', np.float64(th)), ('0-d-array', np.array(th)), ('numpy-float32', np.float32(th))):
                tl = TOL32 if form == 'numpy-float32' else None
                want = pol.linear_retarder(d1, float(val))
                law(ctx, 'repeat.argument-forms', pol.linear_retarder(d1, val), want, f'C20/linear_retarder/theta-as-{form}',
                    f'linear_retarder(theta as {form}) != linear_retarder(theta as float)', desc, tol=tl)
                law(ctx, 'repeat.argument-forms', pol.jones_rotation_matrix(val), pol.jones_rotation_matrix(float(val)),
                    f'C20/jones_rotation_matrix/theta-as-{form}', f'jones_rotation_matrix(theta as {form}) != the float form', desc, tol=tl)
            if lead != ():
                want = pol.half_wave_plate(th, shape=lead)
                for form, val in (('list', list(lead)),):          # the documented type of shape is a list; tuples are what prysm itself passes
                    law(ctx, 'repeat.argument-forms', pol.half_wave_plate(th, shape=val), want, f'C20/half_wave_plate/shape-as-{form}',
                        f'half_wave_plate(shape as {form}) != shape as tuple', desc)
                ret = g.uniform(-2 * math.pi, 2 * math.pi, lead)
                ret0 = ret.copy()
                b1 = np.array(pol.linear_retarder(ret, th, shape=lead))
                b2 = pol.linear_retarder(ret, th, shape=lead)
                law(ctx, 'repeat.same-args', b2, b1, 'C20/linear_retarder/repeat/same-retardance-object',
                    'linear_retarder called twice with the same retardance array gives two results', desc)
                ref = np.empty(lead + (2, 2), dtype=complex)
                for ix in np.ndindex(*lead):
                    ref[ix] = pol.linear_retarder(float(ret0[ix]), th)
                law(ctx, 'element.batched', b2, ref, 'C20/linear_retarder/batched!=per-element/array-retardance',
                    'linear_retarder(array retardance), second call with the same array != per-element construction', desc)
        # ---- one Jones batch through every consumer, twice, in the given memory layout
        with ctx.guard('C20/repeat/jones-batch', desc):
            A0, B0 = rand_c(g, lead + (2, 2)), rand_c(g, lead + (2, 2))
            A, B = _lay(A0, layout), _lay(B0, layout)
            refM = np.empty(lead + (4, 4))
            kr = np.empty(lead + (4, 4), dtype=complex)
            for ix in np.ndindex(*lead):
                refM[ix] = ref_mueller(A0[ix])
                kr[ix] = np.kron(A0[ix], B0[ix])
            k1 = pol.broadcast_kron(A, B)
            m1 = pol.jones_to_mueller(A)
            m1keep = np.array(m1)
            pol.broadcast_kron(B, A)
            pol.jones_to_mueller(B)
            law(ctx, 'repeat.result-survives-later-call', k1, kr, 'C20/broadcast_kron/repeat/result-changed-by-later-call',
                'an array broadcast_kron returned changes when broadcast_kron is called again with other arguments', desc)
            law(ctx, 'repeat.result-survives-later-call', m1, m1keep, 'C20/jones_to_mueller/repeat/result-changed-by-later-call',
                'a Mueller matrix jones_to_mueller returned changes when jones_to_mueller is called again', desc)
            for rnd in (0, 1):
                MA = pol.jones_to_mueller(A)
                ctx.observe('mueller.reference')
                sc = max(1.0, maxabs(refM))
                e = min(maxabs(MA - refM), maxabs(MA - D3 @ refM @ D3)) if MA.shape == refM.shape else float('inf')
                if not e <= TOL * sc:
                    ctx.violation('C20/jones_to_mueller/ne-pauli-trace-reference' + ('' if layout == 'C' and rnd == 0 else '/array-reused-or-layout'),
                                  'M != (1/2) tr(s_i J s_j J^H) in either S3 sign convention (same Jones array passed again / other memory layout)',
                                  desc, err=e, round=rnd)
                law(ctx, 'kron.eq-numpy', pol.broadcast_kron(A, B), kr, 'C20/broadcast_kron/ne-numpy-kron',
                    'broadcast_kron != numpy.kron per element (same arrays passed again / other memory layout)', desc)
                c = pol.pauli_coefficients(A)
                rec = sum(np.asarray(ci)[..., None, None] * SIG[i] for i, ci in enumerate(c))
                law(ctx, 'pauli.reconstruct', rec, A0, 'C20/pauli/reconstruction', 'sum_i c_i sigma_i != J (same array passed again / other '
                    'memory layout)', desc)
                MAB = pol.jones_to_mueller(A @ B)
                law(ctx, 'mueller.multiplicative', MAB, MA @ pol.jones_to_mueller(B), 'C20/jones_to_mueller/not-multiplicative/broadcast=True',
                    'M(A B) != M(A) M(B) (arrays re-used)', desc)
                MA[...] = 0.0                         # the caller edits the Mueller matrix it was handed before the next round
            if len(lead) == 2:
                fname = PROP_FUNCS[it % len(PROP_FUNCS)]
                f = getattr(propagation, fname)
                args, kw = {'focus': ((2,), {}), 'unfocus': ((2,), {}), 'angular_spectrum': ((0.6, 0.1, 15.0), {'Q': 1}),
                            'focus_fixed_sampling': ((0.1, 100.0, 0.5, 3.0, 5), {}),
                            'unfocus_fixed_sampling': ((3.0, 100.0, 0.5, 0.1, 5), {})}[fname]
                try:
                    with quiet():
                        comps = [[np.asarray(f(A0[..., i, j].copy(), *args, **kw)) for j in range(2)] for i in range(2)]
                except Exception as e:
                    ctx.skip(f'adapter: scalar {fname} itself raises {type(e).__name__} on this input (not a C20 matter)')
                    comps = None
                if comps is not None:
                    ref = np.empty(comps[0][0].shape + (2, 2), dtype=np.result_type(*[c_.dtype for row in comps for c_ in row]))
                    for i in range(2):
                        for j in range(2):
                            ref[..., i, j] = comps[i][j]
                    ad = pol.jones_adapter(f)
                    o1 = ad(A, *args, **kw)
                    ad(B, *args, **kw)
                    law(ctx, 'repeat.result-survives-later-call', o1, ref, f'C20/jones_adapter/{fname}/result-changed-by-later-call',
                        f'the field jones_adapter({fname}) returned changes when the adapter is called again with another field', desc)
                    for rnd in (0, 1):
                        out = ad(A, *args, **kw)
                        law(ctx, 'adapter.componentwise', out, ref, f'C20/jones_adapter/{fname}/component-mismatch',
                            f'jones_adapter({fname})(J)[..., i, j] != {fname}(J[..., i, j]) (same Jones field passed again / other '
                            'memory layout)', desc)
                        out[...] = 0.0
                    field = rand_c(g, lead)
                    got = pol.apply_polarization_optic(field, A)
                    got2 = pol.apply_polarization_optic(field, A)
                    law(ctx, 'apply_polarization_optic.elementwise', got2, A0 * field[..., None, None],
                        'C20/apply_polarization_optic/elementwise', 'apply_polarization_optic != optic * field[..., None, None] '
                        '(second call with the same arrays)', desc)
                    del got


def _run_long_history(ctx):
    """Class D: long call histories.  Each routine that could keep a table between calls is called thousands of times (under
    precision 64: more than the 2^-1074 underflow horizon of a repeated in-place scaling by 1/sqrt 2, i.e. > 2150 calls; under
    precision 32: > 300), and the *last* calls are judged."""
    from ..util import precision
    from prysm.x import polarization as pol
    g = ctx.rng('c20-long')
    for bits, ncall, tag, tol in ((64, ctx.pick(2600, 30000), 'precision=64', TOL64), (32, ctx.pick(700, 10000), 'precision=32', TOL32)):
        t = Tagged(ctx, 'long-history/' + tag)
        with precision(bits), phase(t, tol):
            desc = {'wl': 'long-history', 'calls': ncall, 'bits': bits, 'class': f'history:{tag}'}
            t.case(desc)
            ctx.observe('long-history.cases')
            with t.guard('C20/long-history', desc):
                A, B = rand_c(g, (2, 2)), rand_c(g, (3, 2, 2))
                if bits == 32:
                    A, B = A.astype(np.complex64), B.astype(np.complex64)
                for i in range(ncall):
                    MA = pol.jones_to_mueller(A, broadcast=bool(i % 2))
                    MB = pol.jones_to_mueller(B)
                    pol.pauli_spin_matrix(i % 4)
                    pol.jones_rotation_matrix(0.3)
                    pol.broadcast_kron(B, B)
                    if i % 97 == 0 or i >= ncall - 3:
                        refM = ref_mueller(A.astype(complex))
                        e = min(maxabs(MA - refM), maxabs(MA - D3 @ refM @ D3))
                        t.require('long-history.mueller', e <= TOL * max(1.0, maxabs(refM)), 'C20/jones_to_mueller/ne-pauli-trace-reference',
                                  'after a long history of conversions M != (1/2) tr(s_i J s_j J^H)', dict(desc, call=i), err=e)
                        law(t, 'long-history.mueller', pol.jones_to_mueller(B @ B), MB @ MB, 'C20/jones_to_mueller/not-multiplicative/broadcast=True',
                            'after a long history of conversions M(A B) != M(A) M(B)', dict(desc, call=i))
                        law(t, 'long-history.elements', pol.half_wave_plate(0.3) @ pol.half_wave_plate(0.3), I2, 'C20/half_wave_plate/group-law',
                            'after a long history HWP^2 != I', dict(desc, call=i))
                        c = pol.pauli_coefficients(A)
                        rec = sum(np.asarray(ci)[..., None, None] * pol.pauli_spin_matrix(k) for k, ci in enumerate(c))
                        law(t, 'long-history.elements', rec, A, 'C20/pauli/reconstruction', 'after a long history sum c_i sigma_i != J',
                            dict(desc, call=i))


# ---- argument forms of the element constructors and of the Mueller / Pauli / Kronecker routines (hardening pass 2, class E) ------
# Accepted forms established by running the current tree (/repo @ faa8443) with every candidate: angles / retardances / alpha /
# charge / rotate as python int (integral values) and float, numpy float64 / int64 scalars, 0-d arrays, and float32 scalars / 0-d
# arrays (single-precision data: complex64 threshold); shape= as tuple / list / int ndarray / tuple of numpy ints / range, () and [] like
# None; Jones arrays as complex128 / complex64 / float64 / float32 / int64 / int32 / uint8 (and bool for jones_to_mueller and
# broadcast_kron; pauli_coefficients raises for bool and wraps around for unsigned integers: out of domain); broadcast= as True / False / 1 / 0 / numpy bool.  Python bool
# angles (numpy evaluates cos(True) in half precision), lists for Jones arrays (no .shape), a python float or list for the vortex theta
# (no .shape) raise or are something else today: out of domain.  Jones *vectors* are not part of the property (only Malus uses them).
SCALAR_FORMS = ['python-int', 'numpy-float64', 'numpy-int64', '0d-float64', 'numpy-float32', '0d-float32']
SHAPE_FORMS = ['list', 'ndarray', 'tuple-of-numpy-ints', 'range']
JONES_DTYPES = ['complex64', 'float64', 'float32', 'int64', 'int32', 'uint8', 'bool']
FORM_LEADS = [(), (1,), (2,), (3,), (2, 2), (2, 3), (2, 2, 2), (1, 2)]


def _scalar_form(v, form):
    if form == 'python-int':
        return int(v)
    if form == 'numpy-float64':
        return np.float64(v)
    if form == 'numpy-int64':
        return np.int64(int(v))
    if form == '0d-float64':
        return np.array(float(v))
    if form == 'numpy-float32':
        return np.float32(v)
    if form == '0d-float32':
        return np.array(v, dtype=np.float32)
    raise ValueError(form)


def _shape_form(shp, form):
    if form == 'list':
        return list(shp)
    if form == 'ndarray':
        return np.array(shp, dtype=np.int64)
    if form == 'tuple-of-numpy-ints':
        return tuple([np.int64, np.int32, np.intp][i % 3](s) for i, s in enumerate(shp))
    if form == 'range':
        return range(shp[0], shp[0] + len(shp)) if len(shp) and list(shp) == list(range(shp[0], shp[0] + len(shp))) else None
    raise ValueError(form)


def ref_retarder(d, th):
    return ref_rot(-th) @ np.array([[1, 0], [0, np.exp(1j * d)]]) @ ref_rot(th)


def ref_diattenuator(a, th):
    return ref_rot(-th) @ np.array([[1, 0], [0, a]], dtype=complex) @ ref_rot(th)


def _run_forms(ctx):
    """Class E for everything except the propagation adapter: the same mathematical argument in every accepted form gives the
    element / Mueller matrix / coefficients of the canonical form, and an independent closed form."""
    from prysm.x import polarization as pol
    rng = ctx.rng('c20-forms')
    n = ctx.share(ctx.pick(160, 9000))
    for it in range(n):
        sub = ctx.subseed(rng)
        g = np.random.default_rng(sub)
        integral = it % 3 == 0
        if integral:
            th, d, rot = float(g.integers(-6, 7)), float(g.integers(-6, 7)), float(g.integers(-3, 4))
            alpha = float(g.integers(0, 2))
            charge = float(g.integers(-3, 7))
        else:
            th, d, rot = angle(g), angle(g), angle(g)
            alpha = float(g.uniform(0, 1))
            charge = float([2, 1, -1, 3, 0.5, 4, -2.5][it % 7])
        lead = FORM_LEADS[it % len(FORM_LEADS)]
        shp = lead if lead != () else None
        desc = {'wl': 'argument-forms', 'theta': th, 'ret': d, 'rotate': rot, 'alpha': alpha, 'charge': charge, 'lead': list(lead),
                'subseed': sub, 'class': f'forms:{"integral" if integral else "generic"}:lead{len(lead)}d'}
        ctx.case(desc)
        forms = [f for f in SCALAR_FORMS if integral or 'int' not in f]
        theta_grid = g.uniform(-math.pi, math.pi, lead if lead != () else (3,))
        with ctx.guard('C20/forms/constructors', desc):
            # canonical (python float) forms, judged against the closed forms first
            canon = {
                'jones_rotation_matrix': pol.jones_rotation_matrix(th),
                'linear_retarder': pol.linear_retarder(d, th),
                'half_wave_plate': pol.half_wave_plate(th),
                'quarter_wave_plate': pol.quarter_wave_plate(th),
                'linear_polarizer': pol.linear_polarizer(th),
                'linear_diattenuator': pol.linear_diattenuator(alpha, th),
                'vector_vortex_retarder': pol.vector_vortex_retarder(charge, theta_grid.copy(), d, rot),
            }
            closed = {
                'jones_rotation_matrix': ref_rot(th), 'linear_retarder': ref_retarder(d, th), 'half_wave_plate': ref_retarder(math.pi, th),
                'quarter_wave_plate': ref_retarder(math.pi / 2, th), 'linear_polarizer': ref_diattenuator(0.0, th),
                'linear_diattenuator': ref_diattenuator(alpha, th),
            }
            for nm, want in closed.items():
                law(ctx, 'form.closed-form', canon[nm], want, f'C20/{nm}/ne-closed-form', f'{nm} differs from R(-th) diag(1, x) R(th) written out', desc)
            for f in forms:
                tl = TOL32 if 'float32' in f else None
                T, D, A_, C_, Ro = _scalar_form(th, f), _scalar_form(d, f), _scalar_form(alpha, f), _scalar_form(charge, f), _scalar_form(rot, f)
                # float32 forms stand for the float32-rounded value
                thv, dv, av, cv, rv = (float(np.asarray(x)) for x in (T, D, A_, C_, Ro))
                calls = [
                    ('jones_rotation_matrix', 'theta', lambda: pol.jones_rotation_matrix(T), ref_rot(thv)),
                    ('linear_retarder', 'theta', lambda: pol.linear_retarder(d, T), ref_retarder(d, thv)),
                    ('linear_retarder', 'retardance', lambda: pol.linear_retarder(D, th), ref_retarder(dv, th)),
                    ('half_wave_plate', 'theta', lambda: pol.half_wave_plate(T), ref_retarder(math.pi, thv)),
                    ('quarter_wave_plate', 'theta', lambda: pol.quarter_wave_plate(T), ref_retarder(math.pi / 2, thv)),
                    ('linear_polarizer', 'theta', lambda: pol.linear_polarizer(T), ref_diattenuator(0.0, thv)),
                    ('linear_diattenuator', 'theta', lambda: pol.linear_diattenuator(alpha, T), ref_diattenuator(alpha, thv)),
                    ('linear_diattenuator', 'alpha', lambda: pol.linear_diattenuator(A_, th), ref_diattenuator(av, th)),
                    ('vector_vortex_retarder', 'retardance', lambda: pol.vector_vortex_retarder(charge, theta_grid.copy(), D, rot),
                     ref_vortex(charge, theta_grid, dv, rot)),
                    ('vector_vortex_retarder', 'rotate', lambda: pol.vector_vortex_retarder(charge, theta_grid.copy(), d, Ro),
                     ref_vortex(charge, theta_grid, d, rv)),
                    ('vector_vortex_retarder', 'charge', lambda: pol.vector_vortex_retarder(C_, theta_grid.copy(), d, rot),
                     ref_vortex(cv, theta_grid, d, rot)),
                ]
                for nm, arg, call, want in calls:
                    if nm == 'vector_vortex_retarder' and abs(math.cos(dv if arg == 'retardance' else d)) > 2 and False:
                        continue
                    with ctx.guard(f'C20/{nm}/form:{arg}={f}', dict(desc, form=f)):
                        law(ctx, 'form.scalar-arguments', call(), want, f'C20/{nm}/form:{arg}={f}',
                            f'{nm} with {arg} given as {f} differs from the closed form for the same value', dict(desc, form=f), tol=tl)
            # ---- keyword vs positional, omitted vs explicit default (also right after calls with other values)
            pol.linear_retarder(d, th + 0.4)
            pol.jones_rotation_matrix(0.9)
            pairs = [
                ('linear_retarder', 'theta=omitted', pol.linear_retarder(d), ref_retarder(d, 0.0)),
                ('linear_retarder', 'call=keywords', pol.linear_retarder(retardance=d, theta=th, shape=None), ref_retarder(d, th)),
                ('linear_diattenuator', 'theta=omitted', pol.linear_diattenuator(alpha), ref_diattenuator(alpha, 0.0)),
                ('linear_diattenuator', 'call=keywords', pol.linear_diattenuator(alpha=alpha, theta=th, shape=None), ref_diattenuator(alpha, th)),
                ('half_wave_plate', 'theta=omitted', pol.half_wave_plate(), ref_retarder(math.pi, 0.0)),
                ('half_wave_plate', 'call=keywords', pol.half_wave_plate(theta=th, shape=None), ref_retarder(math.pi, th)),
                ('quarter_wave_plate', 'theta=omitted', pol.quarter_wave_plate(), ref_retarder(math.pi / 2, 0.0)),
                ('quarter_wave_plate', 'call=keywords', pol.quarter_wave_plate(theta=th), ref_retarder(math.pi / 2, th)),
                ('linear_polarizer', 'theta=omitted', pol.linear_polarizer(), ref_diattenuator(0.0, 0.0)),
                ('linear_polarizer', 'call=keywords', pol.linear_polarizer(theta=th), ref_diattenuator(0.0, th)),
                ('jones_rotation_matrix', 'call=keywords', pol.jones_rotation_matrix(theta=th, shape=None), ref_rot(th)),
                ('vector_vortex_retarder', 'retardance,rotate=omitted', pol.vector_vortex_retarder(charge, theta_grid.copy()),
                 ref_vortex(charge, theta_grid, math.pi, 0.0)),
                ('vector_vortex_retarder', 'call=keywords', pol.vector_vortex_retarder(charge=charge, theta=theta_grid.copy(), retardance=d, rotate=rot),
                 ref_vortex(charge, theta_grid, d, rot)),
            ]
            for nm, lab, got, want in pairs:
                law(ctx, 'form.call-syntax', got, want, f'C20/{nm}/form:{lab}', f'{nm} with {lab} differs from the closed form of the documented '
                    'defaults / of the same values', dict(desc, form=lab))
            # ---- vortex theta grid forms
            tg = np.round(theta_grid) if integral else theta_grid
            grid_forms = [('float32', tg.astype(np.float32), TOL32), ('F-order', np.asfortranarray(tg), None), ('read-only', None, None),
                          ('strided-view', None, None)]
            if integral:
                grid_forms.append(('int64', tg.astype(np.int64), None))
            ro = tg.copy()
            ro.setflags(write=False)
            big = np.zeros(tg.shape[:-1] + (tg.shape[-1] * 2,))
            big[..., ::2] = tg
            for lab, arr, tl in grid_forms:
                arr = ro if lab == 'read-only' else big[..., ::2] if lab == 'strided-view' else arr
                with ctx.guard(f'C20/vector_vortex_retarder/form:theta={lab}', dict(desc, form=lab)):
                    for ch in (charge, charge + 0.5):         # an integer grid times a half-integer charge is not an integer grid
                        law(ctx, 'form.scalar-arguments', pol.vector_vortex_retarder(ch, arr, d, rot),
                            ref_vortex(ch, np.asarray(arr, dtype=float), d, rot), f'C20/vector_vortex_retarder/form:theta={lab}',
                            f'vortex retarder on a theta grid given as {lab} differs from Mawet et al. eq. 7 on the same values',
                            dict(desc, form=lab, charge=ch), tol=tl)
            law(ctx, 'form.scalar-arguments', pol.vector_vortex_retarder(charge, np.float64(th), d, rot), ref_vortex(charge, np.array(th), d, rot),
                'C20/vector_vortex_retarder/form:theta=numpy-float64-scalar', 'vortex retarder for one angle given as a numpy scalar differs '
                'from eq. 7', desc)
            # ---- shape= forms
            if lead != ():
                for f in SHAPE_FORMS:
                    sf = _shape_form(lead, f)
                    if sf is None:
                        continue
                    d2 = dict(desc, form=f)
                    with ctx.guard(f'C20/forms/shape={f}', d2):
                        for nm, got, one in (('linear_retarder', pol.linear_retarder(d, th, shape=sf), ref_retarder(d, th)),
                                             ('half_wave_plate', pol.half_wave_plate(th, sf), ref_retarder(math.pi, th)),
                                             ('quarter_wave_plate', pol.quarter_wave_plate(th, shape=sf), ref_retarder(math.pi / 2, th)),
                                             ('linear_polarizer', pol.linear_polarizer(th, shape=sf), ref_diattenuator(0.0, th)),
                                             ('linear_diattenuator', pol.linear_diattenuator(alpha, th, sf), ref_diattenuator(alpha, th)),
                                             ('jones_rotation_matrix', pol.jones_rotation_matrix(th, sf), ref_rot(th)),
                                             ('pauli_spin_matrix', pol.pauli_spin_matrix(it % 4, shape=sf), SIG[it % 4])):
                            law(ctx, 'form.shape', got, np.broadcast_to(one, lead + (2, 2)), f'C20/{nm}/form:shape={f}',
                                f'{nm}(shape given as {f}) is not the closed-form element repeated over that shape', d2)
            for f, sf in (('empty-tuple', ()), ('empty-list', [])):
                law(ctx, 'form.shape', pol.linear_retarder(d, th, shape=sf), ref_retarder(d, th), f'C20/linear_retarder/form:shape={f}',
                    f'linear_retarder(shape={f}) is not the 2x2 element', dict(desc, form=f))
            for f, ix in (('numpy-int64', np.int64(it % 4)), ('numpy-uint8', np.uint8(it % 4)), ('numpy-intp', np.intp(it % 4))):     # the documented type is int
                law(ctx, 'form.scalar-arguments', pol.pauli_spin_matrix(ix), SIG[it % 4], f'C20/pauli_spin_matrix/form:index={f}',
                    f'pauli_spin_matrix with the index given as {f} is not that Pauli matrix', dict(desc, form=f))
        # ---- Jones arrays of every dtype kind through the Mueller / Pauli / Kronecker routines
        with ctx.guard('C20/forms/jones-dtypes', desc):
            A0 = np.round(rand_c(g, lead + (2, 2)) * 2)
            B0 = rand_c(g, lead + (2, 2))
            for dt in JONES_DTYPES:
                d2 = dict(desc, form=dt)
                if dt.startswith('complex'):
                    A = (A0 + 0.37 * rand_c(g, lead + (2, 2))).astype(dt)
                elif dt.startswith('float'):
                    A = (A0.real + 0.37 * g.standard_normal(lead + (2, 2))).astype(dt)
                elif dt == 'bool':
                    A = A0.real > 0
                elif dt == 'uint8':
                    A = np.abs(A0.real).astype(dt)
                else:
                    A = A0.real.astype(dt)
                Ac = A.astype(complex)
                tl = TOL32 if dt in ('complex64', 'float32') else None
                refM = np.empty(lead + (4, 4))
                kr = np.empty(lead + (4, 4), dtype=complex)
                for ix in np.ndindex(*lead):
                    refM[ix] = ref_mueller(Ac[ix])
                    kr[ix] = np.kron(Ac[ix], B0[ix])
                with ctx.guard(f'C20/jones_to_mueller/form:jones={dt}', d2):
                    M = pol.jones_to_mueller(A)
                    ctx.observe('form.jones-dtypes')
                    sc = max(1.0, maxabs(refM))
                    e = min(maxabs(M - refM), maxabs(M - D3 @ refM @ D3)) if np.shape(M) == refM.shape else float('inf')
                    if not e <= (tl or TOL) * sc:
                        ctx.violation(f'C20/jones_to_mueller/form:jones={dt}', f'Mueller matrix of a {dt} Jones array differs from (1/2) tr(s_i J s_j J^H) '
                                      'of the same values', d2, err=e)
                    law(ctx, 'form.jones-dtypes', M, pol.jones_to_mueller(Ac), f'C20/jones_to_mueller/form:jones={dt}',
                        f'Mueller matrix of a {dt} Jones array differs from that of the same values as complex128', d2, tol=tl)
                    for f, bc in (('1', 1), ('numpy-bool', np.bool_(True)), ('keyword', None)):
                        got = pol.jones_to_mueller(jones=A, broadcast=True) if bc is None else pol.jones_to_mueller(A, bc)
                        law(ctx, 'form.call-syntax', got, M, f'C20/jones_to_mueller/form:broadcast={f}', 'jones_to_mueller with broadcast given '
                            f'as {f} differs from broadcast=True', d2, tol=tl)
                    pol.jones_to_mueller(Ac.reshape(-1, 2, 2)[0], broadcast=False)
                    law(ctx, 'form.call-syntax', pol.jones_to_mueller(A), M, 'C20/jones_to_mueller/form:broadcast=omitted',
                        'jones_to_mueller without broadcast= differs from broadcast=True after a broadcast=False call', d2, tol=tl)
                    if lead == ():
                        for f, bc in (('0', 0), ('numpy-bool', np.bool_(False))):
                            law(ctx, 'form.call-syntax', pol.jones_to_mueller(A, bc), pol.jones_to_mueller(A, False),
                                f'C20/jones_to_mueller/form:broadcast={f}', f'jones_to_mueller with broadcast given as {f} differs from broadcast=False',
                                d2, tol=tl)
                        law(ctx, 'form.jones-dtypes', pol.jones_to_mueller(A, False), M, f'C20/jones_to_mueller/form:jones={dt}/broadcast=False',
                            f'broadcast=False Mueller matrix of a {dt} Jones matrix differs from the broadcast=True one', d2, tol=tl)
                with ctx.guard(f'C20/broadcast_kron/form:a={dt}', d2):
                    law(ctx, 'form.jones-dtypes', pol.broadcast_kron(A, B0), kr, f'C20/broadcast_kron/form:a={dt}',
                        f'broadcast_kron of a {dt} array differs from numpy.kron per element', d2, tol=tl)
                    law(ctx, 'form.jones-dtypes', pol.broadcast_kron(a=B0, b=A), np.stack([np.kron(B0[ix], Ac[ix]) for ix in np.ndindex(*lead)]).reshape(lead + (4, 4))
                        if lead != () else np.kron(B0, Ac), f'C20/broadcast_kron/form:b={dt}',
                        f'broadcast_kron with a {dt} second factor (keyword form) differs from numpy.kron per element', d2, tol=tl)
                if dt not in ('bool', 'uint8'):      # unsigned subtraction wraps (numpy semantics), bool subtraction raises: out of domain
                    with ctx.guard(f'C20/pauli_coefficients/form:jones={dt}', d2):
                        c = pol.pauli_coefficients(A)
                        rec = sum(np.asarray(ci)[..., None, None] * SIG[i] for i, ci in enumerate(c))
                        law(ctx, 'form.jones-dtypes', rec, Ac, f'C20/pauli/form:jones={dt}', f'Pauli coefficients of a {dt} Jones array do not '
                            'reconstruct it', d2, tol=tl)
        # ---- a matrix a constructor handed out is edited by the caller; every constructor is then judged at the same angles
        with ctx.guard('C20/forms/returned-matrix-edited', desc):
            for a_ in (th, -th, 0.0, 0, rot, -rot):
                pol.jones_rotation_matrix(a_)[...] = 3.0 - 1j
            pol.half_wave_plate()[...] = 0.0
            pol.quarter_wave_plate(th)[...] = 0.0
            pol.linear_polarizer()[...] = 9.0
            pol.linear_retarder(d, th)[...] = 1j
            pol.pauli_spin_matrix(it % 4)[...] = 5.0
            pol.linear_diattenuator(alpha)[...] = 2.0
            pol.vector_vortex_retarder(charge, theta_grid.copy(), d, rot)[...] = 0.0
            pol.jones_to_mueller(B0)[...] = 4.0
            after = [('jones_rotation_matrix', pol.jones_rotation_matrix(th), ref_rot(th)),
                     ('jones_rotation_matrix', pol.jones_rotation_matrix(-th), ref_rot(-th)),
                     ('linear_retarder', pol.linear_retarder(d, th), ref_retarder(d, th)),
                     ('linear_retarder', pol.linear_retarder(d), ref_retarder(d, 0.0)),
                     ('half_wave_plate', pol.half_wave_plate(), ref_retarder(math.pi, 0.0)),
                     ('half_wave_plate', pol.half_wave_plate(th), ref_retarder(math.pi, th)),
                     ('quarter_wave_plate', pol.quarter_wave_plate(th), ref_retarder(math.pi / 2, th)),
                     ('linear_polarizer', pol.linear_polarizer(), ref_diattenuator(0.0, 0.0)),
                     ('linear_polarizer', pol.linear_polarizer(-th), ref_diattenuator(0.0, -th)),
                     ('linear_diattenuator', pol.linear_diattenuator(alpha), ref_diattenuator(alpha, 0.0)),
                     ('linear_diattenuator', pol.linear_diattenuator(alpha, th), ref_diattenuator(alpha, th)),
                     ('pauli_spin_matrix', pol.pauli_spin_matrix(it % 4), SIG[it % 4]),
                     ('vector_vortex_retarder', pol.vector_vortex_retarder(charge, theta_grid.copy(), d, rot), ref_vortex(charge, theta_grid, d, rot))]
            for nm, got, want in after:
                law(ctx, 'form.returned-matrix-edited', got, want, f'C20/{nm}/after-caller-edits-returned-matrices',
                    f'{nm} differs from its closed form after the caller edited, in place, matrices that earlier constructor calls had returned',
                    desc)
            refM = np.empty(lead + (4, 4))
            for ix in np.ndindex(*lead):
                refM[ix] = ref_mueller(B0[ix])
            M = pol.jones_to_mueller(B0)
            ctx.observe('form.returned-matrix-edited')
            e = min(maxabs(M - refM), maxabs(M - D3 @ refM @ D3))
            if not e <= TOL * max(1.0, maxabs(refM)):
                ctx.violation('C20/jones_to_mueller/after-caller-edits-returned-matrices', 'Mueller matrix differs from the Pauli-trace reference '
                              'after the caller edited a Mueller matrix an earlier call had returned', desc, err=e)


# ---- hardening pass 3 (HARDENING3.md) for everything except the propagation adapter -----------------------------------------------
# H  special values: every orientation that is an exact multiple of 45 degrees in [-360, 360] (as the nearest double) crossed with
#    retardances exactly 0, +-pi/2, +-pi, +-2 pi, 4 pi, also one ulp to either side of each (continuity: the closed forms are smooth),
#    diattenuation exactly 0 / 1 / 0.5, Malus at polariser-minus-analyser angles that are exact multiples of 45 degrees, vortex
#    retarders on theta grids made of exact multiples of 45 degrees.  Every element against its closed form R(-th) diag(1, x) R(th)
#    (global phase included: "rotating an element equals conjugating it with the rotation matrix"), plus the group laws.
# G  magnitudes: jones_to_mueller(e^{i phi} J) == jones_to_mueller(J); jones_to_mueller(s J) == s^2 jones_to_mueller(J),
#    multiplicativity and the Pauli-trace reference for s, t from 1e-12 to 1e12; batches whose elements have different magnitudes
#    (each element judged relative to its own magnitude); pauli_coefficients and broadcast_kron homogeneous; unitary x magnitude x
#    phase gives s^4 I; apply_polarization_optic bilinear.
SPECIAL_THETA = [k * math.pi / 4 for k in range(-8, 9)]
SPECIAL_RET = [0.0, math.pi, 2 * math.pi, -math.pi, math.pi / 2, -math.pi / 2, -2 * math.pi, 4 * math.pi]
MAGNITUDES = [1e-12, 1e-9, 1e-6, 1e-3, 1e3, 1e6, 1e9, 1e12]
REQUIRED = REQUIRED + ['special.closed-form', 'special.laws', 'special.vortex', 'scale.mueller', 'scale.mueller-batch', 'scale.pauli-kron',
                       'scale.apply-optic']
RULE = RULE + ('.  Hardening pass 3 (non-adapter): 17 orientations k x 45 deg x 8 special retardances, exact and +-1 ulp, x 3 diattenuations, '
               'all constructors against closed forms and group laws, vortex retarders on grids of exact multiples of 45 deg (charges '
               '-2..3 and half-integers); Mueller / Pauli / Kronecker / apply_polarization_optic laws on matrices scaled by unit-modulus '
               'phases and by 1e-12 ... 1e12, batches with per-element magnitudes')
ASSUMPTIONS = ASSUMPTIONS + ['special values: an element at an orientation / retardance that is special only to rounding (k pi/4 as a double, '
                             'pi +- 1 ulp) equals the smooth closed form evaluated at that same double to 1e-12; magnitudes: the Mueller map is '
                             'homogeneous of degree 2 and blind to a global phase, the Pauli and Kronecker maps are (bi)linear, so every law is '
                             'judged relative to the magnitude of its own reference (per batch element for mixed batches) at 1e-12']


def _ret_label(d):
    for lab, v in (('0', 0.0), ('pi', math.pi), ('2pi', 2 * math.pi), ('quarter', math.pi / 2), ('4pi', 4 * math.pi)):
        if abs(abs(d) - v) <= 1e-12:
            return lab
    return 'generic'


def _law_rel(ctx, monitor, got, ref, mags, key, what, desc, tol=None):
    """Every batch element relative to its own magnitude `mags` (leading shape of the batch)."""
    got, ref = np.asarray(got), np.asarray(ref)
    if got.shape != ref.shape:
        return ctx.close(monitor, got, ref, key, what, desc)
    m = np.asarray(mags, dtype=float)
    m = m.reshape(m.shape + (1,) * (ref.ndim - m.ndim))
    return law(ctx, monitor, got / m, ref / m, key, what, desc, tol=tol)


def _p3_special(ctx, pol, th, d, alpha, near, desc):
    rc = _ret_label(d)
    st = '/special:theta=k*45deg' + ('~1ulp' if near else '')       # elements that do not take a retardance
    sr = f'/special:theta=k*45deg,ret={rc}' + ('~1ulp' if near else '')

    def sfx_of(nm):
        return sr if nm == 'linear_retarder' else st
    Rt, Rm = ref_rot(th), ref_rot(-th)
    with ctx.guard('C20/special/constructors', desc):
        got = {'jones_rotation_matrix': pol.jones_rotation_matrix(th), 'linear_retarder': pol.linear_retarder(d, th),
               'half_wave_plate': pol.half_wave_plate(th), 'quarter_wave_plate': pol.quarter_wave_plate(th),
               'linear_polarizer': pol.linear_polarizer(th), 'linear_diattenuator': pol.linear_diattenuator(alpha, th)}
        want = {'jones_rotation_matrix': Rt, 'linear_retarder': ref_retarder(d, th), 'half_wave_plate': ref_retarder(math.pi, th),
                'quarter_wave_plate': ref_retarder(math.pi / 2, th), 'linear_polarizer': ref_diattenuator(0.0, th),
                'linear_diattenuator': ref_diattenuator(alpha, th)}
        for nm in got:
            law(ctx, 'special.closed-form', got[nm], want[nm], f'C20/{nm}/ne-closed-form{sfx_of(nm)}',
                f'{nm} at an orientation that is a multiple of 45 degrees / a special retardance differs from R(-th) diag(1, x) R(th)', desc)
        shp = (3,)
        for nm, b in (('linear_retarder', pol.linear_retarder(d, th, shape=shp)), ('half_wave_plate', pol.half_wave_plate(th, shape=shp)),
                      ('quarter_wave_plate', pol.quarter_wave_plate(th, shape=shp)), ('linear_polarizer', pol.linear_polarizer(th, shape=shp)),
                      ('linear_diattenuator', pol.linear_diattenuator(alpha, th, shape=shp))):
            law(ctx, 'special.closed-form', b, np.broadcast_to(want[nm], shp + (2, 2)), f'C20/{nm}/ne-closed-form{sfx_of(nm)}/shape-arg',
                f'{nm}(shape=...) at special values differs from the closed form repeated', desc)
        arr = np.array([d, -d, d])
        law(ctx, 'special.closed-form', pol.linear_retarder(arr.copy(), th, shape=(3,)), np.stack([ref_retarder(v, th) for v in arr]),
            f'C20/linear_retarder/ne-closed-form{sr}/array-retardance', 'linear_retarder(array of special retardances) differs from the closed form', desc)
    with ctx.guard('C20/special/laws', desc):
        J = got['linear_retarder']
        law(ctx, 'special.laws', J @ pol.linear_retarder(-d, th), I2, f'C20/linear_retarder/group-law{sr}', 'J(d, th) J(-d, th) != I', desc)
        law(ctx, 'special.laws', J @ J, pol.linear_retarder(2 * d, th), f'C20/linear_retarder/group-law{sr}', 'J(d, th)^2 != J(2d, th)', desc)
        law(ctx, 'special.laws', J, pol.jones_rotation_matrix(-th) @ pol.linear_retarder(d) @ pol.jones_rotation_matrix(th),
            f'C20/linear_retarder/rotation-conjugation{sr}', 'linear_retarder(d, th) != R(-th) linear_retarder(d, 0) R(th)', desc)
        Hw, Qw, P = got['half_wave_plate'], got['quarter_wave_plate'], got['linear_polarizer']
        law(ctx, 'special.laws', Hw @ Hw, I2, f'C20/half_wave_plate/group-law{st}', 'HWP(th)^2 != I', desc)
        law(ctx, 'special.laws', Qw @ Qw, Hw, f'C20/quarter_wave_plate/group-law{st}', 'QWP(th)^2 != HWP(th)', desc)
        law(ctx, 'special.laws', P @ P, P, f'C20/linear_polarizer/not-idempotent{st}', 'P(th)^2 != P(th)', desc)
        law(ctx, 'special.laws', got['linear_diattenuator'] @ pol.linear_diattenuator(alpha, th), pol.linear_diattenuator(alpha * alpha, th),
            f'C20/linear_diattenuator/product-law{st}', 'D(a, th)^2 != D(a^2, th)', desc)
        # Malus with polariser and analyser both at multiples of 45 degrees (linear_pol_vector takes degrees)
        kk = int(round(th / (math.pi / 4)))
        for dk in (0, 1, 2, 3, -1):
            phi_deg = 45.0 * (kk - dk)
            e = pol.linear_pol_vector(phi_deg)
            law(ctx, 'special.laws', float(np.sum(np.abs(P @ e) ** 2)), math.cos(th - math.radians(phi_deg)) ** 2,
                f'C20/linear_polarizer/malus{st}', '|P(th) e(phi)|^2 != cos^2(th - phi) for th - phi a multiple of 45 degrees', dict(desc, phi_deg=phi_deg), scale=1.0)
        for nm, U in (('linear_retarder', J), ('half_wave_plate', Hw), ('quarter_wave_plate', Qw)):
            M = pol.jones_to_mueller(U)
            ok = law(ctx, 'special.laws', M @ M.T, np.eye(4), f'C20/jones_to_mueller/unitary-not-orthogonal{sfx_of(nm)}', 'unitary Jones matrix: M M^T != I', desc)
            if ok:
                law(ctx, 'special.laws', M[0, 0], 1.0, f'C20/jones_to_mueller/M00!=1{sfx_of(nm)}', 'unitary Jones matrix: M00 != 1', desc)
            refM = ref_mueller(want[nm])
            ctx.observe('special.laws')
            if not min(maxabs(M - refM), maxabs(M - D3 @ refM @ D3)) <= TOL * max(1.0, maxabs(refM)):
                ctx.violation(f'C20/jones_to_mueller/ne-pauli-trace-reference{sfx_of(nm)}', 'Mueller matrix of an element at special values differs from '
                              '(1/2) tr(s_i J s_j J^H) of its closed form in either S3 sign convention', desc)


def _p3_vortex(ctx, pol, g, charge, ret, rot, desc):
    rc = _ret_label(ret)
    sfx = f'/special:theta=k*45deg,ret={rc}'
    grids = [np.array(SPECIAL_THETA), np.array(SPECIAL_THETA[4:13]).reshape(3, 3), np.array(SPECIAL_THETA[g.integers(17)]),
             np.array([SPECIAL_THETA[int(v)] for v in g.integers(0, 17, 8)]).reshape(2, 4)]
    for theta in grids:
        with ctx.guard('C20/vector_vortex_retarder', desc):
            V = pol.vector_vortex_retarder(charge, theta.copy(), ret, rot)
            ctx.observe('special.vortex')
            if maxabs(H(V) @ V - I2) <= TOL:
                law(ctx, 'special.vortex', V, ref_vortex(charge, theta, ret, rot), f'C20/vector_vortex_retarder/ne-mawet-eq7{sfx}',
                    'unitary vortex retarder on a grid of multiples of 45 degrees differs from Mawet et al. eq. 7', dict(desc, grid=list(theta.shape)))
            else:
                ctx.skip('vortex closed-form comparison: element is not unitary (already reported by the contract)')
            V0 = pol.vector_vortex_retarder(charge, theta.copy(), ret, 0)
            law(ctx, 'special.vortex', V, pol.jones_rotation_matrix(-rot) @ V0 @ pol.jones_rotation_matrix(rot),
                f'C20/vector_vortex_retarder/rotation-conjugation{sfx}', 'vortex(rotate) != R(-rot) vortex(0) R(rot)', dict(desc, grid=list(theta.shape)))


def _p3_magnitudes(ctx, pol, g, lead, desc):
    A, B = rand_c(g, lead + (2, 2)), rand_c(g, lead + (2, 2))
    U = rand_unitary(g, lead)
    ones = np.ones(lead)
    with ctx.guard('C20/jones_to_mueller/scale', desc):
        MA, MB = pol.jones_to_mueller(A), pol.jones_to_mueller(B)
        MAB = MA @ MB
        for phi in (math.pi / 2, math.pi, float(g.uniform(-math.pi, math.pi)), -math.pi / 4):
            law(ctx, 'scale.mueller', pol.jones_to_mueller(np.exp(1j * phi) * A), MA, 'C20/jones_to_mueller/scale:global-phase',
                'jones_to_mueller(e^{i phi} J) != jones_to_mueller(J)', dict(desc, phi=phi))
        for s in MAGNITUDES:
            t = MAGNITUDES[int(g.integers(len(MAGNITUDES)))]
            lab = 'tiny' if s < 1 else 'huge'
            d2 = dict(desc, factors=[s, t])
            Ms = pol.jones_to_mueller(s * A)
            _law_rel(ctx, 'scale.mueller', Ms, (s * s) * MA, ones * s * s, f'C20/jones_to_mueller/scale:{lab}/not-homogeneous',
                     'jones_to_mueller(s J) != s^2 jones_to_mueller(J)', d2)
            _law_rel(ctx, 'scale.mueller', pol.jones_to_mueller((s * A) @ (t * B)), Ms @ pol.jones_to_mueller(t * B), ones * (s * t) ** 2,
                     f'C20/jones_to_mueller/scale:{lab}/not-multiplicative', 'M(A B) != M(A) M(B) for matrices of very different magnitude', d2)
            phi = float(g.uniform(-math.pi, math.pi))
            MU = pol.jones_to_mueller(s * np.exp(1j * phi) * U)
            ok = _law_rel(ctx, 'scale.mueller', MU @ np.swapaxes(MU, -1, -2), (s ** 4) * np.broadcast_to(np.eye(4), MU.shape), ones * s ** 4,
                          f'C20/jones_to_mueller/scale:{lab}/unitary-not-orthogonal', 's e^{i phi} U with U unitary: M M^T != s^4 I', d2)
            if ok:
                _law_rel(ctx, 'scale.mueller', MU[..., 0, 0], (s * s) * ones, ones * s * s, f'C20/jones_to_mueller/scale:{lab}/M00',
                         's e^{i phi} U with U unitary: M00 != s^2', d2)
            if lead == ():
                _law_rel(ctx, 'scale.mueller', pol.jones_to_mueller(s * A, broadcast=False), (s * s) * MA, ones * s * s,
                         f'C20/jones_to_mueller/scale:{lab}/not-homogeneous/broadcast=False', 'jones_to_mueller(s J, broadcast=False) != s^2 M(J)', d2)
        del MAB
        # batches whose elements have different magnitudes: every element relative to its own
        if lead != ():
            mags = np.array(MAGNITUDES + [1.0])[g.integers(0, len(MAGNITUDES) + 1, lead)]
            if mags.size > 1:
                mags.flat[0], mags.flat[-1] = 1e-12, 1.0
            As = A * mags[..., None, None]
            Mb = pol.jones_to_mueller(As)
            ref = np.empty(lead + (4, 4))
            for ix in np.ndindex(*lead):
                ref[ix] = ref_mueller(A[ix]) * mags[ix] ** 2
            ctx.observe('scale.mueller-batch')
            m2 = (mags ** 2)[..., None, None]
            e = min(maxabs((Mb - ref) / m2), maxabs((Mb - D3 @ ref @ D3) / m2))
            if not e <= TOL * max(1.0, maxabs(ref / m2)):
                ctx.violation('C20/jones_to_mueller/scale:mixed-batch/ne-pauli-trace-reference', 'in a batch whose Jones matrices have very '
                              'different magnitudes the Mueller matrix of an element differs from (1/2) tr(s_i J s_j J^H), relative to its own '
                              'magnitude', dict(desc, magnitudes=mags), err=e)
            _law_rel(ctx, 'scale.mueller-batch', Mb, MA * m2, mags ** 2, 'C20/jones_to_mueller/scale:mixed-batch/not-homogeneous',
                     'jones_to_mueller of a batch with per-element magnitudes != magnitude^2 x the Mueller matrices of the O(1) batch',
                     dict(desc, magnitudes=mags))
    with ctx.guard('C20/pauli/scale', desc):
        c0 = [np.asarray(c) for c in pol.pauli_coefficients(A)]
        k0 = pol.broadcast_kron(A, B)
        for s in MAGNITUDES:
            t = MAGNITUDES[int(g.integers(len(MAGNITUDES)))]
            lab = 'tiny' if s < 1 else 'huge'
            cs = pol.pauli_coefficients(s * A)
            for i in range(4):
                _law_rel(ctx, 'scale.pauli-kron', np.asarray(cs[i]), s * c0[i], ones * s, f'C20/pauli/scale:{lab}/not-homogeneous',
                         'pauli_coefficients(s J) != s pauli_coefficients(J)', dict(desc, factor=s, index=i))
            rec = sum(np.asarray(ci)[..., None, None] * pol.pauli_spin_matrix(i, shape=lead if lead != () else None) for i, ci in enumerate(cs))
            _law_rel(ctx, 'scale.pauli-kron', rec, s * A, ones * s, f'C20/pauli/scale:{lab}/reconstruction', 'sum_i c_i sigma_i != J for a tiny / huge J',
                     dict(desc, factor=s))
            _law_rel(ctx, 'scale.pauli-kron', pol.broadcast_kron(s * A, t * B), (s * t) * k0, ones * s * t, f'C20/broadcast_kron/scale:{lab}/not-bilinear',
                     'broadcast_kron(s A, t B) != s t broadcast_kron(A, B)', dict(desc, factors=[s, t]))
    if len(lead) == 2:            # documented domain: an M x N scalar field and an M x N x 2 x 2 optic
        with ctx.guard('C20/apply_polarization_optic/scale', desc):
            field = rand_c(g, lead)
            for s in MAGNITUDES:
                t = MAGNITUDES[int(g.integers(len(MAGNITUDES)))]
                lab = 'tiny' if s < 1 else 'huge'
                got = pol.apply_polarization_optic((s * field).copy(), t * A)
                _law_rel(ctx, 'scale.apply-optic', got, (s * t) * (A * field[..., None, None]), ones * s * t,
                         f'C20/apply_polarization_optic/scale:{lab}', 'apply_polarization_optic(s field, t optic) != s t optic * field[..., None, None]',
                         dict(desc, factors=[s, t]))


def _run_pass3(ctx):
    from prysm.x import polarization as pol
    rng = ctx.rng('c20-pass3')
    k = -1
    ulps = (0, 1, -1)
    for ti, th0 in enumerate(SPECIAL_THETA):
        for di, d0 in enumerate(SPECIAL_RET):
            for ut in ulps:
                for ud in ulps:
                    k += 1
                    # quick: the exact cross product, and a rotating third of the +-1 ulp neighbours; thorough: everything
                    if (ut or ud) and ctx.quick and (ti + di + ut + 2 * ud) % 3:
                        continue
                    if not ctx.mine(k):
                        continue
                    th = float(np.nextafter(th0, math.inf * ut)) if ut else th0
                    d = float(np.nextafter(d0, math.inf * ud)) if ud else d0
                    alpha = [0.0, 1.0, 0.5][(ti + di) % 3]
                    desc = {'wl': 'special-values', 'theta': th, 'theta_over_45deg': ti - 8, 'ret': d, 'alpha': alpha, 'ulp_offsets': [ut, ud],
                            'class': f'special:theta=k*45deg:ret={_ret_label(d0)}' + (':~1ulp' if (ut or ud) else '')}
                    ctx.case(desc, nontrivial=not (th == 0 and d == 0))
                    _p3_special(ctx, pol, th, d, alpha, bool(ut or ud), desc)
    charges = [2, 1, -1, 0, 3, -2, 0.5, 1.5, -0.5]
    k = -1
    for ci, charge in enumerate(charges):
        for di, ret in enumerate(SPECIAL_RET):
            k += 1
            if not ctx.mine(k):
                continue
            sub = ctx.subseed(rng)
            g = np.random.default_rng(sub)
            rot = SPECIAL_THETA[(3 * ci + di) % 17] if (ci + di) % 2 else 0.0
            desc = {'wl': 'special-vortex', 'charge': charge, 'retardance': ret, 'rotate': rot, 'subseed': sub,
                    'class': f'special:vortex:ret={_ret_label(ret)}:{"int" if float(charge).is_integer() else "half"}-charge'}
            ctx.case(desc)
            _p3_vortex(ctx, pol, g, charge, ret, rot, desc)
    leads = [(), (1,), (2,), (3,), (2, 2), (2, 3), (2, 2, 2), (4, 1)]
    k = -1
    for rep in range(ctx.pick(3, 400)):
        for lead in leads:
            k += 1
            if not ctx.mine(k):
                continue
            sub = ctx.subseed(rng)
            g = np.random.default_rng(sub)
            desc = {'wl': 'magnitudes', 'lead': list(lead), 'subseed': sub, 'class': f'scale:lead{len(lead)}d'}
            ctx.case(desc)
            _p3_magnitudes(ctx, pol, g, lead, desc)


# ---- argument forms of the polarised propagation (hardening pass 2, classes A / E of the adapter workload) -------------------
# The adapter hands the SAME positional and keyword argument objects to the scalar routine four times.  Every argument is therefore
# also passed in the other forms the scalar routines accept today (established on /repo @ faa8443, see vp/propforms.py): shift / Q /
# sample counts as list, float64 / float32 / integer ndarray, numpy scalars and 0-d arrays, by keyword and positionally, a
# non-zero shift with output_dx != 1, a transfer function by keyword (tf=), real-dtype / integer Jones fields.  The reference
# propagates each Jones component on its own with FRESH, equal-valued arguments of the same form.
ADAPTER_FORMS = ('tuple', 'list', 'float64 ndarray', 'float32 ndarray', 'numpy scalars', 'integer ndarray')
RULE = RULE + ('.  Adapter argument forms (hardening pass 2): jones_adapter(f)(J, ...) for all five routines with shift / Q / sample counts '
               'as tuple, list, float64 / float32 / integer ndarray, numpy scalars and 0-d arrays, by keyword and positionally, a non-zero shift '
               'with output_dx != 1, a transfer function passed with tf=, complex / real-dtype / integer Jones fields, each call made twice '
               'with the same argument objects; the same forms through the functions patched by add_jones_propagation and through the '
               'Wavefront methods on Jones-valued data after every step of the step histories')
ASSUMPTIONS = ASSUMPTIONS + ['adapter argument forms: the reference is each Jones component propagated on its own with fresh, equal-valued arguments of '
                             'the same form (so float32 containers need no wider tolerance); a form the scalar routine itself rejects is out of domain '
                             '(skipped and counted); accepted forms as established on /repo @ faa8443 (vp/propforms.py)']


def _adapter_form_case(g, fname, form, shp):
    """make() -> fresh (args, kwargs) of one polarised call in the given argument form; (what-is-in-that-form, extra descriptor)."""
    M = int(g.integers(2, 10))
    N = M if g.random() < 0.5 else int(g.integers(2, 10))
    positional = bool(g.integers(2))
    if fname in ('focus', 'unfocus', 'angular_spectrum'):
        Qv = [2, 1, 1.5, 3][int(g.integers(4))]
        if form == 'integer ndarray' and float(Qv) != int(Qv):
            Qv = 2

        def mkQ():
            return {'tuple': float(Qv), 'list': (int(Qv) if float(Qv) == int(Qv) else float(Qv)), 'float64 ndarray': np.array(float(Qv)),
                    'float32 ndarray': np.float32(Qv), 'numpy scalars': np.float64(Qv), 'integer ndarray': np.int64(int(Qv))}[form]
        if fname != 'angular_spectrum':
            def make():
                return ((mkQ(),), {}) if positional else ((), {'Q': mkQ()})
            return make, 'Q', {'Q': Qv, 'positional': positional}
        z = float(g.uniform(1, 50))
        dx = [0.1, 0.05, 1.0][int(g.integers(3))]
        with_tf = form in ('float64 ndarray', 'list') and bool(g.integers(2))
        if with_tf:
            from prysm import propagation
            with quiet():
                tf0 = np.array(propagation.angular_spectrum_transfer_function(shp, 0.6, dx, z), copy=True)

            def make():
                return (0.6, dx, float('nan')), {'tf': tf0.copy(), 'Q': mkQ()}
            return make, 'tf', {'z': z, 'dx': dx, 'tf': 'by keyword'}

        def make():
            return ((0.6, dx, z, mkQ()), {}) if positional else ((0.6, dx, z), {'Q': mkQ()})
        return make, 'Q', {'Q': Qv, 'z': z, 'dx': dx, 'positional': positional}
    # fixed sampling: output_dx != 1, non-zero shift
    if fname == 'focus_fixed_sampling':
        idx, efl, wvl = [0.1, 0.05, 0.25][int(g.integers(3))], [100.0, 50.0][int(g.integers(2))], [0.5, 0.6328][int(g.integers(2))]
        odx = wvl * efl / (shp[0] * idx) / [1, 2, 1.5, 3.3][int(g.integers(4))]
    else:
        idx, efl, wvl = [3.0, 1.7, 6.5][int(g.integers(3))], [100.0, 50.0][int(g.integers(2))], [0.5, 0.6328][int(g.integers(2))]
        odx = wvl * efl / (shp[0] * idx) / [1, 2, 1.5, 3.3][int(g.integers(4))]
    if abs(odx - 1.0) < 1e-3:
        odx *= 1.37
    s = (float(np.round(g.uniform(-3, 3), 2)) or 0.5, float(np.round(g.uniform(-3, 3), 2)))
    phys = (s[0] * odx, s[1] * odx)
    if form == 'integer ndarray':
        phys = (float(int(g.integers(1, 4))) * (1 if g.random() < 0.5 else -1), float(int(g.integers(0, 3))))
    if form == 'float32 ndarray':
        phys = tuple(float(np.float32(v)) for v in phys)
    method = ('mdft', 'czt')[int(g.integers(2))]

    def mkshift():
        return {'tuple': phys, 'list': list(phys), 'float64 ndarray': np.array(phys, dtype=np.float64), 'float32 ndarray': np.array(phys, dtype=np.float32),
                'numpy scalars': (np.float64(phys[0]), np.float64(phys[1])), 'integer ndarray': np.array(phys, dtype=np.int64)}[form]

    def mksamples():
        return {'tuple': (M, N), 'list': [M, N], 'float64 ndarray': np.array([M, N]), 'float32 ndarray': (M, N),
                'numpy scalars': (np.int64(M), np.int32(N)), 'integer ndarray': (M if M == N else np.array([M, N], dtype=np.int32))}[form]

    def make():
        if positional:
            return (idx, efl, wvl, odx, mksamples(), mkshift(), method), {}
        return (idx, efl, wvl, odx, mksamples()), {'shift': mkshift(), 'method': method}
    return make, 'shift+output_samples', {'input_dx': idx, 'prop_dist': efl, 'wavelength': wvl, 'output_dx': odx, 'samples': [M, N], 'shift': list(phys),
                                          'method': method, 'positional': positional}


def _componentwise(f, Jf, make):
    """Reference: every Jones component propagated on its own with fresh, equal-valued arguments (monitors bypassed)."""
    comps = [[None, None], [None, None]]
    with quiet():
        for i in range(2):
            for j in range(2):
                args, kw = make()
                comps[i][j] = np.array(f(np.array(Jf[..., i, j], copy=True), *args, **kw), copy=True)
    ref = np.empty(comps[0][0].shape + (2, 2), dtype=np.result_type(*[c.dtype for row in comps for c in row]))
    for i in range(2):
        for j in range(2):
            ref[..., i, j] = comps[i][j]
    return ref


def _run_adapter_forms(ctx):
    """Classes A / E for polarised propagation: jones_adapter(f)(J, *args, **kwargs) with the arguments in every accepted form
    (the adapter re-uses the same objects for its four internal calls), for all five routines, twice with the same objects."""
    from prysm.x import polarization as pol
    from prysm import propagation
    rng = ctx.rng('c20-adapter-forms')
    sizes = [(3, 3), (4, 4), (5, 4), (4, 7), (8, 8), (2, 5)]
    if not ctx.quick:
        sizes += [(7, 7), (6, 11), (12, 12), (13, 16), (17, 9)]
    k = -1
    for rep in range(ctx.pick(3, 160)):
        for fname in PROP_FUNCS:
            for form in ADAPTER_FORMS:
                k += 1
                if not ctx.mine(k):
                    continue
                sub = ctx.subseed(rng)
                g = np.random.default_rng(sub)
                shp = sizes[int(g.integers(len(sizes)))]
                jk = ('complex', 'complex', 'real', 'int')[int(g.integers(4))]
                Jf = rand_c(g, shp + (2, 2))
                if jk == 'real':
                    Jf = np.ascontiguousarray(Jf.real)
                elif jk == 'int':
                    Jf = g.integers(-3, 4, shp + (2, 2))
                make, what, extra = _adapter_form_case(g, fname, form, shp)
                desc = dict({'wl': 'adapter-forms', 'fn': fname, 'shape': list(shp), 'form': form, 'in_that_form': what, 'jones_dtype': str(Jf.dtype),
                             'subseed': sub, 'class': f'adapter-forms:{fname}:{what}={form}:{jk}'}, **extra)
                ctx.case(desc)
                f = getattr(propagation, fname)
                try:
                    ref = _componentwise(f, Jf, make)
                except Exception as e:  # the scalar routine rejects this form: out of the adapter's domain as well
                    ctx.skip(f'adapter-forms: scalar {fname} itself raises {type(e).__name__} for this argument form (not a C20 matter)')
                    continue
                key = f'C20/jones_adapter/{fname}/component-mismatch/form:{what}={form}'
                with ctx.guard(f'C20/jones_adapter/{fname}/form:{what}={form}', desc):
                    args, kw = make()
                    ad = pol.jones_adapter(f)
                    snap = Jf.copy()
                    for rnd in ('first call', 'second call with the same argument objects'):
                        out = np.array(ad(Jf, *args, **kw), copy=True)
                        law(ctx, 'adapter.argument-forms', out, ref, key,
                            f'jones_adapter({fname})(J, ...)[..., i, j] != {fname}(J[..., i, j], ...) with {what} given as {form} ({rnd}; the adapter hands '
                            'the same argument objects to all four component propagations)', dict(desc, round=rnd))
                    ctx.require('adapter.input-unchanged', np.array_equal(Jf, snap), f'C20/jones_adapter/{fname}/mutates-input',
                                'jones_adapter modified the Jones field passed in', desc)
    _run_adapter_scale(ctx)


# ---- hardening pass 3 for the adapter workload: class G (element magnitudes, homogeneity), H (special elements), I (sizes) ----------
# A Jones pupil is not a unit-magnitude array: leakage / cross-talk terms are 1e-6 ... 1e-12 of the diagonal, fields come in any units.
# Every element is therefore judged ON ITS OWN SCALE (|got_ij - ref_ij| <= 1e-12 max|ref_ij|, an exactly-zero reference element must
# come out exactly zero): an error of 100 % in a 1e-9 element is invisible at the scale of the whole matrix.
ADAPTER_MAGNITUDES = (1e-12, 1e-10, 1e-9, 1e-8, 1e-6, 1e-3, 1.0, 1e3, 1e6, 1e9, 1e12)
ADAPTER_PATTERNS = ('leakage-off-diagonal', 'tiny-diagonal', 'one-tiny-element', 'all-tiny', 'all-huge', 'spread', 'one-zero-element', 'one-sample-element')
RULE = RULE + ('.  Adapter magnitudes (hardening pass 3): Jones fields whose four elements have different magnitudes between 1e-12 and 1e12 (leakage terms '
               '1e-9 of the diagonal, tiny diagonal with order-1 off-diagonals, all tiny, all huge, an exactly-zero element, an element with a single '
               'non-zero sample) through jones_adapter for all five routines, complex128 and complex64, every element judged on its own scale; '
               'homogeneity of the adapted propagation, ad(s J) = s ad(J), s = 1e-12 ... 1e12; Q exactly 1, prime and 1 x N array sizes; the same '
               'fields through the functions patched by add_jones_propagation and the Wavefront methods')
ASSUMPTIONS = ASSUMPTIONS + ['adapter magnitudes: the reference propagates each Jones element on its own with the scalar routine, so adapted and reference element agree '
                             'to round-off at ANY magnitude: each element is compared at 1e-12 (complex64: 1e-5) of ITS OWN maximum; homogeneity at 1e-11 / 1e-4']
REQUIRED = REQUIRED + ['adapter.element-magnitudes', 'adapter.homogeneity', 'add_jones_propagation.element-magnitudes']


def _law_per_element(ctx, monitor, got, ref, key, what, desc, rtol=1e-12):
    """Each Jones element on its own scale.  Returns True when all four held."""
    ctx.observe(monitor)
    got, ref = np.asarray(got), np.asarray(ref)
    if got.shape != ref.shape:
        ctx.violation(key + '/shape', what + f': shape {got.shape} != expected {ref.shape}', desc)
        return False
    bad = []
    for i in range(2):
        for j in range(2):
            g, r = got[..., i, j], ref[..., i, j]
            sc = maxabs(r)
            err = maxabs(g - r) if np.isfinite(g).all() else float('inf')
            if not err <= rtol * sc:
                bad.append({'element': [i, j], 'err': err, 'max_abs_reference': sc, 'max_abs_got': maxabs(g) if np.isfinite(g).all() else None})
    if bad:
        ctx.violation(key, what + ' (each Jones element compared on its own scale)', desc, failing_elements=bad, rtol=rtol)
    return not bad


def _magnitude_field(g, shp, pattern, dtype=np.complex128):
    """A Jones field whose elements have the magnitudes of the pattern; returns (field, magnitudes[2][2])."""
    mags = [[1.0, 1.0], [1.0, 1.0]]
    tiny = [1e-12, 1e-10, 1e-9, 3e-9][int(g.integers(4))]
    if pattern == 'leakage-off-diagonal':
        mags = [[1.0, tiny], [tiny * 0.5, 1.0]]
    elif pattern == 'tiny-diagonal':
        mags = [[tiny, 1.0], [1.0, tiny]]
    elif pattern == 'one-tiny-element':
        k = int(g.integers(1, 4))
        mags[k // 2][k % 2] = tiny
    elif pattern == 'all-tiny':
        mags = [[tiny, tiny * 10], [tiny * 0.1, tiny]]
    elif pattern == 'all-huge':
        mags = [[1e12, 1e9], [1e10, 1e12]]
    elif pattern == 'spread':
        pick = [ADAPTER_MAGNITUDES[int(v)] for v in g.integers(len(ADAPTER_MAGNITUDES), size=4)]
        mags = [[pick[0], pick[1]], [pick[2], pick[3]]]
    J = rand_c(g, shp + (2, 2))
    for i in range(2):
        for j in range(2):
            J[..., i, j] *= mags[i][j]
    if pattern == 'one-zero-element':
        k = int(g.integers(0, 4))
        J[..., k // 2, k % 2] = 0
        mags[k // 2][k % 2] = 0.0
    elif pattern == 'one-sample-element':
        k = int(g.integers(1, 4))
        e = np.zeros(shp, dtype=complex)
        e.flat[int(g.integers(e.size))] = 1e-9 * (1 + 0.5j)
        J[..., k // 2, k % 2] = e
        mags[k // 2][k % 2] = 1e-9
    return J.astype(dtype), mags


def _run_adapter_scale(ctx):
    """Class G for polarised propagation (all five routines): element magnitudes, homogeneity; plus Q exactly 1, prime / 1 x N sizes."""
    from prysm.x import polarization as pol
    from prysm import propagation
    rng = ctx.rng('c20-adapter-scale')
    sizes = [(3, 3), (4, 4), (5, 4), (4, 7), (8, 8), (2, 5), (1, 7), (7, 7), (11, 13)]
    if not ctx.quick:
        sizes += [(6, 11), (12, 12), (13, 16), (17, 9), (1, 64), (31, 31), (67, 3)]
    scales = (1e-12, 1e-9, 2.0 ** -40, 1e-6, 1e6, 2.0 ** 30, 1e9, 1e12)
    k = -1
    for rep in range(ctx.pick(2, 120)):
        for fname in PROP_FUNCS:
            for pattern in ADAPTER_PATTERNS:
                k += 1
                if not ctx.mine(k):
                    continue
                sub = ctx.subseed(rng)
                g = np.random.default_rng(sub)
                shp = sizes[int(g.integers(len(sizes)))]
                c64 = (k // ctx.nshards) % 4 == 3
                Jf, mags = _magnitude_field(g, shp, pattern, np.complex64 if c64 else np.complex128)
                make, what, extra = _adapter_form_case(g, fname, 'tuple', shp)
                if fname in ('focus', 'unfocus') and (k // ctx.nshards) % 3 == 0:
                    def make():                      # Q exactly 1: no padding, the routine works on the element as it is
                        return (1,), {}
                    extra = {'Q': 1}
                s = scales[int(g.integers(len(scales)))]
                desc = dict({'wl': 'adapter-scale', 'fn': fname, 'shape': list(shp), 'pattern': pattern, 'element_magnitudes': mags, 'jones_dtype': str(Jf.dtype),
                             'subseed': sub, 'class': f'adapter-scale:{fname}:{pattern}:{"c64" if c64 else "c128"}'}, **extra)
                ctx.case(desc)
                f = getattr(propagation, fname)
                try:
                    ref = _componentwise(f, Jf, make)
                except Exception as e:  # the scalar routine itself fails on this input: some other property's business
                    ctx.skip(f'adapter: scalar {fname} itself raises {type(e).__name__} on this input (not a C20 matter)')
                    continue
                with ctx.guard(f'C20/jones_adapter/{fname}/scale:element-magnitudes', desc):
                    ad = pol.jones_adapter(f)
                    snap = Jf.copy()
                    args, kw = make()
                    out = np.array(ad(Jf, *args, **kw), copy=True)
                    ok = _law_per_element(ctx, 'adapter.element-magnitudes', out, ref, f'C20/jones_adapter/{fname}/scale:element-magnitudes/component-mismatch',
                                          f'jones_adapter({fname})(J)[..., i, j] != {fname}(J[..., i, j]) for a Jones field whose elements have different magnitudes',
                                          desc, rtol=1e-5 if c64 else 1e-12)
                    ctx.require('adapter.input-unchanged', np.array_equal(Jf, snap), f'C20/jones_adapter/{fname}/mutates-input',
                                'jones_adapter modified the Jones field passed in', desc)
                    if not ok:
                        continue
                    # homogeneity of the adapted propagation
                    args, kw = make()
                    outs = np.array(ad((Jf * s).astype(Jf.dtype), *args, **kw), copy=True)
                    cls = 'tiny' if s < 1 else 'huge'
                    _law_per_element(ctx, 'adapter.homogeneity', outs, s * out.astype(np.complex128), f'C20/jones_adapter/{fname}/scale:{cls}/not-homogeneous',
                                     f'jones_adapter({fname}) is linear, but ad(s J) != s ad(J) for s = 1e-12 ... 1e12', dict(desc, s=s), rtol=1e-4 if c64 else 1e-11)
                    # a scalar (2-D) field of tiny magnitude passes through unchanged
                    a2 = (rand_c(g, shp) * 1e-10).astype(Jf.dtype)
                    args, kw = make()
                    with quiet():
                        plain = np.asarray(f(a2.copy(), *args, **kw))
                    args, kw = make()
                    law(ctx, 'adapter.componentwise', ad(a2, *args, **kw), plain, f'C20/jones_adapter/{fname}/2d-passthrough',
                        'jones_adapter on a 2-D (scalar) field != the plain routine', desc, scale=maxabs(plain))


def _monkeypatch_scale(ctx, saved, enabled, sdesc, label, g):
    """The magnitude fields through the functions add_jones_propagation patched and through the Wavefront methods."""
    from prysm import propagation
    for fi, fname in enumerate(enabled):
        pattern = ADAPTER_PATTERNS[(fi + ctx.shard + sdesc['step']) % len(ADAPTER_PATTERNS)]
        shp = [(4, 4), (5, 6), (7, 3)][(fi + sdesc['step']) % 3]
        Jf, mags = _magnitude_field(g, shp, pattern)
        make, what, extra = _adapter_form_case(g, fname, 'tuple', shp)
        desc = dict(sdesc, fn=fname, shape=list(shp), pattern=pattern, element_magnitudes=mags, **extra)
        ctx.case(desc)
        try:
            direct = _componentwise(saved[fname], Jf, make)
        except Exception as e:
            ctx.skip(f'adapter: scalar {fname} itself raises {type(e).__name__} on this input (not a C20 matter)')
            continue
        key = f'C20/add_jones_propagation/{fname}/{label}/scale:element-magnitudes/ne-componentwise'
        with ctx.guard(f'C20/add_jones_propagation/{fname}/{label}/scale:element-magnitudes', desc):
            args, kw = make()
            _law_per_element(ctx, 'add_jones_propagation.element-magnitudes', getattr(propagation, fname)(Jf, *args, **kw), direct, key,
                             f'patched {fname} on a Jones field whose elements have different magnitudes is not the component-by-component propagation', desc)
            args, kw = make()
            if fname in ('focus', 'unfocus'):
                w = propagation.Wavefront(Jf, 0.55, 0.1, space='pupil' if fname == 'focus' else 'psf')
                got = getattr(w, fname)(100.0, *args, **kw).data
            elif fname == 'angular_spectrum':
                w = propagation.Wavefront(Jf, args[0], args[1])
                got = w.free_space(args[2], *args[3:], **kw).data
            else:
                w = propagation.Wavefront(Jf, args[2], args[0], space='pupil' if fname.startswith('focus') else 'psf')
                got = getattr(w, fname)(args[1], args[3], args[4], *args[5:], **kw).data
            _law_per_element(ctx, 'add_jones_propagation.element-magnitudes', got, direct, key + '/Wavefront-method',
                             f'Wavefront.{fname if fname != "angular_spectrum" else "free_space"} on Jones-valued data whose elements have different magnitudes is not '
                             'the component-by-component propagation', desc)


# step histories of add_jones_propagation: one per shard (the module keeps whatever state the library keeps between calls; the
# harness never undoes a step in the middle of a history and restores prysm.propagation only at the very end of the run)
STEP_HISTORIES = [
    ('all-at-once,again', [None, None]),
    ('two-steps', [['focus', 'unfocus'], ['focus_fixed_sampling', 'unfocus_fixed_sampling', 'angular_spectrum']]),
    ('one-at-a-time', [['angular_spectrum'], ['unfocus'], ['focus_fixed_sampling'], ['focus'], ['unfocus_fixed_sampling']]),
    ('subset,same-subset,rest,default', [['focus_fixed_sampling'], ['focus_fixed_sampling'], ['focus', 'unfocus', 'unfocus_fixed_sampling',
                                                                                               'angular_spectrum'], None]),
    ('subset,default', [['unfocus', 'angular_spectrum'], None]),
    ('overlapping-subsets', [['focus', 'unfocus'], ['unfocus', 'focus_fixed_sampling'], ['focus_fixed_sampling', 'unfocus_fixed_sampling',
                                                                                          'angular_spectrum']]),
    ('tuple-then-set', [('focus',), {'unfocus', 'angular_spectrum'}, ['focus_fixed_sampling', 'unfocus_fixed_sampling']]),
    ('empty-then-all', [[], None]),
]


def _run_monkeypatch(ctx, saved):
    """add_jones_propagation switches Jones support on in prysm.propagation globally.  Exercised last: one step history per
    shard; after every step, every routine named so far must be polarisation-aware (component-wise on a Jones field, unchanged
    on a scalar field).  run() restores the module afterwards."""
    from prysm.x import polarization as pol
    from prysm import propagation
    g = np.random.default_rng(ctx.seed + 17 + ctx.shard)
    name, steps = STEP_HISTORIES[ctx.shard % len(STEP_HISTORIES)]
    calls = {'focus': ((2,), {}), 'unfocus': ((1,), {}), 'angular_spectrum': ((0.6, 0.1, 20.0), {'Q': 2}),
             'focus_fixed_sampling': ((0.1, 100.0, 0.5, 3.0, 6), {}),
             'unfocus_fixed_sampling': ((3.0, 100.0, 0.5, 0.1, 6), {})}
    enabled = []
    for si, step in enumerate(steps):
        sdesc = {'wl': 'add_jones_propagation', 'history': name, 'step': si, 'funcs_to_change': 'default' if step is None else sorted(step),
                 'class': f'monkeypatch:{name}'}
        ok = False
        with ctx.guard('C20/add_jones_propagation', sdesc):
            if step is None:
                pol.add_jones_propagation()
            else:
                pol.add_jones_propagation(step)
            ok = True
        if not ok:
            return
        for fname in (PROP_FUNCS if step is None else sorted(step)):
            if fname not in enabled:
                enabled.append(fname)
        label = 'first-step' if si == 0 else 'later-step'
        for shp in [(4, 4), (5, 6), (8, 8)][: 3 if si == len(steps) - 1 else 2]:
            Jf = rand_c(g, shp + (2, 2))
            A = rand_c(g, shp)
            for fname in enabled:
                args, kw = calls[fname]
                desc = dict(sdesc, fn=fname, shape=list(shp))
                ctx.case(desc)
                with quiet():
                    comps = [[np.asarray(saved[fname](Jf[..., i, j].copy(), *args, **kw)) for j in range(2)] for i in range(2)]
                    plain = np.asarray(saved[fname](A.copy(), *args, **kw))
                direct = np.empty(comps[0][0].shape + (2, 2), dtype=np.result_type(*[c.dtype for row in comps for c in row]))
                for i in range(2):
                    for j in range(2):
                        direct[..., i, j] = comps[i][j]
                with ctx.guard(f'C20/add_jones_propagation/{fname}/{label}/not-polarisation-aware', desc):
                    patched = getattr(propagation, fname)
                    law(ctx, 'add_jones_propagation.eq-direct', patched(Jf, *args, **kw), direct,
                        f'C20/add_jones_propagation/{fname}/{label}/ne-componentwise',
                        'after add_jones_propagation named it, the propagation function applied to a Jones field is not the '
                        'component-by-component propagation', desc)
                    law(ctx, 'add_jones_propagation.eq-direct', patched(A, *args, **kw), plain,
                        f'C20/add_jones_propagation/{fname}/{label}/scalar-passthrough', 'patched function on a scalar field != original', desc)
                    if si:
                        ctx.observe('add_jones_propagation.later-step')
        # argument forms through the patched module functions and through the Wavefront methods (which call them): the adapter
        # re-uses the same argument objects for its four component propagations
        for fi, fname in enumerate(enabled):
            for form in ('float64 ndarray', ADAPTER_FORMS[(si + fi + ctx.shard) % len(ADAPTER_FORMS)]):
                shp = [(4, 4), (5, 6), (6, 3)][(si + fi) % 3]
                Jf = rand_c(g, shp + (2, 2))
                make, what, extra = _adapter_form_case(g, fname, form, shp)
                desc = dict(sdesc, fn=fname, shape=list(shp), form=form, in_that_form=what, **extra)
                ctx.case(desc)
                try:
                    direct = _componentwise(saved[fname], Jf, make)
                except Exception as e:
                    ctx.skip(f'adapter-forms: scalar {fname} itself raises {type(e).__name__} for this argument form (not a C20 matter)')
                    continue
                key = f'C20/add_jones_propagation/{fname}/{label}/ne-componentwise/form:{what}={form}'
                with ctx.guard(f'C20/add_jones_propagation/{fname}/{label}/form:{what}={form}', desc):
                    args, kw = make()
                    law(ctx, 'add_jones_propagation.argument-forms', getattr(propagation, fname)(Jf, *args, **kw), direct, key,
                        f'patched {fname} on a Jones field with {what} given as {form} is not the component-by-component propagation', desc)
                    # Wavefront method form on Jones-valued data
                    args, kw = make()
                    if fname in ('focus', 'unfocus'):
                        w = propagation.Wavefront(Jf, 0.55, 0.1, space='pupil' if fname == 'focus' else 'psf')
                        got = getattr(w, fname)(100.0, *args, **kw).data
                    elif fname == 'angular_spectrum':
                        w = propagation.Wavefront(Jf, args[0], args[1])
                        got = w.free_space(args[2], *args[3:], **kw).data
                    else:
                        w = propagation.Wavefront(Jf, args[2], args[0], space='pupil' if fname.startswith('focus') else 'psf')
                        smp = args[4]
                        got = getattr(w, fname)(args[1], args[3], smp, *args[5:], **kw).data
                    law(ctx, 'add_jones_propagation.argument-forms', got, direct, key + '/Wavefront-method',
                        f'Wavefront.{fname if fname != "angular_spectrum" else "free_space"} on Jones-valued data with {what} given as {form} is not the '
                        'component-by-component propagation', desc)
        # hardening pass 3: element magnitudes through the patched functions and the Wavefront methods
        _monkeypatch_scale(ctx, saved, enabled, sdesc, label, g)


def install_monitors(ctx):
    """For vp/pytest_monitors.py: the constructor contracts on the repository's own test traffic."""
    global CTX
    CTX = ctx
    install()


def replay(ctx, rec):
    run(ctx)
