"""C20 — Jones and Mueller calculus preserve the algebra of polarisation optics.

Monitors
  contracts on the real functions of prysm.x.polarization (every call is seen, also internal ones, e.g. the
  linear_retarder call made by half_wave_plate):
      <fn>.input-unchanged              array arguments are bit-identical after the call (snapshot before)
      linear_retarder / half_wave_plate / quarter_wave_plate / vector_vortex_retarder   post: J^H J == I, and the phase
                                        difference of the two eigen-polarisations is the retardance
                                        (tr(J)^2 / det(J) == 2 + 2 cos(d): free of global phase, sign and orientation conventions)
      jones_rotation_matrix             post: R R^T == I, det R == 1
  law monitors driven by the workload (tolerance 1e-12 x scale of the reference):
      rotation.group                    R(a) R(b) == R(a + b), R(0) == I, batched == per-element
      retarder.group                    J(d1, th) J(d2, th) == J(d1 + d2, th); J(0, th) == I; HWP^2 == I; QWP^2 == HWP
      element.rotation-conjugation      J(th) == R(-th) J(0) R(th)  (retarder, HWP, QWP, diattenuator, polariser, vortex `rotate`)
      polarizer.idempotent / .malus     P^2 == P;  |P(th) e(phi)|^2 == cos^2(th - phi)   (e = linear_pol_vector)
      diattenuator.algebra              D(a) D(b) == D(a b); D(1) == I; D(0) == polariser
      element.batched                   shape= / array-retardance forms == per-element construction
      vortex.reference / .batched       (only where unitary) Mawet et al. eq. 7 closed form; grid == per-element (0-d) calls
      mueller.multiplicative            M(A B) == M(A) M(B)  (broadcast=True any leading shape, broadcast=False 2x2)
      mueller.orthogonal                J unitary  =>  M M^T == I and M00 == 1
      mueller.reference                 M == (1/2) tr(s_i J s_j J^H) in either sign convention of S3
      mueller.batched / kron            batched == per-element; broadcast_kron == numpy.kron per element
      pauli.reconstruct                 sum_i c_i sigma_i == J  (scalar and batched)
      adapter.componentwise             jones_adapter(f)(J)[..., i, j] == f(J[..., i, j]) for focus, unfocus,
                                        focus_fixed_sampling, unfocus_fixed_sampling, angular_spectrum; 2-D input passes through
      add_jones_propagation             (exercised last, originals restored) patched module functions == direct adapter form
      apply_polarization_optic          == optic * field[..., None, None]
"""
import math

import numpy as np

from ..contracts import attach, detach_all, quiet

RULE = ('angles / retardances uniform over [-2 pi, 2 pi] plus the special values 0, +-pi/2, +-pi, 2 pi; diattenuation in [0, 1] '
        'incl. 0 and 1; vortex charges -3..6 and half-integers, theta grids 0-d, 1-d, 1x1 .. 16x16 (square and not); random '
        'complex 2x2 matrices and batches with leading shapes of 1 to 3 dimensions; propagation grids 2..16 samples, every '
        'parity combination.  Special values and smallest shapes first.  A case is non-trivial unless the element is the '
        'identity by construction (all angles and retardances zero); distinct = distinct descriptor')
ASSUMPTIONS = ['numpy matmul / kron / einsum are the reference linear algebra',
               'only the batched forms the API supports are exercised: shape= with scalar parameters, array retardance with '
               'shape=retardance.shape for linear_retarder, theta arrays for jones_rotation_matrix(shape=theta.shape) and the '
               'vortex retarder; array theta for the plate constructors and array alpha / array vortex retardance raise and are '
               'outside the workload',
               'the sign convention of Stokes S3 is not fixed by the statement: the Mueller reference accepts both',
               'theta grids handed to vector_vortex_retarder are floating-point arrays',
               'Jones *vector* helpers (linear_pol_vector is used for Malus only; circular_pol_vector) are not part of the property']
REQUIRED = ['jones_rotation_matrix.proper-rotation', 'linear_retarder.unitary', 'vector_vortex_retarder.unitary', 'linear_retarder.retardance',
            'vector_vortex_retarder.input-unchanged', 'rotation.group', 'retarder.group', 'element.rotation-conjugation',
            'polarizer.idempotent', 'polarizer.malus', 'diattenuator.algebra', 'element.batched', 'vortex.reference', 'vortex.batched',
            'mueller.multiplicative', 'mueller.orthogonal', 'mueller.reference', 'mueller.batched', 'kron.eq-numpy',
            'pauli.reconstruct', 'adapter.componentwise', 'add_jones_propagation.eq-direct', 'apply_polarization_optic.elementwise']

CTX = None
TOL = 1e-12
I2 = np.eye(2)
PROP_FUNCS = ['focus', 'unfocus', 'focus_fixed_sampling', 'unfocus_fixed_sampling', 'angular_spectrum']


def H(a):
    return np.conj(np.swapaxes(a, -1, -2))


def maxabs(a):
    a = np.asarray(a)
    if a.size == 0:
        return 0.0
    if not np.all(np.isfinite(a)):
        return float('inf')
    return float(np.max(np.abs(a)))


def ret_class(retardance):
    r = np.asarray(retardance, dtype=float)
    return '=pi' if np.all(np.abs(np.cos(r / 2)) < 1e-9) else '!=pi'


# ------------------------------------------------------------------------------------------ contracts
def _snap(args, kwargs):
    snaps = []
    for where, seq in (('arg', list(enumerate(args))), ('kw', list(kwargs.items()))):
        for k, v in seq:
            if isinstance(v, np.ndarray):
                snaps.append((where, k, v, v.copy()))
    return snaps


def _make_pre():
    def pre(args, kwargs):
        return _snap(args, kwargs)
    return pre


def _check_unchanged(fn, token, extra_desc=None):
    for where, k, live, old in token or ():
        CTX.observe(f'{fn}.input-unchanged')
        same = live.shape == old.shape and np.array_equal(live, old, equal_nan=True)
        if not same:
            d = {'fn': fn, 'argument': f'{where}:{k}', 'shape': list(old.shape), 'class': 'contract'}
            d.update(extra_desc or {})
            CTX.violation(f'C20/{fn}/mutates-input', f'{fn} modifies the array the caller passed in (argument {k})', d,
                          before=old if old.size <= 8 else old.ravel()[:8], after=live if live.size <= 8 else live.ravel()[:8])


def _post_plain(fn):
    def post(token, args, kwargs, result):
        _check_unchanged(fn, token)
    return post


def _post_unitary(fn, names):
    def post(token, args, kwargs, result):
        a = dict(zip(names, args))
        a.update(kwargs)
        extra = {}
        if fn == 'vector_vortex_retarder':
            extra = {'charge': a.get('charge'), 'retardance': a.get('retardance', math.pi), 'rotate': a.get('rotate', 0)}
        _check_unchanged(fn, token, extra)
        CTX.observe(f'{fn}.unitary')
        J = np.asarray(result)
        err = maxabs(H(J) @ J - I2)
        if not err <= TOL:
            desc = {'fn': fn, 'class': 'contract', 'shape': list(J.shape)}
            old = {id(live): before for _, _, live, before in token or ()}    # values as passed (the call may have altered them)
            for k, v in a.items():
                v = old.get(id(v), v)
                if not isinstance(v, np.ndarray) or v.size <= 4:
                    desc[k] = v
            if fn == 'vector_vortex_retarder':
                key = f'C20/{fn}/non-unitary/retardance{ret_class(a.get("retardance", math.pi))}'
            elif fn == 'linear_retarder':
                key = f'C20/{fn}/non-unitary'
            else:
                key = f'C20/{fn}/non-unitary'
            CTX.violation(key, f'{fn} returns a matrix with J^H J != I', desc, err=err)
            return
        # the retardance is what the argument says: eigenvalue ratio e^{+-i d}  <=>  tr(J)^2 / det(J) == 2 + 2 cos(d)
        # (independent of global phase, of the sign convention of d and of the orientation)
        if fn == 'half_wave_plate':
            d = math.pi
        elif fn == 'quarter_wave_plate':
            d = math.pi / 2
        else:
            d = a.get('retardance', math.pi)
        old = {id(live): before for _, _, live, before in token or ()}
        d = np.asarray(old.get(id(d), d), dtype=float)
        CTX.observe(f'{fn}.retardance')
        tr = J[..., 0, 0] + J[..., 1, 1]
        det = J[..., 0, 0] * J[..., 1, 1] - J[..., 0, 1] * J[..., 1, 0]
        try:
            err = maxabs(tr * tr / det - (2 + 2 * np.cos(d)))
        except ValueError:      # shapes that do not broadcast: reported by the batched monitors
            return
        if not err <= 4 * TOL:
            CTX.violation(f'C20/{fn}/retardance-not-delta', f'{fn}: phase difference between the two eigen-polarisations is not the retardance '
                          '(tr(J)^2/det(J) != 2 + 2 cos(retardance))', {'fn': fn, 'class': 'contract', 'retardance': d if d.size <= 4 else 'array'},
                          err=err)
    return post


def _post_rotation(token, args, kwargs, result):
    _check_unchanged('jones_rotation_matrix', token)
    CTX.observe('jones_rotation_matrix.proper-rotation')
    Rm = np.asarray(result)
    err = maxabs(np.swapaxes(Rm, -1, -2) @ Rm - I2)
    det = Rm[..., 0, 0] * Rm[..., 1, 1] - Rm[..., 0, 1] * Rm[..., 1, 0]
    if not (err <= TOL and maxabs(det - 1) <= TOL and maxabs(np.imag(Rm)) == 0):
        th = args[0] if args else kwargs.get('theta')
        CTX.violation('C20/jones_rotation_matrix/not-a-rotation', 'jones_rotation_matrix is not a proper real rotation (R R^T != I or det != 1)',
                      {'fn': 'jones_rotation_matrix', 'theta': th if np.size(th) <= 4 else 'array', 'class': 'contract'}, err=err)


def install():
    from prysm.x import polarization as pol
    attach(pol, 'jones_rotation_matrix', pre=_make_pre(), post=_post_rotation)
    attach(pol, 'linear_retarder', pre=_make_pre(), post=_post_unitary('linear_retarder', ['retardance', 'theta', 'shape']))
    attach(pol, 'half_wave_plate', pre=_make_pre(), post=_post_unitary('half_wave_plate', ['theta', 'shape']))
    attach(pol, 'quarter_wave_plate', pre=_make_pre(), post=_post_unitary('quarter_wave_plate', ['theta', 'shape']))
    attach(pol, 'vector_vortex_retarder', pre=_make_pre(),
           post=_post_unitary('vector_vortex_retarder', ['charge', 'theta', 'retardance', 'rotate']))
    for fn in ('linear_diattenuator', 'linear_polarizer', 'broadcast_kron', 'jones_to_mueller', 'pauli_coefficients',
               'apply_polarization_optic', 'linear_pol_vector'):
        attach(pol, fn, pre=_make_pre(), post=_post_plain(fn))


# ------------------------------------------------------------------------------------------ references (no prysm)
def ref_rot(th):
    c, s = math.cos(th), math.sin(th)
    return np.array([[c, s], [-s, c]])


def ref_vortex(charge, theta, retardance, rotate):
    """Mawet et al., Opt. Express 17, 1902 (2009), eq. 7 (the paper the docstring cites), lossless case:
    J = sin(d/2) [[cos l.th, sin l.th], [sin l.th, -cos l.th]] - i cos(d/2) I, conjugated by the rotation."""
    th = np.asarray(theta, dtype=float) * charge
    out = np.zeros(th.shape + (2, 2), dtype=complex)
    s, c = math.sin(retardance / 2), math.cos(retardance / 2)
    out[..., 0, 0] = s * np.cos(th) - 1j * c
    out[..., 0, 1] = s * np.sin(th)
    out[..., 1, 0] = s * np.sin(th)
    out[..., 1, 1] = -s * np.cos(th) - 1j * c
    return ref_rot(-rotate) @ out @ ref_rot(rotate)


SIG = [np.eye(2, dtype=complex), np.array([[1, 0], [0, -1]], dtype=complex), np.array([[0, 1], [1, 0]], dtype=complex),
       np.array([[0, -1j], [1j, 0]], dtype=complex)]


def ref_mueller(J):
    M = np.empty((4, 4))
    Jh = J.conj().T
    for i in range(4):
        for j in range(4):
            M[i, j] = 0.5 * np.trace(SIG[i] @ J @ SIG[j] @ Jh).real
    return M


D3 = np.diag([1.0, 1.0, 1.0, -1.0])


def rand_c(g, shape):
    return g.standard_normal(shape) + 1j * g.standard_normal(shape)


def rand_unitary(g, lead=()):
    a = rand_c(g, lead + (2, 2))
    q, r = np.linalg.qr(a)
    return q * np.exp(1j * g.uniform(0, 2 * np.pi, lead + (1, 1)))


SPECIAL = [0.0, math.pi / 2, math.pi, -math.pi / 2, -math.pi, 2 * math.pi, math.pi / 4, 1.0]


def angle(g, i=None):
    if i is not None and i < len(SPECIAL):
        return SPECIAL[i]
    return float(g.uniform(-2 * math.pi, 2 * math.pi))


def law(ctx, monitor, got, ref, key, what, desc, scale=None, tol=TOL):
    ref = np.asarray(ref)
    sc = max(1.0, maxabs(ref)) if scale is None else scale
    return ctx.close(monitor, got, ref, key, what, desc, rtol=tol, scale=sc)


# ------------------------------------------------------------------------------------------ workload
def run(ctx):
    global CTX
    CTX = ctx
    from prysm import propagation
    saved = {k: getattr(propagation, k) for k in PROP_FUNCS}
    install()
    try:
        _run(ctx)
        _run_monkeypatch(ctx, saved)
    finally:
        for k, v in saved.items():
            setattr(propagation, k, v)
        detach_all()


def _run(ctx):
    from prysm.x import polarization as pol
    from prysm import propagation
    rng = ctx.rng('c20')

    # --- 1. rotation matrix, retarders, polarisers, diattenuators (scalar forms) ---------------------------
    n1 = ctx.share(ctx.pick(1200, 24000))
    for it in range(n1):
        i = it if ctx.shard == 0 else None      # special values first on shard 0
        th, th2, d1, d2 = angle(rng, i), angle(rng), angle(rng, i), angle(rng)
        alpha, beta = ([0.0, 1.0, 0.5][it % 3] if it < 6 else float(rng.uniform(0, 1))), float(rng.uniform(0, 1))
        desc = {'wl': 'elements', 'theta': th, 'theta2': th2, 'ret': d1, 'ret2': d2, 'alpha': alpha, 'beta': beta,
                'class': 'elements:scalar' + (':special' if i is not None and i < len(SPECIAL) else '')}
        ctx.case(desc, nontrivial=not (th == 0 and d1 == 0))
        with ctx.guard('C20/elements', desc):
            Rt = pol.jones_rotation_matrix(th)
            Rm = pol.jones_rotation_matrix(-th)
            law(ctx, 'rotation.group', Rt @ pol.jones_rotation_matrix(th2), pol.jones_rotation_matrix(th + th2),
                'C20/jones_rotation_matrix/group-law', 'R(a) R(b) != R(a+b)', desc)
            law(ctx, 'rotation.group', Rm @ Rt, I2, 'C20/jones_rotation_matrix/group-law', 'R(-a) R(a) != I', desc)
            # retarders
            J = pol.linear_retarder(d1, th)
            J0 = pol.linear_retarder(d1)
            law(ctx, 'element.rotation-conjugation', J, Rm @ J0 @ Rt, 'C20/linear_retarder/rotation-conjugation',
                'linear_retarder(d, th) != R(-th) linear_retarder(d, 0) R(th)', desc)
            law(ctx, 'retarder.group', J @ pol.linear_retarder(d2, th), pol.linear_retarder(d1 + d2, th),
                'C20/linear_retarder/group-law', 'J(d1, th) J(d2, th) != J(d1 + d2, th)', desc)
            law(ctx, 'retarder.group', pol.linear_retarder(0.0, th), I2, 'C20/linear_retarder/group-law', 'J(0, th) != I', desc)
            Hw, Qw = pol.half_wave_plate(th), pol.quarter_wave_plate(th)
            law(ctx, 'retarder.group', Hw @ Hw, I2, 'C20/half_wave_plate/group-law', 'HWP(th)^2 != I', desc)
            law(ctx, 'retarder.group', Qw @ Qw, Hw, 'C20/quarter_wave_plate/group-law', 'QWP(th)^2 != HWP(th)', desc)
            law(ctx, 'element.rotation-conjugation', Hw, Rm @ pol.half_wave_plate() @ Rt, 'C20/half_wave_plate/rotation-conjugation',
                'HWP(th) != R(-th) HWP(0) R(th)', desc)
            law(ctx, 'element.rotation-conjugation', Qw, Rm @ pol.quarter_wave_plate() @ Rt, 'C20/quarter_wave_plate/rotation-conjugation',
                'QWP(th) != R(-th) QWP(0) R(th)', desc)
            # polariser
            P = pol.linear_polarizer(th)
            law(ctx, 'polarizer.idempotent', P @ P, P, 'C20/linear_polarizer/not-idempotent', 'P(th)^2 != P(th)', desc)
            law(ctx, 'element.rotation-conjugation', P, Rm @ pol.linear_polarizer() @ Rt, 'C20/linear_polarizer/rotation-conjugation',
                'P(th) != R(-th) P(0) R(th)', desc)
            phi_deg = float(np.degrees(th2))
            e = pol.linear_pol_vector(phi_deg)
            out = P @ e
            law(ctx, 'polarizer.malus', float(np.sum(np.abs(out) ** 2)), math.cos(th - math.radians(phi_deg)) ** 2,
                'C20/linear_polarizer/malus', '|P(th) e(phi)|^2 != cos^2(th - phi)', desc, scale=1.0)
            e_arr = pol.linear_pol_vector(np.array([phi_deg, 0.0]))
            out = P @ e_arr
            law(ctx, 'polarizer.malus', np.sum(np.abs(out[..., 0]) ** 2, axis=-1),
                np.array([math.cos(th - math.radians(phi_deg)) ** 2, math.cos(th) ** 2]),
                'C20/linear_polarizer/malus', '|P(th) e(phi)|^2 != cos^2(th - phi) (array of input angles)', desc, scale=1.0)
            # diattenuator
            Da = pol.linear_diattenuator(alpha, th)
            law(ctx, 'element.rotation-conjugation', Da, Rm @ pol.linear_diattenuator(alpha) @ Rt,
                'C20/linear_diattenuator/rotation-conjugation', 'D(a, th) != R(-th) D(a, 0) R(th)', desc)
            law(ctx, 'diattenuator.algebra', Da @ pol.linear_diattenuator(beta, th), pol.linear_diattenuator(alpha * beta, th),
                'C20/linear_diattenuator/product-law', 'D(a, th) D(b, th) != D(a b, th)', desc)
            law(ctx, 'diattenuator.algebra', pol.linear_diattenuator(1, th), I2, 'C20/linear_diattenuator/product-law', 'D(1, th) != I', desc)
            law(ctx, 'diattenuator.algebra', pol.linear_diattenuator(0, th), P, 'C20/linear_diattenuator/product-law', 'D(0, th) != P(th)', desc)
            # Mueller of the unitary elements
            for nm, U in (('linear_retarder', J), ('half_wave_plate', Hw), ('quarter_wave_plate', Qw)):
                for bc in (True, False):
                    M = pol.jones_to_mueller(U, broadcast=bc)
                    ok = law(ctx, 'mueller.orthogonal', M @ M.T, np.eye(4), f'C20/jones_to_mueller/unitary-not-orthogonal/broadcast={bc}',
                             'unitary Jones matrix: M M^T != I', desc)
                    if ok:
                        law(ctx, 'mueller.orthogonal', M[0, 0], 1.0, f'C20/jones_to_mueller/M00!=1/broadcast={bc}',
                            'unitary Jones matrix: M00 != 1', desc)

    # --- 2. batched element forms ----------------------------------------------------------------------------
    shapes = [(1,), (3,), (1, 1), (2, 3), (4, 1), (2, 1, 3), (16, 16)]
    n2 = ctx.pick(6, 60)
    k = -1
    for rep in range(n2):
        for shp in shapes:
            k += 1
            if not ctx.mine(k):
                continue
            th, d1, alpha = angle(rng), angle(rng), float(rng.uniform(0, 1))
            desc = {'wl': 'elements-batched', 'shape': list(shp), 'theta': th, 'ret': d1, 'alpha': alpha, 'rep': rep,
                    'class': f'elements:batched:{len(shp)}d'}
            ctx.case(desc)
            with ctx.guard('C20/elements-batched', desc):
                for nm, b, s in (('linear_retarder', pol.linear_retarder(d1, th, shape=shp), pol.linear_retarder(d1, th)),
                                 ('half_wave_plate', pol.half_wave_plate(th, shape=shp), pol.half_wave_plate(th)),
                                 ('quarter_wave_plate', pol.quarter_wave_plate(th, shape=shp), pol.quarter_wave_plate(th)),
                                 ('linear_polarizer', pol.linear_polarizer(th, shape=shp), pol.linear_polarizer(th)),
                                 ('linear_diattenuator', pol.linear_diattenuator(alpha, th, shape=shp), pol.linear_diattenuator(alpha, th)),
                                 ('jones_rotation_matrix', pol.jones_rotation_matrix(th, shape=shp), pol.jones_rotation_matrix(th))):
                    law(ctx, 'element.batched', b, np.broadcast_to(s, shp + (2, 2)), f'C20/{nm}/batched!=per-element/shape-arg',
                        f'{nm}(shape=...) != the scalar element repeated', desc)
                ret = rng.uniform(-2 * math.pi, 2 * math.pi, shp)
                tha = rng.uniform(-2 * math.pi, 2 * math.pi, shp)
                b = pol.linear_retarder(ret.copy(), th, shape=shp)
                ref = np.empty(shp + (2, 2), dtype=complex)
                refR = np.empty(shp + (2, 2), dtype=complex)
                for ix in np.ndindex(*shp):
                    ref[ix] = pol.linear_retarder(float(ret[ix]), th)
                    refR[ix] = pol.jones_rotation_matrix(float(tha[ix]))
                law(ctx, 'element.batched', b, ref, 'C20/linear_retarder/batched!=per-element/array-retardance',
                    'linear_retarder(array retardance) != per-element construction', desc)
                law(ctx, 'element.batched', pol.jones_rotation_matrix(tha.copy(), shape=shp), refR,
                    'C20/jones_rotation_matrix/batched!=per-element/array-theta', 'jones_rotation_matrix(array theta) != per-element', desc)
                for idx in range(4):
                    law(ctx, 'element.batched', pol.pauli_spin_matrix(idx, shape=shp), np.broadcast_to(pol.pauli_spin_matrix(idx), shp + (2, 2)),
                        'C20/pauli_spin_matrix/batched!=per-element', 'pauli_spin_matrix(shape=...) != the 2x2 matrix repeated', desc)

    # --- 3. vector vortex retarder ------------------------------------------------------------------------------
    charges = [2, 1, -1, 0, 3, -2, -3, 4, 5, 6, 0.5, 1.5, -0.5, 2.5]
    grids = [(), (1,), (5,), (1, 1), (2, 2), (3, 4), (4, 3), (7, 7), (16, 16), (2, 3, 2)]
    rets = [math.pi / 2, math.pi, 1.0, 0.0, -math.pi, 2 * math.pi]
    k = -1
    nv = ctx.pick(3, 40)
    for rep in range(nv):
        for shp in grids:
            for ci, charge in enumerate(charges):
                k += 1
                if not ctx.mine(k):
                    continue
                ret = rets[(ci + rep) % len(rets)] if rep == 0 else angle(rng)
                rot = 0.0 if (rep == 0 and ci % 2 == 0) else angle(rng)
                theta = rng.uniform(-math.pi, math.pi, shp) if shp != () else np.array(float(rng.uniform(-math.pi, math.pi)))
                desc = {'wl': 'vortex', 'charge': charge, 'grid': list(shp), 'retardance': ret, 'rotate': rot, 'rep': rep,
                        'theta': theta if theta.size <= 4 else 'uniform(-pi, pi), see subseed', 'class':
                        f'vortex:grid{len(shp)}d:ret{ret_class(ret)}:{"int" if float(charge).is_integer() else "half"}-charge'}
                ctx.case(desc)
                with ctx.guard('C20/vector_vortex_retarder', desc):
                    arg = theta.copy()
                    V = pol.vector_vortex_retarder(charge, arg, ret, rot)          # contracts: unitary + input unchanged
                    unitary = maxabs(H(V) @ V - I2) <= TOL
                    V0 = pol.vector_vortex_retarder(charge, theta.copy(), ret, 0)
                    law(ctx, 'element.rotation-conjugation', V, pol.jones_rotation_matrix(-rot) @ V0 @ pol.jones_rotation_matrix(rot),
                        'C20/vector_vortex_retarder/rotation-conjugation', 'vortex(rotate) != R(-rot) vortex(0) R(rot)', desc)
                    if shp != () and theta.size <= 64:
                        ref = np.empty(shp + (2, 2), dtype=complex)
                        for ix in np.ndindex(*shp):
                            ref[ix] = pol.vector_vortex_retarder(charge, np.array(float(theta[ix])), ret, rot)
                        law(ctx, 'vortex.batched', V, ref, 'C20/vector_vortex_retarder/batched!=per-element',
                            'vortex on a theta grid != per-element (0-d theta) construction', desc)
                    if unitary:
                        law(ctx, 'vortex.reference', V, ref_vortex(charge, theta, ret, rot), 'C20/vector_vortex_retarder/ne-mawet-eq7',
                            'unitary vortex retarder differs from Mawet et al. eq. 7', desc)
                        M = pol.jones_to_mueller(V)
                        law(ctx, 'mueller.orthogonal', M @ np.swapaxes(M, -1, -2), np.broadcast_to(np.eye(4), M.shape),
                            'C20/jones_to_mueller/unitary-not-orthogonal/broadcast=True', 'unitary Jones matrix: M M^T != I', desc)
                    else:
                        ctx.skip('vortex closed-form comparison: element is not unitary (already reported by the contract)')

    # --- 4. Mueller / Kronecker / Pauli on random complex matrices ----------------------------------------------------
    leads = [(), (1,), (4,), (1, 1), (2, 3), (3, 1), (2, 1, 3), (2, 2, 2)]
    nm_ = ctx.pick(40, 600)
    k = -1
    for rep in range(nm_):
        for lead in leads:
            k += 1
            if not ctx.mine(k):
                continue
            sub = ctx.subseed(rng)
            g = np.random.default_rng(sub)
            A, B = rand_c(g, lead + (2, 2)), rand_c(g, lead + (2, 2))
            U = rand_unitary(g, lead)
            desc = {'wl': 'mueller', 'lead': list(lead), 'subseed': sub, 'class': f'mueller:lead{len(lead)}d'}
            ctx.case(desc)
            with ctx.guard('C20/jones_to_mueller', desc):
                MA, MB, MAB = pol.jones_to_mueller(A), pol.jones_to_mueller(B), pol.jones_to_mueller(A @ B)
                law(ctx, 'mueller.multiplicative', MAB, MA @ MB, 'C20/jones_to_mueller/not-multiplicative/broadcast=True',
                    'M(A B) != M(A) M(B)', desc)
                MU = pol.jones_to_mueller(U)
                ok = law(ctx, 'mueller.orthogonal', MU @ np.swapaxes(MU, -1, -2), np.broadcast_to(np.eye(4), MU.shape),
                         'C20/jones_to_mueller/unitary-not-orthogonal/broadcast=True', 'unitary Jones matrix: M M^T != I', desc)
                if ok:
                    law(ctx, 'mueller.orthogonal', MU[..., 0, 0], np.ones(lead), 'C20/jones_to_mueller/M00!=1/broadcast=True',
                        'unitary Jones matrix: M00 != 1', desc)
                refM = np.empty(lead + (4, 4))
                one = np.empty(lead + (4, 4))
                kr = np.empty(lead + (4, 4), dtype=complex)
                for ix in np.ndindex(*lead):
                    refM[ix] = ref_mueller(A[ix])
                    one[ix] = pol.jones_to_mueller(A[ix])
                    kr[ix] = np.kron(A[ix], B[ix])
                ctx.observe('mueller.reference')
                sc = max(1.0, maxabs(refM))
                e1, e2 = maxabs(MA - refM), maxabs(MA - D3 @ refM @ D3)
                if not min(e1, e2) <= TOL * sc:
                    ctx.violation('C20/jones_to_mueller/ne-pauli-trace-reference', 'M != (1/2) tr(s_i J s_j J^H) in either S3 sign convention',
                                  desc, err=min(e1, e2))
                if lead != ():
                    law(ctx, 'mueller.batched', MA, one, 'C20/jones_to_mueller/batched!=per-element', 'batched Mueller != per-element', desc)
                law(ctx, 'kron.eq-numpy', pol.broadcast_kron(A, B), kr, 'C20/broadcast_kron/ne-numpy-kron', 'broadcast_kron != numpy.kron per element', desc)
                if lead == ():
                    M2 = pol.jones_to_mueller(A @ B, broadcast=False)
                    law(ctx, 'mueller.multiplicative', M2, pol.jones_to_mueller(A, broadcast=False) @ pol.jones_to_mueller(B, broadcast=False),
                        'C20/jones_to_mueller/not-multiplicative/broadcast=False', 'M(A B) != M(A) M(B)', desc)
                    law(ctx, 'mueller.batched', M2, MAB, 'C20/jones_to_mueller/broadcast-forms-differ', 'broadcast=False result != broadcast=True result', desc)
            with ctx.guard('C20/pauli', desc):
                c = pol.pauli_coefficients(A)
                rec = sum(np.asarray(ci)[..., None, None] * pol.pauli_spin_matrix(i, shape=lead if lead != () else None)
                          for i, ci in enumerate(c))
                law(ctx, 'pauli.reconstruct', rec, A, 'C20/pauli/reconstruction', 'sum_i c_i sigma_i != J', desc)

    # --- 5. jones_adapter applied directly to the propagation routines ---------------------------------------------------
    sizes = [(2, 2), (3, 3), (4, 4), (5, 4), (4, 7), (8, 8), (9, 6), (16, 16), (3, 1), (1, 5)]
    if not ctx.quick:
        sizes += [(7, 7), (6, 11), (12, 12), (13, 16)]
    k = -1
    for rep in range(ctx.pick(4, 24)):
        for shp in sizes:
            for fname in PROP_FUNCS:
                k += 1
                if not ctx.mine(k):
                    continue
                sub = ctx.subseed(rng)
                g = np.random.default_rng(sub)
                Jf = rand_c(g, shp + (2, 2))
                Q = [2, 1, 1.5, 3][int(g.integers(4))]
                nout = int(g.integers(2, 12))
                if fname in ('focus', 'unfocus'):
                    args, kw = ((Q,), {}) if g.random() < 0.7 else ((), {'Q': Q})
                elif fname == 'angular_spectrum':
                    args, kw = (0.6, 0.1, float(g.uniform(1, 50))), ({'Q': Q} if g.random() < 0.7 else {})
                else:
                    args = (0.1, 100.0, 0.5, float(g.uniform(1, 6)), nout)
                    kw = {} if g.random() < 0.5 else {'shift': (float(g.uniform(-3, 3)), float(g.uniform(-3, 3)))}
                    if g.random() < 0.3:
                        kw['method'] = 'czt'
                desc = {'wl': 'adapter', 'fn': fname, 'shape': list(shp), 'args': list(args), 'kwargs': kw, 'subseed': sub,
                        'class': f'adapter:{fname}:{"sq" if shp[0] == shp[1] else "nonsq"}'}
                ctx.case(desc)
                f = getattr(propagation, fname)
                try:
                    with quiet():
                        comps = [[np.asarray(f(Jf[..., i, j].copy(), *args, **kw)) for j in range(2)] for i in range(2)]
                except Exception as e:  # the scalar routine itself fails on this input: some other property's business
                    ctx.skip(f'adapter: scalar {fname} itself raises {type(e).__name__} on this input (not a C20 matter)')
                    continue
                with ctx.guard(f'C20/jones_adapter/{fname}', desc):
                    snap = Jf.copy()
                    out = pol.jones_adapter(f)(Jf, *args, **kw)
                    ref = np.empty(comps[0][0].shape + (2, 2), dtype=np.result_type(*[c.dtype for row in comps for c in row]))
                    for i in range(2):
                        for j in range(2):
                            ref[..., i, j] = comps[i][j]
                    law(ctx, 'adapter.componentwise', out, ref, f'C20/jones_adapter/{fname}/component-mismatch',
                        f'jones_adapter({fname})(J)[..., i, j] != {fname}(J[..., i, j])', desc)
                    ctx.require('adapter.input-unchanged', np.array_equal(Jf, snap), f'C20/jones_adapter/{fname}/mutates-input',
                                'jones_adapter modified the Jones field passed in', desc)
                    a2 = Jf[..., 0, 1].copy()
                    law(ctx, 'adapter.componentwise', pol.jones_adapter(f)(a2, *args, **kw), comps[0][1],
                        f'C20/jones_adapter/{fname}/2d-passthrough', 'jones_adapter on a 2-D (scalar) field != the plain routine', desc)
                # apply_polarization_optic
                with ctx.guard('C20/apply_polarization_optic', desc):
                    field = rand_c(g, shp)
                    got = pol.apply_polarization_optic(field.copy(), Jf)
                    law(ctx, 'apply_polarization_optic.elementwise', got, Jf * field[..., None, None],
                        'C20/apply_polarization_optic/elementwise', 'apply_polarization_optic != optic * field[..., None, None]', desc)


def _run_monkeypatch(ctx, saved):
    """add_jones_propagation replaces functions of prysm.propagation globally: exercised last, restored by run()."""
    from prysm.x import polarization as pol
    from prysm import propagation
    g = np.random.default_rng(ctx.seed + 17)
    desc0 = {'wl': 'add_jones_propagation', 'class': 'monkeypatch'}
    with ctx.guard('C20/add_jones_propagation', desc0):
        pol.add_jones_propagation()
        try:
            for shp in [(4, 4), (5, 6), (8, 8)]:
                Jf = rand_c(g, shp + (2, 2))
                A = rand_c(g, shp)
                calls = {'focus': ((2,), {}), 'unfocus': ((1,), {}), 'angular_spectrum': ((0.6, 0.1, 20.0), {'Q': 2}),
                         'focus_fixed_sampling': ((0.1, 100.0, 0.5, 3.0, 6), {}),
                         'unfocus_fixed_sampling': ((3.0, 100.0, 0.5, 0.1, 6), {})}
                for fname, (args, kw) in calls.items():
                    desc = {'wl': 'add_jones_propagation', 'fn': fname, 'shape': list(shp), 'class': f'monkeypatch:{fname}'}
                    ctx.case(desc)
                    patched = getattr(propagation, fname)
                    ctx.require('add_jones_propagation.patched', patched is not saved[fname],
                                f'C20/add_jones_propagation/{fname}/not-patched', 'add_jones_propagation did not replace the function', desc)
                    direct = pol.jones_adapter(saved[fname])(Jf, *args, **kw)
                    law(ctx, 'add_jones_propagation.eq-direct', patched(Jf, *args, **kw), direct,
                        f'C20/add_jones_propagation/{fname}/ne-direct-adapter', 'patched propagation function != jones_adapter(original)', desc)
                    law(ctx, 'add_jones_propagation.eq-direct', patched(A, *args, **kw), saved[fname](A, *args, **kw),
                        f'C20/add_jones_propagation/{fname}/scalar-passthrough', 'patched function on a scalar field != original', desc)
        finally:
            for k2, v in saved.items():
                setattr(propagation, k2, v)


def replay(ctx, rec):
    run(ctx)
